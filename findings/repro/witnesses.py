"""Witnesses for the findings of the static rules, run ONCE during triage against
the real code (development evidence; no registered check executes this file).

    /venv/bin/python /verif/findings/repro/witnesses.py [name ...]

Each witness prints WITNESSED (the defect shows) or NOT-WITNESSED (repaired /
not reproducible).  The exit status is always 0: this is documentation.
"""

import csv
import glob
import io
import os
import re
import sys
import tempfile
from datetime import datetime, timedelta, timezone

sys.path.insert(0, os.environ.get("TF_REPO", "/repo"))
from tinyflux import (FieldQuery, MeasurementQuery, Point, TagQuery, TimeQuery,  # noqa: E402
                      TinyFlux)
from tinyflux.storages import CSVStorage, MemoryStorage  # noqa: E402

T0 = datetime(2024, 1, 1, tzinfo=timezone.utc)
W = {}


def witness(fn):
    W[fn.__name__] = fn
    return fn


def mem(auto=True):
    return TinyFlux(storage=MemoryStorage, auto_index=auto)


def tmpcsv():
    d = tempfile.mkdtemp(prefix="tfw")
    return os.path.join(d, "db.csv")


@witness
def not_field_over_matches():
    """C01.R1/C02.R1/C03.R1: NOT over a field query returns the universe and consumers trust it."""
    db = mem()
    db.insert_multiple([Point(time=T0 + timedelta(seconds=i), fields={"f": i}) for i in range(3)])
    q = ~(FieldQuery().f == 1)
    db2 = mem(auto=False)
    db2.insert_multiple([Point(time=T0 + timedelta(seconds=i), fields={"f": i}) for i in range(3)])
    return db.count(q) != db2.count(q), f"indexed count={db.count(q)} scan count={db2.count(q)}"


@witness
def not_field_remove_deletes_everything():
    db = mem()
    db.insert_multiple([Point(time=T0 + timedelta(seconds=i), fields={"f": i}) for i in range(3)])
    n = db.remove(~(FieldQuery().f == 1))
    return len(db) != 1, f"removed={n} left={len(db)} (expected 2 removed, 1 left)"


@witness
def field_map_ignored_by_index():
    """C01.R2"""
    pts = [Point(time=T0 + timedelta(seconds=i), fields={"f": i}) for i in range(4)]
    a, b = mem(), mem(auto=False)
    a.insert_multiple(pts)
    b.insert_multiple([Point(time=p.time, fields=dict(p.fields)) for p in pts])
    q = FieldQuery().f.map(lambda x: x % 2) == 0
    return a.count(q) != b.count(q), f"indexed={a.count(q)} scan={b.count(q)}"


@witness
def time_map_ignored_by_index():
    pts = [Point(time=T0 + timedelta(hours=i)) for i in range(4)]
    a, b = mem(), mem(auto=False)
    a.insert_multiple(pts)
    b.insert_multiple([Point(time=p.time) for p in pts])
    q = TimeQuery().map(lambda t: t.replace(hour=0)) == T0
    return a.count(q) != b.count(q), f"indexed={a.count(q)} scan={b.count(q)}"


@witness
def keyless_noop_under_matches():
    """C01.R3"""
    a, b = mem(), mem(auto=False)
    for db in (a, b):
        db.insert(Point(time=T0, tags={"a": "x"}))
        db.insert(Point(time=T0 + timedelta(seconds=1)))
    q = TagQuery().noop()
    return a.count(q) != b.count(q), f"indexed={a.count(q)} scan={b.count(q)}"


@witness
def reset_leaves_position_array():
    """C06.R1/R2: _reset does not clear _storage_pos_sorted_by_ts."""
    db = mem()
    db.insert_multiple([Point(time=T0 + timedelta(seconds=i)) for i in range(3)])
    db.remove_all()
    db.insert_multiple([Point(time=T0 + timedelta(seconds=10 + i)) for i in range(2)])
    n = db.count(TimeQuery() >= T0 + timedelta(seconds=11))
    return n != 1, f"count(Time >= t11)={n} expected 1; pos={db.index._storage_pos_sorted_by_ts}"


@witness
def index_remove_drifts():
    """C06.R1/R2/R3: Index.remove / update do not maintain the position array."""
    db = mem()
    ts = [3, 1, 2, 0]
    db.insert_multiple([Point(time=T0 + timedelta(seconds=t), tags={"k": str(t)}) for t in ts])
    db.reindex() if not db.index.valid else None
    db.count(TimeQuery() >= T0)  # forces a reindex (auto)
    db.remove(TagQuery().k == "3")
    ref = mem(auto=False)
    ref.insert_multiple([Point(time=T0 + timedelta(seconds=t), tags={"k": str(t)}) for t in [1, 2, 0]])
    q = TimeQuery() <= T0 + timedelta(seconds=1)
    got = sorted(p.tags["k"] for p in db.search(q))
    exp = sorted(p.tags["k"] for p in ref.search(q))
    return got != exp, f"indexed after remove={got} expected={exp} valid={db.index.valid}"


@witness
def aborted_insert_leaves_valid_stale_index():
    """C06.R4/C11.R3"""
    db = mem(auto=False)
    try:
        db.insert_multiple([Point(time=T0), 5])
    except TypeError:
        pass
    n = db.count(TimeQuery() >= T0)
    return db.index.valid and n != 1, f"index.valid={db.index.valid} count={n} stored={len(db.storage)}"


@witness
def build_sets_valid_before_populating():
    """C06.R7/C13.R3"""
    from tinyflux.index import Index
    ix = Index(valid=False)

    def gen():
        yield Point(time=T0)
        yield Point(time=T0 + timedelta(seconds=1))
        raise OSError("disk read failed")
    try:
        ix.build(gen())
    except OSError:
        pass
    return ix.valid and len(ix) == 2, f"valid={ix.valid} len={len(ix)} after a failed build"


@witness
def temp_file_encoding():
    """C04.R1"""
    p = tmpcsv()
    db = TinyFlux(p, encoding="utf-16")
    db.insert(Point(time=T0, tags={"a": "x"}))
    db.insert(Point(time=T0 + timedelta(seconds=1), tags={"a": "y"}))
    db.remove(TagQuery().a == "x")
    try:
        pts = db.all()
        ok = len(pts) == 1
        msg = f"{len(pts)} points"
    except Exception as e:  # noqa
        ok = False
        msg = f"{type(e).__name__}: {e}"
    return not ok, msg


@witness
def unflushed_temp_file():
    """C04.R3"""
    p = tmpcsv()
    db = TinyFlux(p, flush_on_insert=False)
    db.insert_multiple([Point(time=T0 + timedelta(seconds=i), tags={"a": str(i)}) for i in range(3)])
    db.remove(TagQuery().a == "0")
    n = len(db.all())
    return n != 2, f"{n} rows after removing 1 of 3 with flush_on_insert=False"


@witness
def truncating_reopen():
    """C04.R5"""
    p = tmpcsv()
    db = TinyFlux(p, access_mode="w+")
    db.insert_multiple([Point(time=T0 + timedelta(seconds=i), tags={"a": str(i)}) for i in range(3)])
    db.remove(TagQuery().a == "0")
    n = len(db.all())
    return n != 2, f"{n} rows after removing 1 of 3 under access_mode='w+'"


@witness
def len_counts_lines():
    """C07.R1"""
    p = tmpcsv()
    db = TinyFlux(p, auto_index=False)
    db.insert(Point(time=T0, tags={"k": "a\nb"}))
    return len(db) != len(db.all()), f"len(db)={len(db)} len(db.all())={len(db.all())}"


@witness
def field_values_leak_across_measurements():
    """C07.R3"""
    db = mem()
    db.insert(Point(time=T0, measurement="m1", fields={"f": 1}))
    db.insert(Point(time=T0 + timedelta(seconds=1), measurement="m2", fields={"f": 2}))
    got = db.get_field_values("f", "m1")
    return got != [1], f"get_field_values('f','m1')={got}"


@witness
def update_time_not_normalised():
    """C08.R1"""
    from datetime import timezone as tz
    p = tmpcsv()
    db = TinyFlux(p)
    db.insert(Point(time=T0, tags={"a": "x"}))
    t = datetime(2024, 6, 1, 12, 0, tzinfo=tz(timedelta(hours=5)))
    db.update(TagQuery().a == "x", time=t)
    got = db.all()[0].time
    return got != t, f"stored {got.isoformat()} for {t.isoformat()} (same instant: {got == t})"


@witness
def regex_on_none_tag_raises():
    """C09.R1"""
    q = TagQuery().a.matches("x")
    try:
        r = q(Point(time=T0, tags={"a": None}))
        return False, f"evaluated to {r}"
    except Exception as e:  # noqa
        return True, f"{type(e).__name__}: {e}"


@witness
def empty_measurement_handle_sees_everything():
    """C10.R5"""
    db = mem()
    db.insert(Point(time=T0, measurement="a"))
    db.insert(Point(time=T0 + timedelta(seconds=1), measurement=""))
    h = db.measurement("")
    n = h.count(TimeQuery() >= T0)
    return n != 1, f"handle('').count={n} len(handle)={len(h)}"


@witness
def memory_update_mutates_before_commit():
    """C11.R1"""
    db = mem()
    db.insert_multiple([Point(time=T0 + timedelta(seconds=i), tags={"a": str(i)}) for i in range(2)])

    def boom(tags):
        if tags["a"] == "1":
            raise RuntimeError("user callable failed")
        return {"a": "changed"}
    try:
        db.update_all(tags=boom)
    except RuntimeError:
        pass
    got = [p.tags["a"] for p in db.all()]
    return got != ["0", "1"], f"tags after failed update_all: {got}"


@witness
def callable_result_not_validated():
    """C14.R1"""
    db = mem()
    db.insert(Point(time=T0, fields={"f": 1}))
    try:
        n = db.update_all(fields=lambda f: {"f": "str"})
    except Exception as e:  # noqa
        return False, f"rejected: {type(e).__name__}"
    return True, f"update_all returned {n}; stored field value {db.all()[0].fields['f']!r}"


@witness
def temp_files_leak():
    """C15.R3"""
    p = tmpcsv()
    before = set(glob.glob(os.path.join(tempfile.gettempdir(), "tmp*")))
    db = TinyFlux(p)
    db.insert_multiple([Point(time=T0 + timedelta(seconds=i), tags={"a": str(i)}) for i in range(3)])
    db.remove(TagQuery().a == "0")
    db.update(TagQuery().a == "1", tags={"b": "y"})
    after = set(glob.glob(os.path.join(tempfile.gettempdir(), "tmp*")))
    return len(after - before) > 0, f"{len(after - before)} temporary file(s) left behind"


@witness
def temp_file_leaks_on_raise():
    p = tmpcsv()
    before = set(glob.glob(os.path.join(tempfile.gettempdir(), "tmp*")))
    db = TinyFlux(p)
    db.insert(Point(time=T0, tags={"a": "0"}))

    def boom(_):
        raise RuntimeError("x")
    try:
        db.update_all(tags=boom)
    except RuntimeError:
        pass
    after = set(glob.glob(os.path.join(tempfile.gettempdir(), "tmp*")))
    open_handle = db.storage._temp_handle is not None and not db.storage._temp_handle.closed
    return len(after - before) > 0 or open_handle, f"{len(after - before)} file(s) left, handle still open: {open_handle}"


@witness
def regex_flags_not_in_identity():
    """C17.R1"""
    a = TagQuery().a.matches("x")
    b = TagQuery().a.matches("x", re.I)
    p = Point(time=T0, tags={"a": "X"})
    return a == b and a(p) != b(p), f"equal={a == b} a(p)={a(p)} b(p)={b(p)}"


@witness
def combinator_heads_differ():
    """C17.R2"""
    a, b, c = TagQuery().a == "1", TagQuery().b == "2", TagQuery().c == "3"
    l = a & (b & c)
    r = (b & c) & a
    return l != r, f"a & (b & c) == (b & c) & a -> {l == r}"


@witness
def none_sentinel_collides():
    """C05.R2"""
    p = Point(time=T0, tags={"a": "_none"})
    q = Point()._deserialize_from_list(p._serialize_to_list())
    return q.tags != p.tags, f"{p.tags} -> {q.tags}"


@witness
def empty_measurement_collides():
    p = Point(time=T0, measurement="")
    q = Point()._deserialize_from_list(p._serialize_to_list())
    return q.measurement != p.measurement, f"{p.measurement!r} -> {q.measurement!r}"


@witness
def big_int_collapses():
    """C05.R3"""
    v = 2 ** 53 + 1
    p = Point(time=T0, fields={"f": v})
    q = Point()._deserialize_from_list(p._serialize_to_list())
    return q.fields["f"] != v, f"{v} -> {q.fields['f']!r}"


@witness
def copy_publication_is_not_atomic():
    """C12.R1: a fault in the middle of shutil.copy leaves a truncated primary file."""
    import shutil
    p = tmpcsv()
    db = TinyFlux(p)
    db.insert_multiple([Point(time=T0 + timedelta(seconds=i), tags={"a": str(i)}) for i in range(3)])
    real = shutil.copy

    def failing(src, dst, *a, **k):
        with open(dst, "w"):
            pass  # the destination has been truncated ...
        raise OSError("disk full")  # ... and the copy dies
    shutil.copy = failing
    try:
        try:
            db.remove(TagQuery().a == "0")
        except OSError:
            pass
    finally:
        shutil.copy = real
    with open(p) as fh:
        rows = list(csv.reader(fh))
    return len(rows) not in (2, 3), f"file holds {len(rows)} rows (neither the old 3 nor the new 2)"


@witness
def failed_swap_leaves_valid_index():
    """C06.R4 own-exc / C13.R2"""
    import shutil
    p = tmpcsv()
    db = TinyFlux(p)
    db.insert_multiple([Point(time=T0 + timedelta(seconds=i), tags={"a": str(i)}) for i in range(3)])
    real = shutil.copy

    def failing(src, dst, *a, **k):
        with open(dst, "w"):
            pass
        raise OSError("disk full")
    shutil.copy = failing
    try:
        try:
            db.remove(TagQuery().a == "0")
        except OSError:
            pass
    finally:
        shutil.copy = real
    try:
        n = db.count(TagQuery().a == "1")
    except Exception as e:  # noqa
        return False, f"later read fails loudly: {type(e).__name__}"
    return db.index.valid and n == 1, f"index still valid, count answers {n} from the index while the file is empty"


@witness
def failed_flush_leaves_valid_index():
    """C13.R2: append raises after the row reached the buffer."""
    p = tmpcsv()
    db = TinyFlux(p)
    db.insert(Point(time=T0, tags={"a": "0"}))
    real = os.fsync

    def failing(fd):
        raise OSError("EIO")
    os.fsync = failing
    try:
        try:
            db.insert(Point(time=T0 + timedelta(seconds=1), tags={"a": "1"}))
        except OSError:
            pass
    finally:
        os.fsync = real
    n_index = db.count(TimeQuery() >= T0)
    n_file = len(db.all())
    return db.index.valid and n_index != n_file, f"index count={n_index} storage rows={n_file} index.valid={db.index.valid}"



@witness
def falsy_invalid_update_argument_is_ignored():
    """C14.R2: a falsy wrongly-typed static update argument is treated as `not given` instead of being rejected."""
    db = mem()
    db.insert(Point(time=T0, tags={"a": "x"}, fields={"f": 1}))
    msgs = []
    for kw in ({"time": 0}, {"time": ""}, {"measurement": 0}, {"measurement": []}):
        try:
            n = db.update(TagQuery().a == "x", fields={"f": 2}, **kw)
            msgs.append(f"{kw} accepted (returned {n})")
        except (ValueError, TypeError) as e:
            msgs.append(f"{kw} rejected")
    return any("accepted" in m for m in msgs), "; ".join(msgs)


def main():
    names = sys.argv[1:] or list(W)
    for n in names:
        try:
            ok, msg = W[n]()
        except Exception as e:  # noqa
            import traceback
            traceback.print_exc()
            ok, msg = None, f"witness crashed: {type(e).__name__}: {e}"
        tag = "WITNESSED" if ok else ("NOT-WITNESSED" if ok is False else "ERROR")
        print(f"{tag:14s} {n}: {msg}")


if __name__ == "__main__":
    main()
