#!/bin/sh
# helper: list obligations of a property compactly
cd /verif && ./check "$1" --no-evidence --json | /venv/bin/python -c "
import sys,json
t=sys.stdin.read()
j=json.loads(t[t.index('[\n'):t.rindex(']')+1])
for o in j:
    if len(sys.argv)>1 and not o['rule'].startswith(sys.argv[1]): continue
    print(('ok ' if o['verdict']=='ok' else 'XX '),o['rule'],o['construct'],'::',o['what'][:300])
print(t[t.rindex(']')+1:].strip())
" "$2"
