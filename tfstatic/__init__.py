"""tfstatic: repository-specific static analysis of citrusvanilla/tinyflux.

Everything here inspects the *source text* of /repo/tinyflux (parsed with the
stdlib ``ast``); tinyflux itself is never imported or executed.
"""
