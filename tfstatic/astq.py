"""Small AST query helpers shared by rules."""

from __future__ import annotations

import ast
from typing import Dict, Iterable, Iterator, List, Optional, Sequence, Set, Tuple

from .model import Func, Program, is_self_attr, norm, parent, walk_local, ancestors


def names_in(e: ast.AST) -> Set[str]:
    return {n.id for n in ast.walk(e) if isinstance(n, ast.Name)}


def self_attrs_in(e: ast.AST, selfname: str = "self") -> Set[str]:
    return {n.attr for n in ast.walk(e) if is_self_attr(n, None, selfname)}


def assignments_to(f: Func, name: str) -> List[ast.AST]:
    """Values assigned to local `name` anywhere in f (flow-insensitive)."""
    out: List[ast.AST] = []
    for n in walk_local(f.node):
        if isinstance(n, ast.Assign):
            for t in n.targets:
                if isinstance(t, ast.Name) and t.id == name:
                    out.append(n.value)
                elif isinstance(t, (ast.Tuple, ast.List)):
                    for k, el in enumerate(t.elts):
                        if isinstance(el, ast.Name) and el.id == name:
                            if isinstance(n.value, (ast.Tuple, ast.List)) and len(n.value.elts) == len(t.elts):
                                out.append(n.value.elts[k])
                            else:
                                out.append(n.value)
        elif isinstance(n, ast.AnnAssign) and isinstance(n.target, ast.Name) and n.target.id == name \
                and n.value is not None:
            out.append(n.value)
        elif isinstance(n, ast.AugAssign) and isinstance(n.target, ast.Name) and n.target.id == name:
            out.append(n)
        elif isinstance(n, ast.NamedExpr) and isinstance(n.target, ast.Name) and n.target.id == name:
            out.append(n.value)
    return out


def assign_stmts_to(f: Func, name: str) -> List[ast.stmt]:
    out = []
    for n in walk_local(f.node):
        if isinstance(n, (ast.Assign, ast.AnnAssign, ast.AugAssign)):
            ts = n.targets if isinstance(n, ast.Assign) else [n.target]
            for t in ts:
                for x in ast.walk(t):
                    if isinstance(x, ast.Name) and x.id == name and isinstance(x.ctx, ast.Store):
                        out.append(n)
    return out


def call_name(c: ast.Call) -> str:
    f = c.func
    if isinstance(f, ast.Attribute):
        return f.attr
    if isinstance(f, ast.Name):
        return f.id
    return ""


def method_calls(node: ast.AST, attr: str) -> List[ast.Call]:
    return [n for n in walk_local(node) if isinstance(n, ast.Call)
            and isinstance(n.func, ast.Attribute) and n.func.attr == attr]


def loops_in(f: Func) -> List[ast.For]:
    return [n for n in walk_local(f.node) if isinstance(n, ast.For)]


def strip_enumerate(it: ast.AST) -> Tuple[ast.AST, bool]:
    if isinstance(it, ast.Call) and isinstance(it.func, ast.Name) and it.func.id == "enumerate" and it.args:
        return it.args[0], True
    return it, False


def loop_vars(loop: ast.For) -> Tuple[Optional[str], Optional[str]]:
    """(position var, item var) of `for i, item in enumerate(X)` / `for item in X`."""
    it, enum = strip_enumerate(loop.iter)
    t = loop.target
    if enum and isinstance(t, ast.Tuple) and len(t.elts) == 2 \
            and all(isinstance(e, ast.Name) for e in t.elts):
        return t.elts[0].id, t.elts[1].id  # type: ignore
    if not enum and isinstance(t, ast.Name):
        return None, t.id
    return None, None


def storage_loops(ctx, f: Func) -> List[ast.For]:
    """for-loops of f that iterate the storage object (type Storage or subclass)."""
    out = []
    storages = set(ctx.prog.subclasses("Storage"))
    for lp in loops_in(f):
        it, _ = strip_enumerate(lp.iter)
        t = ctx.res.type_of(it, f)
        if t in storages:
            out.append(lp)
    return out


def is_call_to(c: ast.AST, attr: str) -> bool:
    return isinstance(c, ast.Call) and isinstance(c.func, ast.Attribute) and c.func.attr == attr


def enclosing_loop(n: ast.AST) -> Optional[ast.AST]:
    for a in ancestors(n):
        if isinstance(a, (ast.For, ast.While)):
            return a
        if isinstance(a, (ast.FunctionDef, ast.Lambda)):
            return None
    return None


def in_subtree(n: ast.AST, root: ast.AST) -> bool:
    if n is root:
        return True
    for a in ancestors(n):
        if a is root:
            return True
    return False


def stmt_of(n: ast.AST) -> ast.stmt:
    x = n
    while not isinstance(x, ast.stmt):
        x = parent(x)
    return x


def kw(call: ast.Call, name: str) -> Optional[ast.AST]:
    for k in call.keywords:
        if k.arg == name:
            return k.value
    return None


def bind_args(call: ast.Call, target: Func, skip_self: bool = True) -> Tuple[Dict[str, ast.AST], List[str]]:
    """Bind call arguments to the target's parameter names.

    Returns (mapping param -> argument expr, problems)."""
    a = target.node.args
    pos = [x.arg for x in a.posonlyargs + a.args]
    if skip_self and pos and pos[0] in ("self", "cls"):
        pos = pos[1:]
    kwonly = [x.arg for x in a.kwonlyargs]
    out: Dict[str, ast.AST] = {}
    problems: List[str] = []
    for i, x in enumerate(call.args):
        if isinstance(x, ast.Starred):
            problems.append("star-args")
            continue
        if i < len(pos):
            out[pos[i]] = x
        elif a.vararg is None:
            problems.append(f"too many positional arguments ({i + 1})")
    for k in call.keywords:
        if k.arg is None:
            problems.append("star-kwargs")
            continue
        if k.arg in out:
            problems.append(f"parameter {k.arg} bound twice")
        if k.arg in pos or k.arg in kwonly or a.kwarg is not None:
            out[k.arg] = k.value
        else:
            problems.append(f"no parameter named {k.arg}")
    return out, problems


def occ(f: Func, node: ast.AST) -> str:
    """Ordinal suffix distinguishing statements of f with identical text ('' if unique)."""
    st = stmt_of(node)
    text = norm(st)
    same = [n for n in walk_local(f.node) if isinstance(n, ast.stmt) and norm(n) == text]
    same.sort(key=lambda n: (n.lineno, n.col_offset))
    if len(same) <= 1:
        return ""
    for k, n in enumerate(same):
        if n is st:
            return f" @{k + 1}/{len(same)}"
    return ""
