"""Statement-level control-flow graphs with exceptional edges, and the path
queries the rules use (must-pass-through before/after, loop-body path
enumeration).

Only the statement kinds the analysed package uses are supported; anything else
raises AnalysisError (never a guess).
"""

from __future__ import annotations

import ast
from typing import Callable, Dict, Iterable, List, Optional, Sequence, Set, Tuple

from .model import AnalysisError, Func, walk_local_stmt

CATCH_ALL = {"BaseException"}

# builtins whose call cannot raise for the argument shapes used in the package
TOTAL_CALLS = {
    "len", "isinstance", "callable", "set", "list", "dict", "tuple", "bool",
    "id", "type", "print", "repr", "enumerate", "zip", "range", "hasattr",
    "frozenset",
}


class Node:
    __slots__ = ("id", "kind", "ast", "copy")

    def __init__(self, id: int, kind: str, node: Optional[ast.AST], copy: str = ""):
        self.id = id
        self.kind = kind  # entry exit rexit stmt test iter with dispatch handler join
        self.ast = node
        self.copy = copy

    @property
    def lineno(self) -> int:
        return getattr(self.ast, "lineno", 0)

    def exprs(self) -> List[ast.AST]:
        """The expressions evaluated *at* this node (not nested bodies)."""
        a = self.ast
        if a is None:
            return []
        if self.kind == "test":
            return [a.test]  # type: ignore[attr-defined]
        if self.kind == "iter":
            return [a.iter]  # type: ignore[attr-defined]
        if self.kind == "with":
            return [i.context_expr for i in a.items]  # type: ignore[attr-defined]
        if self.kind == "handler":
            return [a.type] if getattr(a, "type", None) is not None else []
        if self.kind == "stmt":
            if isinstance(a, (ast.FunctionDef, ast.AsyncFunctionDef, ast.ClassDef)):
                return []
            return [a]
        return []

    def walk(self) -> Iterable[ast.AST]:
        for e in self.exprs():
            yield from walk_local_stmt(e)

    def calls(self) -> List[ast.Call]:
        return [n for n in self.walk() if isinstance(n, ast.Call)]

    def __repr__(self) -> str:
        return f"<N{self.id} {self.kind} L{self.lineno}>"


def default_may_raise(n: Node) -> bool:
    if n.kind in ("entry", "exit", "rexit", "join", "dispatch", "handler"):
        return False
    a = n.ast
    if n.kind == "stmt" and isinstance(a, (ast.Raise, ast.Assert)):
        return True
    for x in n.walk():
        if isinstance(x, ast.Call):
            f = x.func
            if isinstance(f, ast.Name) and f.id in TOTAL_CALLS:
                continue
            return True
        if isinstance(x, (ast.Yield, ast.YieldFrom)):
            continue
    if n.kind == "iter":
        # iterating anything that is not a plain local may run foreign code
        it = a.iter  # type: ignore[attr-defined]
        if not isinstance(it, ast.Name):
            return True
    return False


class _Ctx:
    __slots__ = ("exc", "cont", "brk", "finals")

    def __init__(self, exc: int, cont: Optional[int], brk: Optional[list],
                 finals: tuple):
        self.exc = exc
        self.cont = cont
        self.brk = brk
        self.finals = finals

    def with_(self, **kw) -> "_Ctx":
        c = _Ctx(self.exc, self.cont, self.brk, self.finals)
        for k, v in kw.items():
            setattr(c, k, v)
        return c


Edge = Tuple[int, Optional[str]]


class CFG:
    def __init__(self, func: Func, may_raise: Callable[[Node], bool] = default_may_raise,
                 exceptional: bool = True):
        self.func = func
        self.nodes: List[Node] = []
        self.succ: Dict[int, List[Edge]] = {}
        self.pred: Dict[int, List[Edge]] = {}
        self.node_of: Dict[int, List[int]] = {}
        self.may_raise = may_raise
        self.exceptional = exceptional
        self.entry = self._new("entry", None).id
        self.exit = self._new("exit", None).id
        self.rexit = self._new("rexit", None).id
        ctx = _Ctx(self.rexit, None, None, ())
        outs = self._seq(func.body, [(self.entry, None)], ctx)
        self._join(outs, self.exit)

    # ------------------------------------------------------------ building
    def _new(self, kind: str, node: Optional[ast.AST], copy: str = "") -> Node:
        n = Node(len(self.nodes), kind, node, copy)
        self.nodes.append(n)
        self.succ[n.id] = []
        self.pred[n.id] = []
        if node is not None:
            self.node_of.setdefault(id(node), []).append(n.id)
        return n

    def _edge(self, a: int, b: int, label: Optional[str]) -> None:
        if (b, label) not in self.succ[a]:
            self.succ[a].append((b, label))
            self.pred[b].append((a, label))

    def _join(self, preds: Sequence[Edge], target: int) -> None:
        for p, lab in preds:
            self._edge(p, target, lab)

    def _exc(self, n: Node, ctx: _Ctx) -> None:
        if self.exceptional and self.may_raise(n):
            self._edge(n.id, ctx.exc, "exc")

    def _seq(self, stmts: Sequence[ast.stmt], preds: List[Edge], ctx: _Ctx) -> List[Edge]:
        for st in stmts:
            if not preds:
                # unreachable code after return/raise/continue/break: still
                # build it (detached) so that node_of knows the statements
                preds = []
            preds = self._stmt(st, preds, ctx)
        return preds

    def _stmt(self, st: ast.stmt, preds: List[Edge], ctx: _Ctx) -> List[Edge]:
        if isinstance(st, ast.If):
            t = self._new("test", st)
            self._join(preds, t.id)
            self._exc(t, ctx)
            a = self._seq(st.body, [(t.id, "true")], ctx)
            b = self._seq(st.orelse, [(t.id, "false")], ctx) if st.orelse else [(t.id, "false")]
            return a + b
        if isinstance(st, (ast.For, ast.While)):
            kind = "iter" if isinstance(st, ast.For) else "test"
            h = self._new(kind, st)
            self._join(preds, h.id)
            self._exc(h, ctx)
            brk: list = []
            lctx = ctx.with_(cont=h.id, brk=brk)
            body_out = self._seq(st.body, [(h.id, "body" if kind == "iter" else "true")], lctx)
            for p, lab in body_out:
                self._edge(p, h.id, lab if lab else "back")
            done: List[Edge] = [(h.id, "done" if kind == "iter" else "false")]
            if st.orelse:
                done = self._seq(st.orelse, done, ctx)
            return done + brk
        if isinstance(st, ast.Try):
            return self._try(st, preds, ctx)
        if isinstance(st, ast.With):
            w = self._new("with", st)
            self._join(preds, w.id)
            self._exc(w, ctx)
            return self._seq(st.body, [(w.id, None)], ctx)
        if isinstance(st, ast.Return):
            n = self._new("stmt", st)
            self._join(preds, n.id)
            self._exc(n, ctx)
            outs: List[Edge] = [(n.id, "return")]
            for fb, fctx in reversed(ctx.finals):
                outs = self._seq_copy(fb, outs, fctx, "return")
            self._join(outs, self.exit)
            return []
        if isinstance(st, ast.Raise):
            n = self._new("stmt", st)
            self._join(preds, n.id)
            self._edge(n.id, ctx.exc, "exc")
            return []
        if isinstance(st, ast.Continue):
            n = self._new("stmt", st)
            self._join(preds, n.id)
            if ctx.cont is None:
                raise AnalysisError("cfg", "continue outside loop")
            self._edge(n.id, ctx.cont, "continue")
            return []
        if isinstance(st, ast.Break):
            n = self._new("stmt", st)
            self._join(preds, n.id)
            if ctx.brk is None:
                raise AnalysisError("cfg", "break outside loop")
            ctx.brk.append((n.id, "break"))
            return []
        if isinstance(st, (ast.Expr, ast.Assign, ast.AugAssign, ast.AnnAssign,
                           ast.Assert, ast.Delete, ast.Pass, ast.Import,
                           ast.ImportFrom, ast.FunctionDef, ast.ClassDef,
                           ast.Global, ast.Nonlocal)):
            n = self._new("stmt", st)
            self._join(preds, n.id)
            self._exc(n, ctx)
            return [(n.id, None)]
        raise AnalysisError(
            "cfg",
            f"unsupported statement kind {type(st).__name__} in "
            f"{self.func.qual} line {getattr(st, 'lineno', 0)}",
        )

    def _seq_copy(self, stmts, preds, ctx, tag) -> List[Edge]:
        return self._seq(stmts, list(preds), ctx)

    def _try(self, st: ast.Try, preds: List[Edge], ctx: _Ctx) -> List[Edge]:
        # where an exception goes once this try statement does not catch it
        if st.finalbody:
            fexc = self._new("join", st, "finally-exc")
            out = self._seq(st.finalbody, [(fexc.id, None)], ctx)
            for p, lab in out:
                self._edge(p, ctx.exc, "exc")
            after_exc = fexc.id
            inner_finals = ctx.finals + ((st.finalbody, ctx),)
            if ctx.cont is not None:
                # break/continue through finally are not modelled
                for x in walk_local_stmt(st):
                    if isinstance(x, (ast.Break, ast.Continue)):
                        lp = x
                        inside_inner_loop = False
                        p = getattr(x, "_parent", None)
                        while p is not None and p is not st:
                            if isinstance(p, (ast.For, ast.While)):
                                inside_inner_loop = True
                            p = getattr(p, "_parent", None)
                        if not inside_inner_loop:
                            raise AnalysisError(
                                "cfg", f"break/continue through finally in {self.func.qual}")
        else:
            after_exc = ctx.exc
            inner_finals = ctx.finals
        hctx = ctx.with_(exc=after_exc, finals=inner_finals)
        if st.handlers:
            d = self._new("dispatch", st)
            catch_all = False
            handler_entries = []
            for h in st.handlers:
                hn = self._new("handler", h)
                self._edge(d.id, hn.id, "caught")
                handler_entries.append(hn)
                if h.type is None:
                    catch_all = True
                else:
                    names = []
                    for x in ast.walk(h.type):
                        if isinstance(x, ast.Name):
                            names.append(x.id)
                    if any(nm in CATCH_ALL for nm in names):
                        catch_all = True
            if not catch_all:
                self._edge(d.id, after_exc, "exc")
            bctx = ctx.with_(exc=d.id, finals=inner_finals)
        else:
            handler_entries = []
            bctx = hctx
        outs = self._seq(st.body, preds, bctx)
        if st.orelse:
            outs = self._seq(st.orelse, outs, hctx)
        for hn in handler_entries:
            outs = outs + self._seq(hn.ast.body, [(hn.id, None)], hctx)  # type: ignore
        if st.finalbody:
            outs = self._seq(st.finalbody, outs, ctx)
        return outs

    # -------------------------------------------------------------- queries
    def ids_of(self, node: ast.AST) -> List[int]:
        return self.node_of.get(id(node), [])

    def stmt_nodes(self) -> List[Node]:
        return [n for n in self.nodes if n.ast is not None]

    def find(self, pred: Callable[[Node], bool]) -> List[Node]:
        return [n for n in self.nodes if pred(n)]

    def reachable(self, starts: Iterable[int], avoid: Callable[[Node], bool] = lambda n: False,
                  labels: Optional[Callable[[Optional[str]], bool]] = None,
                  first_labels: Optional[Callable[[Optional[str]], bool]] = None,
                  enter_starts: bool = False) -> Set[int]:
        """Nodes reachable from the *successors* of starts (or starts themselves
        with enter_starts) without entering a node for which avoid() holds."""
        seen: Set[int] = set()
        todo: List[int] = []
        for s in starts:
            if enter_starts:
                if not avoid(self.nodes[s]):
                    todo.append(s)
            else:
                for t, lab in self.succ[s]:
                    if first_labels is not None and not first_labels(lab):
                        continue
                    if labels is not None and not labels(lab):
                        continue
                    if not avoid(self.nodes[t]):
                        todo.append(t)
        while todo:
            x = todo.pop()
            if x in seen:
                continue
            seen.add(x)
            for t, lab in self.succ[x]:
                if labels is not None and not labels(lab):
                    continue
                if t in seen or avoid(self.nodes[t]):
                    continue
                todo.append(t)
        return seen

    def live(self) -> Set[int]:
        return self.reachable([self.entry], enter_starts=True)

    def dominated(self, n: int, p: Callable[[Node], bool]) -> bool:
        """Every path entry -> n passes (strictly before n) a node satisfying p."""
        if n == self.entry:
            return False
        r = self.reachable([self.entry], avoid=lambda x: p(x) and x.id != n,
                           enter_starts=True)
        return n not in r

    def postdominated(self, n: int, q: Callable[[Node], bool], exits: Iterable[int],
                      first_labels: Optional[Callable[[Optional[str]], bool]] = None,
                      labels: Optional[Callable[[Optional[str]], bool]] = None) -> bool:
        """Every path n -> (one of exits) passes (strictly after n) a q-node."""
        r = self.reachable([n], avoid=q, first_labels=first_labels, labels=labels)
        return not any(e in r for e in exits)

    def witness_path(self, n: int, avoid: Callable[[Node], bool], targets: Iterable[int],
                     first_labels=None, labels=None) -> Optional[List[int]]:
        """A path from n to one of targets that avoids `avoid` nodes, or None."""
        targets = set(targets)
        prev: Dict[int, int] = {}
        todo: List[int] = []
        for t, lab in self.succ[n]:
            if first_labels is not None and not first_labels(lab):
                continue
            if labels is not None and not labels(lab):
                continue
            if not avoid(self.nodes[t]) and t not in prev:
                prev[t] = n
                todo.append(t)
        while todo:
            x = todo.pop(0)
            if x in targets:
                path = [x]
                while path[-1] != n:
                    path.append(prev[path[-1]])
                return list(reversed(path))
            for t, lab in self.succ[x]:
                if labels is not None and not labels(lab):
                    continue
                if t in prev or avoid(self.nodes[t]):
                    continue
                prev[t] = x
                todo.append(t)
        return None

    def loop_paths(self, loop: ast.AST, limit: int = 20000) -> List[Tuple[List[int], str]]:
        """All acyclic paths through one iteration of the loop body.

        Each path starts at the first body node and ends with how the iteration
        ends: 'back' (falls off the end), 'continue', 'break', 'return', 'exc'.
        Exceptional edges are followed only from Raise statements (explicit
        raises), not from may-raise calls, to keep the set finite and relevant.
        """
        heads = self.ids_of(loop)
        if not heads:
            raise AnalysisError("cfg", "loop not in CFG")
        h = heads[0]
        out: List[Tuple[List[int], str]] = []
        body_label = "body" if self.nodes[h].kind == "iter" else "true"

        def dfs(x: int, path: List[int], onpath: Set[int]) -> None:
            if len(out) > limit:
                raise AnalysisError("cfg", f"too many paths in loop at line {loop.lineno}")
            for t, lab in self.succ[x]:
                if lab == "exc":
                    a = self.nodes[x].ast
                    if not (self.nodes[x].kind == "stmt" and isinstance(a, ast.Raise)):
                        continue
                    out.append((path, "exc"))
                    continue
                if t == h:
                    out.append((path, "continue" if lab == "continue" else "back"))
                    continue
                if t == self.exit:
                    out.append((path, "return"))
                    continue
                if lab == "break" and self._loop_of(self.nodes[x].ast) is loop:
                    out.append((path, "break"))
                    continue
                if t in onpath:
                    tn = self.nodes[t]
                    if tn.kind in ("iter", "test") and isinstance(tn.ast, (ast.For, ast.While)):
                        # second arrival at an inner loop head: leave the loop
                        for t2, lab2 in self.succ[t]:
                            if lab2 in ("done", "false") and t2 not in onpath:
                                if t2 == h:
                                    out.append((path, "back"))
                                elif t2 == self.exit:
                                    out.append((path, "return"))
                                else:
                                    dfs(t2, path + [t2], onpath | {t2})
                    continue
                dfs(t, path + [t], onpath | {t})

        for t, lab in self.succ[h]:
            if lab == body_label:
                dfs(t, [t], {t})
        return out


    @staticmethod
    def _loop_of(node: Optional[ast.AST]) -> Optional[ast.AST]:
        p = getattr(node, "_parent", None)
        while p is not None:
            if isinstance(p, (ast.For, ast.While)):
                return p
            if isinstance(p, (ast.FunctionDef, ast.Lambda)):
                return None
            p = getattr(p, "_parent", None)
        return None


_cache: Dict[Tuple[int, int, bool], CFG] = {}


def cfg_of(func: Func, may_raise: Callable[[Node], bool] = default_may_raise,
           exceptional: bool = True) -> CFG:
    key = (id(func), id(may_raise), exceptional)
    g = _cache.get(key)
    if g is None or g.func is not func:
        g = CFG(func, may_raise, exceptional)
        _cache[key] = g
    return g
