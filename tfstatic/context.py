"""Analysis context shared by all rules: program, resolver, effects, CFG cache."""

from __future__ import annotations

from typing import Dict, Optional

from .cfg import CFG, default_may_raise
from .effects import Effects
from .model import Func, Program
from .resolve import Resolver


class Ctx:
    def __init__(self, root: Optional[str] = None, overlay: Optional[Dict[str, str]] = None):
        self.prog = Program(root, overlay)
        self.res = Resolver(self.prog)
        self.eff = Effects(self.prog, self.res)
        self._cfgs: Dict[tuple, CFG] = {}
        self.stats: Dict[str, int] = {}

    def cfg(self, f: Func, exceptional: bool = True, may_raise=default_may_raise) -> CFG:
        k = (f.qual, exceptional, id(may_raise))
        g = self._cfgs.get(k)
        if g is None:
            g = CFG(f, may_raise, exceptional)
            self._cfgs[k] = g
        return g

    def bump(self, name: str, n: int = 1) -> None:
        self.stats[name] = self.stats.get(name, 0) + n
