"""Command-line driver: ./check <property-id> [--tier quick|thorough] [--explain PATH]."""

from __future__ import annotations

import argparse
import importlib
import json
import os
import pkgutil
import sys
import time
import traceback
from typing import Dict, List, Optional

from . import report
from .context import Ctx
from .model import AnalysisError
from .report import Known, Ob, RULES, rules_for, run_rule, write_evidence, VERIF

PROPS = [f"C{i:02d}" for i in range(1, 19)]


def load_rules() -> None:
    from . import rules as rules_pkg
    for m in pkgutil.iter_modules(rules_pkg.__path__):
        importlib.import_module(f"{rules_pkg.__name__}.{m.name}")


def claims() -> Dict[str, dict]:
    with open(os.path.join(VERIF, "claims.json"), encoding="utf-8") as fh:
        return json.load(fh)


def evaluate(prop: str, ctx: Ctx, only: Optional[List[str]] = None, errors: Optional[list] = None) -> List[Ob]:
    """Run every rule serving `prop`.  With `errors` given, a rule that cannot be
    carried out (AnalysisError) is recorded there instead of aborting the run, so
    that violations found by the other rules are still reported."""
    obs: List[Ob] = []
    for r in rules_for(prop):
        if only and r.id not in only:
            continue
        try:
            obs.extend(run_rule(r, ctx, prop))
        except AnalysisError as e:
            if errors is None:
                raise
            errors.append(e)
    return obs


def classify(prop: str, obs: List[Ob], known: Known):
    viol, kn = [], []
    for o in obs:
        if o.ok:
            continue
        what = known.match(prop, o)
        if what is not None:
            kn.append((o, what))
        else:
            viol.append(o)
    rederived = {(o.rule, o.key) for o, _ in kn}
    stale = [f for f in known.listed(prop) if (f[1], f[2]) not in rederived]
    return viol, kn, stale


def main(argv: Optional[List[str]] = None) -> int:
    ap = argparse.ArgumentParser(prog="check")
    ap.add_argument("prop")
    ap.add_argument("--tier", default=os.environ.get("VERIF_TIER", "quick"), choices=["quick", "thorough"])
    ap.add_argument("--explain", default=None)
    ap.add_argument("--root", default=None)
    ap.add_argument("--no-evidence", action="store_true")
    ap.add_argument("--json", action="store_true")
    a = ap.parse_args(argv)
    prop = a.prop
    seed = int(os.environ.get("VERIF_SEED", "0") or 0)
    t0 = time.time()
    try:
        load_rules()
        if prop not in PROPS:
            print(f"ANALYSIS-ERROR unknown property {prop}")
            return 2
        if not rules_for(prop):
            print(f"ANALYSIS-ERROR no rule registered for {prop}")
            return 2
        ctx = Ctx(a.root)
        rule_errors: List[AnalysisError] = []
        obs = evaluate(prop, ctx, errors=rule_errors)
        if a.explain:
            # replay: re-derive the recorded violations on the current tree and print the witnesses
            try:
                with open(a.explain, encoding="utf-8") as fh:
                    rec = json.load(fh).get("violations", [])
            except (OSError, ValueError) as e:
                print(f"ANALYSIS-ERROR cannot read replay file {a.explain}: {e}")
                return 2
            cur = {(o.rule, o.key): o for o in obs if not o.ok}
            again = 0
            for v in rec:
                k = (v.get("rule"), v.get("construct"))
                o = cur.get(k)
                if o is not None:
                    again += 1
                    print(f"RE-DERIVED {o.rule} {o.loc} {o.key}\n    {o.msg}")
                    if o.detail:
                        print("    detail: " + json.dumps(o.detail)[:600])
                else:
                    print(f"NOT RE-DERIVED on the current tree: {k[0]} {k[1]}")
            if again:
                print(f"VIOLATION property={prop} replay={a.explain}")
            return 1 if again else 0
        # zero-count rules: positive fixtures must fire on every run
        known = Known()
        viol, kn, stale = classify(prop, obs, known)
        from . import fixtures
        try:
            fx = fixtures.run(prop, ctx, {(o.rule, o.key) for o in obs if not o.ok})
        except AnalysisError as e:
            if not viol and not rule_errors:
                raise
            fx = {"error": str(e)}  # a violation was found: report it, the fixture problem is secondary
        extra: dict = {
            "functions_analysed": len(ctx.prog.funcs),
            "modules_analysed": sorted(ctx.prog.modules),
            "source_digest": ctx.prog.digest(),
            "normalisation_applied": (list(getattr(ctx.prog, "inlined", []))[:40]
                                      + ([f"renamed {k} -> {v}" for k, v in getattr(ctx.prog, "renamed", {}).items()])),
            "rules_applied": sorted({o.rule for o in obs}),
            "rule_instance_counts": {r: sum(1 for o in obs if o.rule == r) for r in sorted({o.rule for o in obs})},
            "call_sites_resolved": ctx.res.resolved,
            "call_sites_unresolved": len(ctx.res.unresolved),
            "known_findings_rederived": len(kn),
            "known_findings_not_rederived": [f"{f[1]} {f[2]}" for f in stale],
            "positive_fixtures": fx,
            "rules_not_evaluable": [str(e) for e in rule_errors],
            "checker_cmd": f"./check {prop} --tier {a.tier}",
        }
        if a.tier == "thorough":
            from . import thorough
            extra.update(thorough.run(prop, ctx, seed))
            if extra.get("thorough_failures"):
                for line in extra["thorough_failures"]:
                    print(f"SELFTEST-FAILURE {line}")
        info = claims().get(prop, {})
        for o, what in kn:
            print(f"KNOWN-FINDING: property={prop} rule={o.rule} {o.key} -- {what} [{o.loc}]")
        for f in stale:
            print(f"NOTE: listed finding not re-derived on this tree (repaired?): {f[1]} {f[2]}")
        replay = os.path.join(VERIF, "evidence", f"{prop}.violation.json")
        if viol:
            with open(replay, "w", encoding="utf-8") as fh:
                json.dump({"property": prop, "violations": [o.as_dict() for o in viol]}, fh, indent=1)
            for o in viol:
                print(f"  {o.rule} {o.loc} {o.key}: {o.msg}")
            print(f"VIOLATION property={prop} replay={replay}")
        elif os.path.exists(replay):
            os.remove(replay)
        if not a.no_evidence:
            write_evidence(prop, a.tier, seed, obs, extra, time.time() - t0, len(viol),
                           info.get("explanation", "static conformance to the structural clauses of this property"),
                           info.get("assumptions", []))
        if a.json:
            print(json.dumps([o.as_dict() for o in obs], indent=1))
        n_ok = sum(1 for o in obs if o.ok)
        print(f"{prop}: {len(obs)} obligations over {len({o.rule for o in obs})} rules, {n_ok} discharged, "
              f"{len(kn)} known findings, {len(viol)} violations, fixtures={fx} ({time.time() - t0:.2f}s)")
        for e in rule_errors:
            print(f"ANALYSIS-ERROR property={prop} {e}")
        if viol:
            return 1
        if rule_errors:
            return 2
        if a.tier == "thorough" and extra.get("thorough_failures"):
            # The batteries were validated on the tree whose digest is recorded in
            # selftest_digest.txt.  On that tree a failing battery means the checker is
            # broken (exit 2).  On an edited tree a seeded variant may legitimately no
            # longer be "new" or applicable, so failures are reported but are not a verdict.
            try:
                with open(os.path.join(VERIF, "selftest_digest.txt"), encoding="utf-8") as fh:
                    validated = fh.read().split()
            except OSError:
                validated = []
            if ctx.prog.digest() in validated:
                print(f"ANALYSIS-ERROR checker self-test failed ({len(extra['thorough_failures'])} failures)")
                return 2
            print(f"NOTE: {len(extra['thorough_failures'])} self-test notes on an edited tree (not a verdict)")
        return 0
    except AnalysisError as e:
        print(f"ANALYSIS-ERROR property={prop} {e}")
        return 2
    except Exception:
        traceback.print_exc()
        print(f"ANALYSIS-ERROR property={prop} internal error in the checker")
        return 2


if __name__ == "__main__":
    code = main()
    sys.stdout.flush()
    os._exit(code)
