"""Primitive effects and transitive effect summaries.

Roles (PRIMARY / TEMP file objects, primary path, primary / temporary memory
lists) are discovered from *where the attribute's value comes from* in the
storage classes, not from attribute names.  Summaries are specialised on
literal arguments (`append(items, temporary=True)` selects one handle).
"""

from __future__ import annotations

import ast
from typing import Dict, FrozenSet, Iterable, List, Optional, Set, Tuple

from .model import (NOCONST, AnalysisError, Func, Program, attr_chain,
                    const_value, is_self_attr, norm, walk_local, parent)
from .resolve import Resolver

Effect = Tuple[str, Tuple[Tuple[str, int], ...]]  # (name, call chain)

TEMPFILE_CTORS = {"NamedTemporaryFile", "TemporaryFile", "mkstemp", "SpooledTemporaryFile",
                  "mktemp", "TemporaryDirectory", "mkdtemp"}
COPY_FUNCS = {"copy", "copy2", "copyfile", "copyfileobj"}
REPLACE_FUNCS = {"replace", "rename", "renames", "move"}
UNLINK_FUNCS = {"remove", "unlink"}
LIST_MUTATORS = {"append", "extend", "insert", "clear", "pop", "remove", "sort", "reverse",
                 "__setitem__", "__delitem__"}


class Roles:
    """Attribute roles of one storage class, discovered from data flow."""

    def __init__(self, prog: Program, cls: str):
        self.cls = cls
        self.primary_handles: Set[str] = set()
        self.temp_handles: Set[str] = set()
        self.primary_paths: Set[str] = set()
        self.primary_mem: Set[str] = set()
        self.temp_mem: Set[str] = set()
        self.path_params: Set[str] = set()
        ci = prog.cls(cls)
        init = ci.methods.get("__init__")
        # 1. path attribute: assigned from an __init__ parameter that is also
        #    passed to open()
        opened_params: Set[str] = set()
        if init is not None:
            for n in walk_local(init.node):
                if isinstance(n, ast.Call) and isinstance(n.func, ast.Name) and n.func.id == "open" and n.args:
                    a0 = n.args[0]
                    if isinstance(a0, ast.Name) and a0.id in init.params():
                        opened_params.add(a0.id)
                    if is_self_attr(a0):
                        self.primary_paths.add(a0.attr)
            for n in walk_local(init.node):
                if isinstance(n, ast.Assign) and isinstance(n.value, ast.Name) and n.value.id in opened_params:
                    for t in n.targets:
                        if is_self_attr(t):
                            self.primary_paths.add(t.attr)
            self.path_params = opened_params
        # 2. handles: self.X = open(<primary path>...) anywhere; NamedTemporaryFile -> temp
        for m in ci.methods.values():
            for n in walk_local(m.node):
                if isinstance(n, (ast.Assign, ast.AnnAssign)) and isinstance(n.value, ast.Call):
                    targets = n.targets if isinstance(n, ast.Assign) else [n.target]
                    c = n.value
                    fname = c.func.id if isinstance(c.func, ast.Name) else (
                        c.func.attr if isinstance(c.func, ast.Attribute) else "")
                    for t in targets:
                        if not is_self_attr(t):
                            continue
                        if fname == "open" and c.args:
                            a0 = c.args[0]
                            if (isinstance(a0, ast.Name) and a0.id in opened_params) or (
                                    is_self_attr(a0) and a0.attr in self.primary_paths):
                                self.primary_handles.add(t.attr)
                        if fname in TEMPFILE_CTORS:
                            self.temp_handles.add(t.attr)
        # 3. memory lists: the list attribute __iter__ iterates is primary; any
        #    other list attribute (re)initialised in a method whose name mentions
        #    temp, or assigned into the primary one, is temporary
        it = ci.methods.get("__iter__")
        if it is not None and not self.primary_handles:
            for n in walk_local(it.node):
                if isinstance(n, ast.For) and is_self_attr(n.iter):
                    self.primary_mem.add(n.iter.attr)
            for m in ci.methods.values():
                for n in walk_local(m.node):
                    if isinstance(n, ast.Assign) and is_self_attr(n.value):
                        for t in n.targets:
                            if is_self_attr(t) and t.attr in self.primary_mem \
                                    and n.value.attr not in self.primary_mem:
                                self.temp_mem.add(n.value.attr)

    def role_of_attr(self, attr: str) -> Optional[str]:
        if attr in self.primary_handles:
            return "PRIMARY"
        if attr in self.temp_handles:
            return "TEMP"
        if attr in self.primary_paths:
            return "PRIMARY_PATH"
        if attr in self.primary_mem:
            return "MEM"
        if attr in self.temp_mem:
            return "TMEM"
        return None


def eval_const_test(e: ast.AST, consts: Dict[str, object]) -> Optional[bool]:
    """Decide a branch condition from known-constant parameters, else None."""
    if isinstance(e, ast.Name) and e.id in consts:
        return bool(consts[e.id])
    if isinstance(e, ast.Constant):
        return bool(e.value)
    if isinstance(e, ast.UnaryOp) and isinstance(e.op, ast.Not):
        v = eval_const_test(e.operand, consts)
        return None if v is None else (not v)
    if isinstance(e, ast.BoolOp):
        vals = [eval_const_test(v, consts) for v in e.values]
        if isinstance(e.op, ast.And):
            if any(v is False for v in vals):
                return False
            if all(v is True for v in vals):
                return True
        else:
            if any(v is True for v in vals):
                return True
            if all(v is False for v in vals):
                return False
        return None
    if isinstance(e, ast.Compare) and len(e.ops) == 1 and isinstance(e.left, ast.Name) \
            and e.left.id in consts and isinstance(e.ops[0], (ast.Is, ast.IsNot)) \
            and isinstance(e.comparators[0], ast.Constant) and e.comparators[0].value is None:
        isnone = consts[e.left.id] is None
        return isnone if isinstance(e.ops[0], ast.Is) else (not isnone)
    return None


def live_nodes(body: List[ast.stmt], consts: Dict[str, object]) -> List[ast.AST]:
    """All AST nodes of a body that are live given constant parameters."""
    out: List[ast.AST] = []

    def expr(e: ast.AST) -> None:
        if isinstance(e, (ast.FunctionDef, ast.AsyncFunctionDef, ast.Lambda, ast.ClassDef)):
            return
        if isinstance(e, ast.IfExp):
            v = eval_const_test(e.test, consts)
            out.append(e)
            expr(e.test)
            if v is not False:
                expr(e.body)
            if v is not True:
                expr(e.orelse)
            return
        out.append(e)
        for c in ast.iter_child_nodes(e):
            expr(c)

    def stmts(ss: List[ast.stmt]) -> None:
        for s in ss:
            if isinstance(s, ast.If):
                v = eval_const_test(s.test, consts)
                out.append(s)
                expr(s.test)
                if v is not False:
                    stmts(s.body)
                if v is not True:
                    stmts(s.orelse)
                if v is True and _exits(s.body):
                    return
                if v is False and s.orelse and _exits(s.orelse):
                    return
            elif isinstance(s, (ast.For, ast.While)):
                out.append(s)
                if isinstance(s, ast.For):
                    expr(s.target)
                    expr(s.iter)
                else:
                    expr(s.test)
                stmts(s.body)
                stmts(s.orelse)
            elif isinstance(s, ast.Try):
                out.append(s)
                stmts(s.body)
                for h in s.handlers:
                    out.append(h)
                    if h.type is not None:
                        expr(h.type)
                    stmts(h.body)
                stmts(s.orelse)
                stmts(s.finalbody)
            elif isinstance(s, ast.With):
                out.append(s)
                for i in s.items:
                    expr(i.context_expr)
                    if i.optional_vars is not None:
                        expr(i.optional_vars)
                stmts(s.body)
            elif isinstance(s, (ast.FunctionDef, ast.AsyncFunctionDef, ast.ClassDef)):
                out.append(s)
            else:
                expr(s)
                if isinstance(s, (ast.Return, ast.Raise)):
                    return

    def _exits(b: List[ast.stmt]) -> bool:
        from .logic import always_exits
        return always_exits(b) and isinstance(b[-1], (ast.Return, ast.Raise))

    stmts(body)
    return out


class Effects:
    def __init__(self, prog: Program, res: Optional[Resolver] = None):
        self.p = prog
        self.r = res or Resolver(prog)
        self.roles: Dict[str, Roles] = {}
        for c in prog.subclasses("Storage", strict=True) if "Storage" in prog.classes else []:
            self.roles[c] = Roles(prog, c)
        self._memo: Dict[tuple, FrozenSet[Effect]] = {}
        self._stack: List[tuple] = []
        self.user_params_cache: Dict[str, Set[str]] = {}

    # ----------------------------------------------------- local role env
    def _helper_return_roles(self, f: Func, call: ast.Call, consts: Dict[str, object], depth: int = 0) -> Set[str]:
        """Roles of the value returned by a private helper method `self.m(...)`,
        specialised on the constant arguments of this call."""
        if depth > 2 or not (isinstance(call.func, ast.Attribute) and is_self_attr(call.func)):
            return set()
        cls = self.r.self_class(f)
        if not cls:
            return set()
        m = self.p.lookup_method(cls, call.func.attr)
        if m is None or m is f:
            return set()
        pos = m.params()[1:]
        cc: Dict[str, object] = {}
        for i, a in enumerate(call.args):
            if i < len(pos):
                v = const_value(a)
                if v is not NOCONST:
                    cc[pos[i]] = v
                elif isinstance(a, ast.Name) and a.id in consts:
                    cc[pos[i]] = consts[a.id]
        for k in call.keywords:
            if k.arg:
                v = const_value(k.value)
                if v is not NOCONST:
                    cc[k.arg] = v
                elif isinstance(k.value, ast.Name) and k.value.id in consts:
                    cc[k.arg] = consts[k.value.id]
        live = live_nodes(m.body, cc)
        env2 = self._role_env(m, live, cc, depth + 1)
        out: Set[str] = set()
        for n in live:
            if isinstance(n, ast.Return) and n.value is not None:
                out |= self.expr_roles(n.value, self.roles.get(cls), env2)
        return out

    def _storage_return_roles(self, f: Func, call: ast.Call) -> Set[str]:
        """Roles of what a storage method hands back to a caller outside the storage classes
        (does `read()` return the primary list itself?)."""
        out: Set[str] = set()
        for tg in self.r.resolve_call(call, f, quiet=True):
            if not isinstance(tg, Func) or tg.cls not in self.roles:
                continue
            seen = set()
            todo = [tg]
            while todo:
                m = todo.pop()
                if m.qual in seen:
                    continue
                seen.add(m.qual)
                live = live_nodes(m.body, {})
                env2 = self._role_env(m, live, {}, 1)
                rl = self.roles.get(m.cls) or self.roles.get(tg.cls)
                for n in live:
                    if isinstance(n, ast.Return) and n.value is not None:
                        out |= {r for r in self.expr_roles(n.value, rl, env2) if r in ("MEM", "TMEM", "PRIMARY", "TEMP")}
                        if isinstance(n.value, ast.Call):
                            for t2 in self.r.resolve_call(n.value, m, quiet=True):
                                if isinstance(t2, Func):
                                    todo.append(t2)
        return out

    def _role_env(self, f: Func, live: List[ast.AST], consts: Optional[Dict[str, object]] = None,
                  depth: int = 0) -> Dict[str, Set[str]]:
        """Roles of local names (flow-insensitive over live code)."""
        cls = self.r.self_class(f)
        roles = self.roles.get(cls) if cls else None
        env: Dict[str, Set[str]] = {}
        consts = consts or {}
        changed = True
        n_iter = 0
        while changed and n_iter < 5:
            changed = False
            n_iter += 1
            for n in live:
                if isinstance(n, ast.Assign) and len(n.targets) == 1 and isinstance(n.targets[0], ast.Name):
                    rs = self.expr_roles(n.value, roles, env)
                    if not rs and isinstance(n.value, ast.Call) and roles is not None:
                        rs = self._helper_return_roles(f, n.value, consts, depth)
                    if not rs and isinstance(n.value, ast.Call) and roles is None and depth == 0:
                        rs = self._storage_return_roles(f, n.value)
                    if rs:
                        cur = env.setdefault(n.targets[0].id, set())
                        if not rs <= cur:
                            cur |= rs
                            changed = True
                if isinstance(n, ast.With):
                    for i in n.items:
                        if isinstance(i.optional_vars, ast.Name):
                            rs = self.expr_roles(i.context_expr, roles, env)
                            if rs:
                                cur = env.setdefault(i.optional_vars.id, set())
                                if not rs <= cur:
                                    cur |= rs
                                    changed = True
        return env

    def expr_roles(self, e: ast.AST, roles: Optional[Roles], env: Dict[str, Set[str]]) -> Set[str]:
        if isinstance(e, ast.Name):
            return set(env.get(e.id, set()))
        if is_self_attr(e) and roles is not None:
            r = roles.role_of_attr(e.attr)
            return {r} if r else set()
        if isinstance(e, ast.Attribute) and e.attr == "name":
            base = self.expr_roles(e.value, roles, env)
            return {b + "_PATH" for b in base if b in ("TEMP", "PRIMARY")}
        if isinstance(e, ast.Call):
            fn = e.func
            nm = fn.attr if isinstance(fn, ast.Attribute) else (fn.id if isinstance(fn, ast.Name) else "")
            if nm in ("writer", "reader", "DictWriter", "DictReader") and e.args:
                base = self.expr_roles(e.args[0], roles, env)
                tag = "W:" if "riter" in nm else "R:"
                return {tag + b for b in base if b in ("TEMP", "PRIMARY")}
            if nm == "open" and e.args:
                base = self.expr_roles(e.args[0], roles, env)
                if "PRIMARY_PATH" in base:
                    return {"PRIMARY"}
                if "TEMP_PATH" in base:
                    return {"TEMP"}
            if nm in TEMPFILE_CTORS:
                return {"TEMP"}
            if nm in ("str", "Path", "fspath"):
                if e.args:
                    return self.expr_roles(e.args[0], roles, env)
            if nm == "fileno" and isinstance(fn, ast.Attribute):
                base = self.expr_roles(fn.value, roles, env)
                return {b + "_FD" for b in base if b in ("TEMP", "PRIMARY")}
        return set()

    # ------------------------------------------------------ primitive effects
    def primitive(self, call: ast.Call, f: Func, roles: Optional[Roles],
                  env: Dict[str, Set[str]]) -> List[str]:
        fn = call.func
        out: List[str] = []
        if isinstance(fn, ast.Attribute):
            recv_roles = self.expr_roles(fn.value, roles, env)
            a = fn.attr
            for R in sorted(recv_roles):
                if R in ("PRIMARY", "TEMP"):
                    if a == "seek":
                        if len(call.args) >= 2 and (norm(call.args[1]) in ("os.SEEK_END", "SEEK_END", "2", "io.SEEK_END")) \
                                and norm(call.args[0]) == "0":
                            out.append(f"{R}.seek_end")
                        elif len(call.args) == 1 and norm(call.args[0]) == "0":
                            out.append(f"{R}.seek0")
                        else:
                            out.append(f"{R}.seek")
                    elif a in ("read", "readline", "readlines", "__next__", "__iter__"):
                        out.append(f"{R}.read")
                    elif a in ("write", "writelines"):
                        out.append(f"{R}.write")
                    elif a in ("flush", "truncate", "close", "tell", "fileno"):
                        out.append(f"{R}.{a}")
                    else:
                        out.append(f"{R}.other:{a}")
                elif R.startswith("W:") and a in ("writerow", "writerows", "writeheader"):
                    out.append(f"{R[2:]}.write")
                elif R.startswith("R:"):
                    out.append(f"{R[2:]}.read")
                elif R in ("MEM", "TMEM") and a in LIST_MUTATORS:
                    out.append(f"{R}.{'append' if a in ('append', 'extend') else 'mutate'}")
            ch = attr_chain(fn)
            if ch and len(ch) == 2:
                mod = self.p.imports.get(f.module, {}).get(ch[0], "")
                if mod == "os" or mod == "shutil" or mod.startswith("os"):
                    args_roles = [self.expr_roles(x, roles, env) for x in call.args]
                    if a == "fsync" and call.args:
                        for R in sorted(args_roles[0]):
                            if R.endswith("_FD"):
                                out.append(f"{R[:-3]}.fsync")
                        if not args_roles[0]:
                            out.append("FS.fsync")
                    elif mod == "shutil" and a in COPY_FUNCS | {"move"} or mod == "os" and a in REPLACE_FUNCS:
                        kind = "copy" if a in COPY_FUNCS else "replace"
                        src = "|".join(sorted(args_roles[0])) if args_roles and args_roles[0] else "?"
                        dst = "|".join(sorted(args_roles[1])) if len(args_roles) > 1 and args_roles[1] else "?"
                        out.append(f"FS.{kind}({src}->{dst})")
                    elif mod == "os" and a in UNLINK_FUNCS:
                        tgt = "|".join(sorted(args_roles[0])) if args_roles and args_roles[0] else "?"
                        out.append(f"FS.unlink({tgt})")
                    elif mod == "os" and a in ("makedirs", "mkdir"):
                        out.append("FS.mkdir")
                    elif mod == "os" and a in ("truncate", "ftruncate", "write", "pwrite"):
                        out.append(f"FS.os_{a}")
                if mod == "csv" and a in ("reader", "DictReader") and call.args:
                    for R in sorted(self.expr_roles(call.args[0], roles, env)):
                        if R in ("PRIMARY", "TEMP"):
                            out.append(f"{R}.read")
            if a in ("unlink", "rename", "replace", "write_text", "write_bytes", "touch"):
                base = self.expr_roles(fn.value, roles, env)
                if any(b.endswith("PATH") for b in base):
                    out.append(f"FS.path_{a}({'|'.join(sorted(base))})")
        elif isinstance(fn, ast.Name):
            if fn.id == "open":
                mode = "r"
                if len(call.args) > 1:
                    mode = norm(call.args[1])
                for k in call.keywords:
                    if k.arg == "mode":
                        mode = norm(k.value)
                base = self.expr_roles(call.args[0], roles, env) if call.args else set()
                who = "PRIMARY" if "PRIMARY_PATH" in base else ("TEMP" if "TEMP_PATH" in base else "FS")
                if who == "FS" and call.args and isinstance(call.args[0], ast.Name) and roles is not None \
                        and call.args[0].id in roles.path_params:
                    who = "PRIMARY"
                out.append(f"{who}.open({mode})")
            elif fn.id in TEMPFILE_CTORS:
                out.append("TEMP.create")
            elif fn.id in ("next",) and call.args:
                for R in sorted(self.expr_roles(call.args[0], roles, env)):
                    if R in ("PRIMARY", "TEMP") or R.startswith("R:"):
                        out.append(f"{R.replace('R:', '')}.read")
            elif fn.id in ("sum", "list", "sorted", "tuple", "set", "any", "all", "max", "min", "enumerate"):
                pass
        return out

    # ---------------------------------------------------------- summaries
    def summary(self, f: Func, consts: Optional[Dict[str, object]] = None,
                method_chain: Tuple[Func, ...] = (), storage: Optional[str] = None,
                depth: int = 0) -> FrozenSet[Effect]:
        consts = consts or {}
        key = (f.qual, tuple(sorted((k, repr(v)) for k, v in consts.items())),
               tuple(m.qual for m in method_chain), storage)
        if key in self._memo:
            return self._memo[key]
        if key in self._stack or depth > 40:
            return frozenset()
        self._stack.append(key)
        try:
            res = self._summary(f, consts, method_chain, storage, depth)
        finally:
            self._stack.pop()
        self._memo[key] = res
        return res

    def _bind_consts(self, call: ast.Call, tg: Func, skip_self: bool) -> Dict[str, object]:
        if isinstance(tg.node, ast.Lambda):
            return {}
        a = tg.node.args
        pos = [x.arg for x in a.posonlyargs + a.args]
        if skip_self and pos and pos[0] in ("self", "cls"):
            pos = pos[1:]
        out: Dict[str, object] = {}
        passed = set()
        if any(isinstance(x, ast.Starred) for x in call.args) or any(k.arg is None for k in call.keywords):
            return {}
        for i, x in enumerate(call.args):
            if i < len(pos):
                passed.add(pos[i])
                v = const_value(x)
                if v is not NOCONST and (v is None or isinstance(v, bool) or v == []):
                    out[pos[i]] = v
        for k in call.keywords:
            passed.add(k.arg)
            v = const_value(k.value)
            if v is not NOCONST and (v is None or isinstance(v, bool) or v == []):
                out[k.arg] = v
        for nm, d in tg.defaults().items():
            if nm not in passed:
                v = const_value(d)
                if v is not NOCONST and (v is None or isinstance(v, bool)):
                    out[nm] = v
        return out

    def _storage_filter(self, targets: List[Func], storage: Optional[str]) -> List[Func]:
        if storage is None:
            return targets
        concrete = set(self.p.subclasses("Storage", strict=True))
        out = []
        for t in targets:
            if t.cls in concrete and t.cls != storage:
                continue
            out.append(t)
        return out

    def call_targets(self, n: ast.AST, f: Func, method_chain: Tuple[Func, ...],
                     storage: Optional[str]) -> List[Tuple[Func, Dict[str, object], Tuple[Func, ...]]]:
        """Package callees of a node (call, protocol use, property access)."""
        outs: List[Tuple[Func, Dict[str, object], Tuple[Func, ...]]] = []
        if isinstance(n, ast.Call):
            tgs = self.r.resolve_call(n, f, quiet=True)
            for tg in tgs:
                if isinstance(tg, Func):
                    cands = self._storage_filter([tg], storage)
                    for c in cands:
                        ch = self.r.decorated_chain(c)
                        if len(ch) > 1:
                            outs.append((ch[0], {}, tuple(ch[1:])))
                        else:
                            outs.append((c, self._bind_consts(n, c, isinstance(n.func, ast.Attribute) or c.name == "__init__"), ()))
                elif tg[0] == "param" and tg[1].endswith(":method") and method_chain:
                    nxt = method_chain[0]
                    outs.append((nxt, {}, tuple(method_chain[1:])))
            # protocol: len(x) / iter(x) / list(x)...
            if isinstance(n.func, ast.Name) and n.func.id in ("len", "iter", "list", "sorted", "sum",
                                                              "enumerate", "set", "tuple") and n.args:
                t = self.r.type_of(n.args[0], f)
                if t:
                    dn = "__len__" if n.func.id == "len" else "__iter__"
                    for m in self._storage_filter(self.r._methods(t, dn), storage):
                        outs.append((m, {}, ()))
        elif isinstance(n, (ast.For, ast.comprehension)):
            t = self.r.type_of(n.iter, f)
            it = n.iter
            if t is None and isinstance(it, ast.Call) and isinstance(it.func, ast.Name) \
                    and it.func.id in ("enumerate", "iter", "reversed", "sorted", "list") and it.args:
                t = self.r.type_of(it.args[0], f)
            if t:
                for m in self._storage_filter(self.r._methods(t, "__iter__"), storage):
                    outs.append((m, {}, ()))
        elif isinstance(n, ast.Attribute):
            store = isinstance(n.ctx, ast.Store)
            for m in self._storage_filter(self.r.property_target(n, f, store=store), storage):
                outs.append((m, {}, ()))
        elif isinstance(n, ast.BinOp) and isinstance(n.op, (ast.BitAnd, ast.BitOr)):
            t = self.r.type_of(n.left, f)
            if t:
                m = self.p.lookup_method(t, "__and__" if isinstance(n.op, ast.BitAnd) else "__or__")
                if m is not None:
                    outs.append((m, {}, ()))
        elif isinstance(n, (ast.If, ast.While, ast.IfExp, ast.Assert, ast.BoolOp)) or (
                isinstance(n, ast.UnaryOp) and isinstance(n.op, ast.Not)):
            # truth value of a package object: __bool__ if defined, else __len__
            if isinstance(n, ast.BoolOp):
                operands = list(n.values)
            elif isinstance(n, ast.UnaryOp):
                operands = [n.operand]
            else:
                operands = [n.test]
            for e in operands:
                if isinstance(e, (ast.BoolOp, ast.UnaryOp, ast.Compare, ast.Constant)):
                    continue
                t = self.r.type_of(e, f)
                if t is None and isinstance(e, ast.Call) and isinstance(e.func, ast.Attribute) and e.func.attr in ("get", "pop", "setdefault"):
                    # d.get(k): the value type of an annotated Dict[..., T] attribute
                    ann = None
                    base = e.func.value
                    if isinstance(base, ast.Attribute) and isinstance(base.value, ast.Name) and base.value.id == "self" and f.cls:
                        c_ = self.p.classes.get(f.cls)
                        ann = c_.annotations.get(base.attr) if c_ is not None else None
                    if ann is not None:
                        txt = ast.unparse(ann)
                        for cn in self.p.classes:
                            if txt.rstrip("]").endswith(cn) or f", {cn}]" in txt:
                                t = cn
                if t:
                    m = self.p.lookup_method(t, "__bool__") or self.p.lookup_method(t, "__len__")
                    if m is not None:
                        for mm in self._storage_filter([m], storage):
                            outs.append((mm, {}, ()))
        elif isinstance(n, ast.Compare) and len(n.ops) == 1 and isinstance(n.ops[0], (ast.Eq, ast.NotEq)):
            t = self.r.type_of(n.left, f)
            if t:
                m = self.p.lookup_method(t, "__eq__" if isinstance(n.ops[0], ast.Eq) else "__ne__") \
                    or self.p.lookup_method(t, "__eq__")
                if m is not None:
                    outs.append((m, {}, ()))
        return outs

    def user_callable_params(self, f: Func) -> Set[str]:
        """Parameters of f (or enclosing functions) that are called as functions."""
        return set()

    def _summary(self, f: Func, consts, method_chain, storage, depth) -> FrozenSet[Effect]:
        live = live_nodes(f.body, consts)
        cls = self.r.self_class(f)
        roles = self.roles.get(cls) if cls else None
        env = self._role_env(f, live, consts)
        out: Set[Effect] = set()
        here = lambda n: ((f.qual, getattr(n, "lineno", f.lineno)),)
        for n in live:
            if isinstance(n, ast.Call):
                for e in self.primitive(n, f, roles, env):
                    out.add((e, here(n)))
                tgs = self.r.resolve_call(n, f, quiet=True)
                for tg in tgs:
                    if isinstance(tg, tuple) and tg[0] == "param" and not (
                            tg[1].endswith(":method") and method_chain):
                        out.add((f"USER.call({tg[1].split(':')[1]})", here(n)))
                    if isinstance(tg, tuple) and tg[0] == "attrcall":
                        out.add((f"STORED.call({tg[1]})", here(n)))
            elif isinstance(n, (ast.Raise, ast.Assert)):
                out.add(("RAISE", here(n)))
            elif isinstance(n, ast.For):
                rs = self.expr_roles(n.iter, roles, env)
                for R in sorted(rs):
                    if R in ("PRIMARY", "TEMP"):
                        out.add((f"{R}.read", here(n)))
                    if R.startswith("R:"):
                        out.add((f"{R[2:]}.read", here(n)))
            elif isinstance(n, ast.comprehension):
                rs = self.expr_roles(n.iter, roles, env)
                for R in sorted(rs):
                    if R in ("PRIMARY", "TEMP"):
                        out.add((f"{R}.read", ((f.qual, getattr(n.iter, "lineno", f.lineno)),)))
            elif isinstance(n, (ast.Assign, ast.AugAssign, ast.AnnAssign, ast.Delete)) and roles is not None:
                targets = (n.targets if isinstance(n, (ast.Assign, ast.Delete)) else [n.target])
                for t in targets:
                    base = t
                    sub = False
                    while isinstance(base, ast.Subscript):
                        base = base.value
                        sub = True
                    if is_self_attr(base):
                        r = roles.role_of_attr(base.attr)
                        if r in ("MEM", "TMEM"):
                            if sub:
                                out.add((f"{r}.mutate", here(n)))
                            elif isinstance(n, ast.Delete):
                                pass  # `del self._memory` followed by rebinding
                            else:
                                val = getattr(n, "value", None)
                                empty = isinstance(val, (ast.List,)) and not val.elts
                                src = ""
                                if val is not None and is_self_attr(val):
                                    src = roles.role_of_attr(val.attr) or ""
                                kind = "rebind_empty" if empty else (f"rebind_from_{src}" if src else "rebind")
                                out.add((f"{r}.{kind}", here(n)))
                        elif r in ("PRIMARY", "TEMP"):
                            out.add((f"{r}.rebind", here(n)))
            # index maintenance / validity, seen from outside Index
            for (tg, c2, chain2) in self.call_targets(n, f, method_chain, storage):
                if tg.cls == "Index" and f.cls != "Index":
                    out.add((f"INDEX.{tg.name}", here(n)))
                sub = self.summary(tg, c2, chain2, storage, depth + 1)
                site = (f.qual, getattr(n, "lineno", f.lineno))
                for (e, ch) in sub:
                    if len(ch) < 12:
                        out.add((e, (site,) + ch))
                    else:
                        out.add((e, (site,) + ch[-11:]))
        # keep one (shortest) chain per effect name
        best: Dict[str, Effect] = {}
        for e, ch in sorted(out, key=lambda x: (x[0], len(x[1]), x[1])):
            if e not in best:
                best[e] = (e, ch)
        return frozenset(best.values())

    def api_summary(self, m: Func, storage: Optional[str] = None) -> FrozenSet[Effect]:
        ch = self.r.decorated_chain(m)
        if len(ch) > 1:
            return self.summary(ch[0], {}, tuple(ch[1:]), storage)
        return self.summary(m, {}, (), storage)


def names(effs: Iterable[Effect]) -> Set[str]:
    return {e for e, _ in effs}


def chain_str(ch) -> str:
    return " -> ".join(f"{q}:{l}" for q, l in ch)
