"""Positive fixtures, analysed on every run (quick tier included).

A rule whose expected number of violations on a healthy tree is zero would pass
vacuously forever if it silently stopped matching.  For each property a small
set of seeded variants of the *current* source (in-memory overlays, see
variants.py) must make the property's rules report a new violation; otherwise
the run is an ANALYSIS-ERROR.  If the source has been edited so that a fixture's
edit no longer applies, the fixture is reported as not applicable (it cannot
vouch for anything, but it is not a verdict about the tree either).
"""

from __future__ import annotations

from typing import Dict, List

FIXTURES: Dict[str, List[str]] = {
    "C01": ["tags_leaf_adds_when_false", "index_and_is_union"],
    "C02": ["remove_scan_loop_drops_keep"],
    "C03": ["update_snapshot_is_alias"],
    "C04": ["append_without_seek_end"],
    "C05": ["fields_written_before_tags"],
    "C06": ["reset_forgets_tags", "insert_handler_does_not_invalidate"],
    "C07": ["get_tag_keys_scan_unsorted"],
    "C08": ["insert_default_time_naive"],
    "C09": ["path_failure_is_true"],
    "C10": ["measurement_count_drops_filter"],
    "C11": ["temp_op_without_finally"],
    "C12": ["reset_writes_data"],
    "C13": ["fsync_error_swallowed"],
    "C14": ["validate_fields_accepts_bool"],
    "C15": ["insert_ungated"],
    "C16": ["insert_reads_storage", "insert_loops_over_storage"],
    "C17": ["map_keeps_hash"],
    "C18": ["find_lt_off_by_one"],
}


def run(prop: str, ctx=None, base=None) -> dict:
    from . import variants as vmod
    from .context import Ctx
    from .model import AnalysisError
    from .report import rules_for, run_rule

    names = FIXTURES.get(prop, [])
    if not names or ctx is None:
        return {}
    norm = vmod.normalise_sources(ctx.prog)
    byname = {v.name: v for v in vmod.V}
    out = {}
    n_fired = 0
    for nm in names:
        v = byname.get(nm)
        if v is None:
            raise AnalysisError(prop, f"fixture variant {nm} is not defined")
        try:
            ov = v.overlay(norm)
        except vmod.NotApplicable as e:
            out[nm] = "not-applicable on this tree"
            continue
        c2 = Ctx(ctx.prog.root, ov)
        viol = set()
        errs = []
        for r in rules_for(prop):
            try:
                for o in run_rule(r, c2, prop):
                    if not o.ok:
                        viol.add((o.rule, o.key))
            except AnalysisError as e:
                errs.append(e)
        new = viol - (base or set())
        if not new and errs:
            out[nm] = f"not-applicable: {str(errs[0])[:90]}"
            continue
        if new:
            out[nm] = "fires: " + sorted(new)[0][0]
            n_fired += 1
        elif base:
            # the tree under analysis already violates this property (the same construct may be
            # what the fixture breaks): the fixture cannot show anything new, and need not
            out[nm] = "not-applicable: the tree already violates the property"
        else:
            out[nm] = "SILENT"
            raise AnalysisError(prop, f"positive fixture {nm} did not fire: a rule of {prop} is vacuous")
    return out
