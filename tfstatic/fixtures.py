"""Positive fixtures for rules whose expected count on a healthy tree is zero.

Each fixture is a tiny overlay analysed on every run (quick tier included); the
rule must fire on it, otherwise the rule could pass vacuously forever.
"""

from __future__ import annotations

from typing import Callable, Dict, List

FIXTURES: Dict[str, List[Callable[[], bool]]] = {}


def fixture(prop: str):
    def deco(fn):
        FIXTURES.setdefault(prop, []).append(fn)
        return fn
    return deco


def run(prop: str) -> dict:
    from .model import AnalysisError
    out = {}
    for fn in FIXTURES.get(prop, []):
        ok = bool(fn())
        out[fn.__name__] = "fires" if ok else "SILENT"
        if not ok:
            raise AnalysisError(prop, f"positive fixture {fn.__name__} did not fire: rule is vacuous")
    return out
