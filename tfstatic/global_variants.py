"""Whole-package, programmatic, behaviour-preserving transformations used as silent variants
(thorough tier).  Each takes {relative path: source} and returns an overlay with every module
rewritten; nothing is written to disk."""

from __future__ import annotations

import ast
import builtins
from typing import Callable, Dict, List, Tuple


def _each(sources: Dict[str, str], fn: Callable[[ast.Module, str], ast.Module]) -> Dict[str, str]:
    out = {}
    for rel, src in sources.items():
        if not rel.endswith(".py") or rel.endswith("__init__.py") or rel.endswith("version.py"):
            continue
        tree = fn(ast.parse(src), rel)
        out[rel] = ast.unparse(ast.fix_missing_locations(tree)) + "\n"
    return out


def add_logging(sources):
    """`_log.debug('enter', name)` as the first statement of every function."""
    def fn(tree, rel):
        for n in ast.walk(tree):
            if isinstance(n, ast.FunctionDef):
                k = 1 if (isinstance(n.body[0], ast.Expr) and isinstance(n.body[0].value, ast.Constant)
                          and isinstance(n.body[0].value.value, str)) else 0
                if len(n.body) > k:
                    n.body.insert(k, ast.parse(f"_log.debug('enter %s', {n.name!r})").body[0])
        imps = [i for i, s in enumerate(tree.body) if isinstance(s, (ast.Import, ast.ImportFrom))]
        idx = max(imps) + 1 if imps else 0
        tree.body[idx:idx] = ast.parse("import logging as _logging\n_log = _logging.getLogger(__name__)").body
        return tree
    return _each(sources, fn)


def rename_locals(sources):
    """Every plain local variable of every function (not parameters, not names used by nested
    scopes, not globals/builtins) gets the suffix `_v`."""
    def fn(tree, rel):
        module_names = {n.id for n in ast.walk(tree) if isinstance(n, ast.Name)} | set(dir(builtins))
        for f in [n for n in ast.walk(tree) if isinstance(n, ast.FunctionDef)]:
            nested = [x for x in ast.walk(f) if isinstance(x, (ast.FunctionDef, ast.Lambda, ast.ClassDef,
                                                               ast.ListComp, ast.SetComp, ast.DictComp, ast.GeneratorExp))
                      and x is not f]
            inner_names = {y.id for x in nested for y in ast.walk(x) if isinstance(y, ast.Name)} | \
                          {a.arg for x in nested if isinstance(x, (ast.FunctionDef, ast.Lambda)) for a in x.args.args}
            a = f.args
            params = {x.arg for x in a.posonlyargs + a.args + a.kwonlyargs}
            if a.vararg:
                params.add(a.vararg.arg)
            if a.kwarg:
                params.add(a.kwarg.arg)
            declared = {nm for x in ast.walk(f) if isinstance(x, (ast.Global, ast.Nonlocal)) for nm in x.names}
            own = [x for x in _own_nodes(f)]
            stores = {x.id for x in own if isinstance(x, ast.Name) and isinstance(x.ctx, ast.Store)}
            ren = {nm for nm in stores if nm not in params and nm not in inner_names and nm not in declared
                   and not nm.startswith("__")}
            # a function nested in another shares names with its parent: skip names the parent binds
            for x in own:
                if isinstance(x, ast.Name) and x.id in ren:
                    x.id = x.id + "_v"
        return tree
    return _each(sources, fn)


def _own_nodes(f: ast.FunctionDef):
    todo = list(f.body)
    while todo:
        n = todo.pop()
        yield n
        if isinstance(n, (ast.FunctionDef, ast.Lambda, ast.ClassDef, ast.ListComp, ast.SetComp, ast.DictComp,
                          ast.GeneratorExp)):
            continue
        todo.extend(ast.iter_child_nodes(n))


def reorder_methods(sources):
    """Methods of every class in reverse order (properties keep their getter before the setter)."""
    def fn(tree, rel):
        for c in [n for n in tree.body if isinstance(n, ast.ClassDef)]:
            head = [s for s in c.body if not isinstance(s, ast.FunctionDef)]
            funcs = [s for s in c.body if isinstance(s, ast.FunctionDef)]
            groups: Dict[str, List[ast.FunctionDef]] = {}
            order: List[str] = []
            for fdef in funcs:
                if fdef.name not in groups:
                    order.append(fdef.name)
                groups.setdefault(fdef.name, []).append(fdef)
            c.body = head + [fdef for nm in reversed(order) for fdef in groups[nm]]
        return tree
    return _each(sources, fn)


def strip_docstrings_and_annotations(sources):
    """Docstrings of functions removed, local variable annotations dropped (x: T = v -> x = v)."""
    def fn(tree, rel):
        for n in ast.walk(tree):
            if isinstance(n, ast.FunctionDef) and len(n.body) > 1 and isinstance(n.body[0], ast.Expr) \
                    and isinstance(n.body[0].value, ast.Constant) and isinstance(n.body[0].value.value, str):
                n.body = n.body[1:]
        class T(ast.NodeTransformer):
            def visit_AnnAssign(self, node):
                if node.value is not None and isinstance(node.target, ast.Name):
                    return ast.copy_location(ast.Assign(targets=[node.target], value=node.value), node)
                return node
        for f in [n for n in ast.walk(tree) if isinstance(n, ast.FunctionDef)]:
            f.body = [T().visit(s) for s in f.body]
        return tree
    return _each(sources, fn)


GLOBAL: List[Tuple[str, Callable]] = [
    ("global/add_logging", add_logging),
    ("global/rename_locals", rename_locals),
    ("global/reorder_methods", reorder_methods),
    ("global/strip_docstrings_and_annotations", strip_docstrings_and_annotations),
]
