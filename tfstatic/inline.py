"""Normalisation pre-pass: undo "extract helper / extract constant" refactorings.

The rules anchor on the functions of the package as they exist on the validated
tree (`/verif/known_functions.txt`, a committed inventory of qualified names).
A private helper function, method or module-level constant that is NOT in that
inventory is a new artefact; where it is simple enough it is inlined back into
its callers before the program model is built, so that moving a block of
statements into a helper (or a literal into a constant) changes no verdict.

What is inlined (everything else is left alone, and analysed as written):
  * module-level names bound once to a literal (str/number/tuple of literals),
  * private functions/methods whose body is straight-line code with `return`
    only in tail position (of the body or of nested if/else),
    - at statement-level call sites:  x = h(..) / a, b = h(..) / return h(..) / h(..)
    - anywhere in an expression when the helper is a single `return <expr>`,
  * references to a single-expression private function used as a value
    (key=_helper) become the equivalent lambda.
"""

from __future__ import annotations

import ast
import copy
import os
from typing import Dict, List, Optional, Set, Tuple

HERE = os.path.dirname(os.path.dirname(os.path.abspath(__file__)))
INVENTORY = os.path.join(HERE, "known_functions.txt")


def load_inventory() -> Optional[Set[str]]:
    try:
        with open(INVENTORY, encoding="utf-8") as fh:
            return {l.strip() for l in fh if l.strip() and not l.startswith("#") and not l.startswith("attr ")
                    and not l.startswith("sig ") and not l.startswith("deco ")}
    except OSError:
        return None


def fingerprint(fn: ast.FunctionDef) -> str:
    """Rename-independent shape of a method: parameter count, the self attributes it touches
    (not the methods it calls), and its size class."""
    a = fn.args
    npar = len(a.posonlyargs) + len(a.args) + len(a.kwonlyargs)
    called = {id(c.func) for c in ast.walk(fn) if isinstance(c, ast.Call)}
    attrs = sorted({n.attr for n in ast.walk(fn) if isinstance(n, ast.Attribute) and isinstance(n.value, ast.Name)
                    and n.value.id == "self" and id(n) not in called})
    nst = sum(1 for n in ast.walk(fn) if isinstance(n, ast.stmt))
    return f"{npar}|{','.join(attrs)}|{nst // 4}"


def load_sig_inventory() -> Dict[str, str]:
    out: Dict[str, str] = {}
    try:
        with open(INVENTORY, encoding="utf-8") as fh:
            for l in fh:
                if l.startswith("sig "):
                    k, v = l[4:].strip().split("=", 1)
                    out[k] = v
    except OSError:
        pass
    return out


def load_attr_inventory() -> Dict[Tuple[str, str], str]:
    """(class, constructor parameter) -> the attribute the validated tree stores it in."""
    out: Dict[Tuple[str, str], str] = {}
    try:
        with open(INVENTORY, encoding="utf-8") as fh:
            for l in fh:
                if l.startswith("attr "):
                    lhs, attr = l[5:].strip().split("=")
                    c, p_ = lhs.split(".")
                    out[(c, p_)] = attr
    except OSError:
        pass
    return out


def _shallow(node: ast.AST):
    """ast.walk that does not enter nested function, lambda or class scopes (the root is entered)."""
    todo = [node]
    first = True
    while todo:
        n = todo.pop()
        yield n
        if not first and isinstance(n, (ast.FunctionDef, ast.AsyncFunctionDef, ast.Lambda, ast.ClassDef)):
            continue
        first = False
        todo.extend(ast.iter_child_nodes(n))


def _clone(n: ast.AST) -> ast.AST:
    return copy.deepcopy(n)


def _docless(body: List[ast.stmt]) -> List[ast.stmt]:
    return [s for s in body if not (isinstance(s, ast.Expr) and isinstance(s.value, ast.Constant)
                                    and isinstance(s.value.value, str))]


def _has_return_in_loop_or_try(stmts: List[ast.stmt]) -> bool:
    for s in stmts:
        if isinstance(s, (ast.FunctionDef, ast.AsyncFunctionDef, ast.ClassDef)):
            if any(isinstance(n, (ast.Nonlocal, ast.Global)) for n in ast.walk(s)):
                return True
            continue
        for n in _shallow(s):
            if isinstance(n, (ast.FunctionDef, ast.AsyncFunctionDef, ast.Lambda, ast.ClassDef)):
                continue
            if isinstance(n, (ast.For, ast.While, ast.Try, ast.With)):
                for x in _shallow(n):
                    if isinstance(x, ast.Return) and x is not n:
                        return True
            if isinstance(n, (ast.Yield, ast.YieldFrom, ast.Global, ast.Nonlocal)):
                return True
    return False


def _tail_convert(stmts: List[ast.stmt], mk) -> Optional[List[ast.stmt]]:
    """Rewrite `return E` (tail positions only) into mk(E) statements; None if not possible."""
    out: List[ast.stmt] = []
    for i, s in enumerate(stmts):
        if isinstance(s, ast.Return):
            out.extend(mk(s.value))
            return out  # anything after a return is unreachable
        if isinstance(s, (ast.FunctionDef, ast.AsyncFunctionDef, ast.ClassDef)):
            out.append(s)
            continue
        if isinstance(s, ast.If) and any(isinstance(x, ast.Return) for x in _shallow(s)):
            rest = stmts[i + 1:]
            body_exits = _always_returns(s.body)
            else_exits = _always_returns(s.orelse) if s.orelse else False
            b = _tail_convert(s.body + ([] if body_exits else rest), mk)
            e = _tail_convert((s.orelse or []) + ([] if else_exits else rest), mk)
            if b is None or e is None:
                return None
            new = ast.If(test=s.test, body=b or [ast.Pass()], orelse=e)
            out.append(new)
            return out
        if any(isinstance(x, ast.Return) for x in _shallow(s)):
            return None
        out.append(s)
    out.extend(mk(None))
    return out


def _always_returns(block: List[ast.stmt]) -> bool:
    if not block:
        return False
    last = block[-1]
    if isinstance(last, (ast.Return, ast.Raise)):
        return True
    if isinstance(last, ast.If):
        return _always_returns(last.body) and _always_returns(last.orelse)
    return False


def _as_expression(body: List[ast.stmt]) -> Optional[ast.AST]:
    """A body made only of if/return chains, as one (conditional) expression."""
    if not body:
        return None
    st = body[0]
    if isinstance(st, ast.Return) and st.value is not None:
        return st.value
    if isinstance(st, ast.If) and _always_returns(st.body):
        a = _as_expression(st.body)
        b = _as_expression(st.orelse + body[1:])
        if a is None or b is None:
            return None
        return ast.IfExp(test=st.test, body=a, orelse=b)
    return None


class _Renamer(ast.NodeTransformer):
    def __init__(self, mapping: Dict[str, ast.AST], local_prefix: str, locals_: Set[str],
                 direct: Optional[Dict[str, str]] = None):
        self.mapping = mapping
        self.prefix = local_prefix
        self.locals = locals_
        self.direct = direct or {}

    def visit_Name(self, n: ast.Name) -> ast.AST:
        if n.id in self.mapping and isinstance(n.ctx, ast.Load):
            return _clone(self.mapping[n.id])
        if n.id in self.direct:
            return ast.copy_location(ast.Name(id=self.direct[n.id], ctx=n.ctx), n)
        if n.id in self.locals:
            return ast.copy_location(ast.Name(id=self.prefix + n.id, ctx=n.ctx), n)
        return n

    def _inner(self, n, shadow: Set[str]):
        sub = _Renamer({k: v for k, v in self.mapping.items() if k not in shadow}, self.prefix,
                       {x for x in self.locals if x not in shadow},
                       {k: v for k, v in self.direct.items() if k not in shadow})
        return sub

    def visit_FunctionDef(self, n):
        a = n.args
        shadow = {x.arg for x in a.posonlyargs + a.args + a.kwonlyargs}
        if a.vararg:
            shadow.add(a.vararg.arg)
        if a.kwarg:
            shadow.add(a.kwarg.arg)
        for x in ast.walk(n):
            if isinstance(x, ast.Name) and isinstance(x.ctx, ast.Store):
                shadow.add(x.id)
        sub = self._inner(n, shadow)
        n.body = [sub.visit(s) for s in n.body]
        if n.name in self.direct:
            n.name = self.direct[n.name]
        elif n.name in self.locals:
            n.name = self.prefix + n.name
        return n

    def visit_Lambda(self, n):
        a = n.args
        shadow = {x.arg for x in a.posonlyargs + a.args + a.kwonlyargs}
        sub = self._inner(n, shadow)
        n.body = sub.visit(n.body)
        return n


def _simple_arg(a: ast.AST) -> bool:
    if isinstance(a, (ast.Name, ast.Constant)):
        return True
    if isinstance(a, ast.Attribute):
        return _simple_arg(a.value)
    if isinstance(a, ast.Subscript):
        return _simple_arg(a.value) and _simple_arg(a.slice)
    if isinstance(a, (ast.Tuple, ast.List)):
        return all(_simple_arg(x) for x in a.elts)
    return False


class Helper:
    def __init__(self, node: ast.FunctionDef, cls: Optional[str], static: bool, closure: bool = False):
        self.node = node
        self.cls = cls
        self.static = static
        self.body = _docless(node.body)
        self.nonlocals: Set[str] = set()
        if closure:
            self.nonlocals = {nm for st in self.body if isinstance(st, ast.Nonlocal) for nm in st.names}
            self.body = [st for st in self.body if not isinstance(st, ast.Nonlocal)]
        a = node.args
        self.params = [x.arg for x in a.posonlyargs + a.args]
        self.defaults = {}
        pos = a.posonlyargs + a.args
        for p_, d in zip(pos[len(pos) - len(a.defaults):], a.defaults):
            self.defaults[p_.arg] = d
        self.ok = not (a.vararg or a.kwarg or a.kwonlyargs) and not _has_return_in_loop_or_try(self.body) \
            and not any(isinstance(d, (ast.Name,)) and d.id in ("property",) for d in node.decorator_list)
        self.expr = _as_expression(self.body)
        self.single_expr = self.expr is not None
        self.recursive = any(isinstance(x, ast.Call) and (
            (isinstance(x.func, ast.Name) and x.func.id == node.name)
            or (isinstance(x.func, ast.Attribute) and x.func.attr == node.name)) for x in ast.walk(node))

    def bind(self, call: ast.Call, is_method_call: bool) -> Optional[Dict[str, ast.AST]]:
        params = list(self.params)
        if self.cls is not None and not self.static and params and params[0] in ("self", "cls"):
            if not is_method_call:
                return None
            recv = call.func.value  # type: ignore[attr-defined]
            m: Dict[str, ast.AST] = {params[0]: recv}
            params = params[1:]
        else:
            m = {}
        if any(isinstance(a, ast.Starred) for a in call.args) or any(k.arg is None for k in call.keywords):
            return None
        if len(call.args) > len(params):
            return None
        for p_, a in zip(params, call.args):
            m[p_] = a
        for k in call.keywords:
            if k.arg not in params or k.arg in m:
                return None
            m[k.arg] = k.value
        for p_ in params:
            if p_ not in m:
                if p_ in self.defaults:
                    m[p_] = self.defaults[p_]
                else:
                    return None
        return m


def normalise(modules: Dict[str, Tuple[str, str, ast.Module]]) -> List[str]:
    """In-place normalisation of the parsed modules; returns a log of what was inlined."""
    inv = load_inventory()
    log: List[str] = []
    if inv is None:
        return log
    _structural_normal_forms(modules, inv, log)
    for mod, (rel, src, tree) in modules.items():
        _Idioms(log, mod).visit(tree)
        _fold_constants(tree)
    helpers: Dict[Tuple[Optional[str], str], Helper] = {}
    consts: Dict[str, Dict[str, ast.AST]] = {}
    for mod, (rel, src, tree) in modules.items():
        consts[mod] = {}
        for st in tree.body:
            if isinstance(st, (ast.FunctionDef,)) and st.name.startswith("_") and not st.name.startswith("__") \
                    and st.name not in inv and not st.decorator_list:
                helpers[(None, st.name)] = Helper(st, None, True)
            elif isinstance(st, ast.ClassDef):
                for m in st.body:
                    if isinstance(m, ast.FunctionDef) and m.name.startswith("_") and not m.name.startswith("__") \
                            and f"{st.name}.{m.name}" not in inv:
                        static = any(isinstance(d, ast.Name) and d.id == "staticmethod" for d in m.decorator_list)
                        if any(not (isinstance(d, ast.Name) and d.id == "staticmethod") for d in m.decorator_list):
                            continue  # any other decorator may change what a call means (caching, gating, ...)
                        helpers[(st.name, m.name)] = Helper(m, st.name, static)
                for m in st.body:
                    if isinstance(m, ast.Assign) and len(m.targets) == 1 and isinstance(m.targets[0], ast.Name) \
                            and m.targets[0].id.startswith("_") and f"{st.name}.{m.targets[0].id}" not in inv \
                            and m.targets[0].id.isupper():
                        try:
                            ast.literal_eval(m.value)
                            consts[mod][f"{st.name}.{m.targets[0].id}"] = m.value
                        except Exception:
                            pass
            elif isinstance(st, ast.Assign) and len(st.targets) == 1 and isinstance(st.targets[0], ast.Name) \
                    and st.targets[0].id.startswith("_") and st.targets[0].id not in inv:
                nm = st.targets[0].id
                try:
                    ast.literal_eval(st.value)
                    consts[mod][nm] = st.value
                except Exception:
                    # tuple of names (e.g. classes) is a constant too if every element is a module-level name
                    if isinstance(st.value, ast.Tuple) and all(isinstance(e, ast.Name) for e in st.value.elts):
                        consts[mod][nm] = st.value
    helpers = {k: h for k, h in helpers.items() if h.ok and not h.recursive}
    for mod, (rel, src, tree) in modules.items():
        _local_normal_forms(tree, log, mod, inv)
    if not helpers and not any(consts.values()):
        return sorted(set(log))
    counter = [0]

    for mod, (rel, src, tree) in modules.items():
        # 1. constants
        cmap = consts.get(mod, {})
        if cmap:
            # only names assigned exactly once at module level
            assigned: Dict[str, int] = {}
            for n in ast.walk(tree):
                if isinstance(n, ast.Name) and isinstance(n.ctx, ast.Store):
                    assigned[n.id] = assigned.get(n.id, 0) + 1
            plain = {k: v for k, v in cmap.items() if "." not in k and assigned.get(k, 0) == 1}
            qual = {k.split(".", 1)[1]: v for k, v in cmap.items() if "." in k}

            class C(ast.NodeTransformer):
                def visit_Name(self, n):
                    if isinstance(n.ctx, ast.Load) and n.id in plain:
                        log.append(f"{mod}: constant {n.id} inlined")
                        return ast.copy_location(_clone(plain[n.id]), n)
                    return n

                def visit_Attribute(self, n):
                    self.generic_visit(n)
                    if isinstance(n.ctx, ast.Load) and n.attr in qual and isinstance(n.value, ast.Name) \
                            and n.value.id in ("self", "cls"):
                        log.append(f"{mod}: class constant {n.attr} inlined")
                        return ast.copy_location(_clone(qual[n.attr]), n)
                    return n
            C().visit(tree)
        # 2. helpers: several passes so that helpers calling helpers unfold
        for _ in range(4):
            changed = _inline_pass(tree, helpers, counter, log, mod)
            if not changed:
                break
    # 3. drop helper definitions that are no longer referenced anywhere
    used: Set[str] = set()
    for mod, (rel, src, tree) in modules.items():
        for n in ast.walk(tree):
            if isinstance(n, ast.Attribute):
                used.add(n.attr)
            elif isinstance(n, ast.Name) and isinstance(n.ctx, ast.Load):
                used.add(n.id)
    for mod, (rel, src, tree) in modules.items():
        def prune(body):
            keep = []
            for st in body:
                if isinstance(st, ast.FunctionDef) and any(h.node is st for h in helpers.values()) and st.name not in used:
                    continue
                if isinstance(st, ast.ClassDef):
                    st.body = prune(st.body) or [ast.Pass()]
                keep.append(st)
            return keep
        tree.body = prune(tree.body)
        _fold_constants(tree)
        ast.fix_missing_locations(tree)
        # the code that was inlined gets the same local normal forms as everything else
        _local_normal_forms(tree, log, mod, inv)
    return sorted(set(log))


class _Fold(ast.NodeTransformer):
    """Constant conditions left behind by substituting literal arguments for parameters."""

    def visit_BoolOp(self, n):
        self.generic_visit(n)
        is_and = isinstance(n.op, ast.And)
        vals = []
        for v in n.values:
            if isinstance(v, ast.Constant) and isinstance(v.value, bool):
                if v.value is is_and:
                    continue          # True in `and` / False in `or`: neutral
                if not vals:
                    return v          # leading absorbing constant decides the whole expression
                vals.append(v)        # later one: keep (earlier operands still evaluate)
                break
            vals.append(v)
        if not vals:
            return ast.copy_location(ast.Constant(value=is_and), n)
        if len(vals) == 1:
            return vals[0]
        n.values = vals
        return n

    def visit_UnaryOp(self, n):
        self.generic_visit(n)
        if isinstance(n.op, ast.Not) and isinstance(n.operand, ast.Constant) and isinstance(n.operand.value, bool):
            return ast.copy_location(ast.Constant(value=not n.operand.value), n)
        return n

    def visit_IfExp(self, n):
        self.generic_visit(n)
        if isinstance(n.test, ast.Constant) and isinstance(n.test.value, bool):
            return n.body if n.test.value else n.orelse
        return n


def _fold_constants(tree: ast.AST) -> None:
    _Fold().visit(tree)
    for blk in _blocks(tree):
        i = 0
        while i < len(blk):
            st = blk[i]
            if isinstance(st, ast.If) and isinstance(st.test, ast.Constant) and isinstance(st.test.value, bool):
                repl = st.body if st.test.value else st.orelse
                blk[i:i + 1] = repl
                continue
            i += 1
        if not blk:
            blk.append(ast.Pass())


def _find_helper(call: ast.Call, helpers, cls_ctx: Optional[str]):
    f = call.func
    if isinstance(f, ast.Name):
        h = helpers.get((None, f.id))
        return (h, False) if h else (None, False)
    if isinstance(f, ast.Attribute) and isinstance(f.value, ast.Name) and f.value.id in ("self", "cls"):
        for (c, n), h in helpers.items():
            if n == f.attr and c is not None:
                return h, True
    if isinstance(f, ast.Attribute) and isinstance(f.value, ast.Name):
        h = helpers.get((f.value.id, f.attr))
        if h is not None and h.static:
            return h, True
    return None, False


def _return_renames(h: Helper, target: Optional[ast.AST]) -> Dict[str, str]:
    """When every `return` hands back local names and the call site binds them to names, the
    helper's locals simply take the caller's names (x = h() with `return acc` -> acc is x)."""
    if target is None:
        return {}
    rets = [x for s in h.body if not isinstance(s, (ast.FunctionDef, ast.AsyncFunctionDef, ast.ClassDef))
            for x in _shallow(s) if isinstance(x, ast.Return)]
    if not rets:
        return {}
    out: Dict[str, str] = {}
    params = set(h.params)
    for r in rets:
        if isinstance(target, ast.Name) and isinstance(r.value, ast.Name):
            pairs = [(r.value.id, target.id)]
        elif isinstance(target, ast.Tuple) and isinstance(r.value, ast.Tuple) and len(target.elts) == len(r.value.elts) \
                and all(isinstance(e, ast.Name) for e in target.elts):
            pairs = [(a.id, b.id) for a, b in zip(r.value.elts, target.elts) if isinstance(a, ast.Name)]
        else:
            return {}
        for a, b in pairs:
            if a in params or out.get(a, b) != b:
                return {}
            out[a] = b
    if len(set(out.values())) != len(out):
        return {}
    return out


def _instantiate(h: Helper, binding: Dict[str, ast.AST], counter, mk, keep_returns: bool,
                 target: Optional[ast.AST] = None) -> Optional[List[ast.stmt]]:
    counter[0] += 1
    prefix = f"_inl{counter[0]}_"
    body = [_clone(s) for s in h.body]
    params = set(h.params)
    direct = _return_renames(h, target)
    locals_: Set[str] = set()
    for s in body:
        for n in ast.walk(s):
            if isinstance(n, ast.Name) and isinstance(n.ctx, ast.Store) and n.id not in params \
                    and n.id not in h.nonlocals:
                locals_.add(n.id)
    inner_bound: Set[str] = set()
    for s in body:
        for n in ast.walk(s):
            if isinstance(n, ast.FunctionDef):
                locals_.add(n.name)
                inner_bound |= {x.arg for x in n.args.posonlyargs + n.args.args + n.args.kwonlyargs}
                inner_bound |= {x.id for x in ast.walk(n) if isinstance(x, ast.Name) and isinstance(x.ctx, ast.Store)}
            elif isinstance(n, ast.Lambda):
                inner_bound |= {x.arg for x in n.args.posonlyargs + n.args.args + n.args.kwonlyargs}
    for a in binding.values():
        if any(isinstance(x, ast.Name) and x.id in inner_bound for x in ast.walk(a)):
            return None  # an argument would be captured by a nested scope
    pre: List[ast.stmt] = []
    mapping: Dict[str, ast.AST] = {}
    stored_params = {n.id for s in body for n in ast.walk(s) if isinstance(n, ast.Name) and isinstance(n.ctx, ast.Store)
                     and n.id in params}
    for p_, a in binding.items():
        uses = sum(1 for s in body for n in ast.walk(s) if isinstance(n, ast.Name) and n.id == p_)
        if _simple_arg(a) and p_ not in stored_params:
            mapping[p_] = a
        elif uses <= 1 and p_ not in stored_params:
            mapping[p_] = a
        else:
            pre.append(ast.Assign(targets=[ast.Name(id=prefix + p_, ctx=ast.Store())], value=_clone(a), lineno=0, col_offset=0))
            locals_.add(p_)
    rn = _Renamer(mapping, prefix, locals_, direct)
    body = [rn.visit(s) for s in body]
    if keep_returns:
        if not _always_returns(body):
            body = body + [ast.Return(value=None)]
        return pre + body
    conv = _tail_convert(body, mk)
    if conv is None:
        return None
    return pre + conv


def _inline_pass(tree: ast.Module, helpers, counter, log, mod) -> bool:
    changed = False

    def process_block(block: List[ast.stmt], cls_ctx: Optional[str], in_helper: Optional[Helper]) -> List[ast.stmt]:
        nonlocal changed
        out: List[ast.stmt] = []
        for st in block:
            # recurse first
            for fld in ("body", "orelse", "finalbody"):
                if hasattr(st, fld) and isinstance(getattr(st, fld), list) and getattr(st, fld) \
                        and isinstance(getattr(st, fld)[0], ast.stmt):
                    c2 = st.name if isinstance(st, ast.ClassDef) else cls_ctx
                    setattr(st, fld, process_block(getattr(st, fld), c2, in_helper))
            if isinstance(st, ast.Try):
                for h_ in st.handlers:
                    h_.body = process_block(h_.body, cls_ctx, in_helper)
            call = None
            kind = None
            # `if helper(...):` / `elif helper(...):` with a multi-statement helper: its verdict is taken
            # into a local first (an elif becomes `else: v = helper(..); if v:`)
            if isinstance(st, ast.If):
                tcall = st.test.operand if isinstance(st.test, ast.UnaryOp) and isinstance(st.test.op, ast.Not) else st.test
                if isinstance(tcall, ast.Call):
                    h0, _m0 = _find_helper(tcall, helpers, cls_ctx)
                    if h0 is not None and not h0.single_expr and h0.node is not getattr(in_helper, "node", None):
                        counter[0] += 1
                        tmp = f"_inl{counter[0]}_verdict"
                        pre_ = ast.copy_location(ast.Assign(targets=[ast.Name(id=tmp, ctx=ast.Store())], value=tcall), st)
                        nm_ = ast.copy_location(ast.Name(id=tmp, ctx=ast.Load()), tcall)
                        if tcall is st.test:
                            st.test = nm_
                        else:
                            st.test.operand = nm_
                        ast.fix_missing_locations(pre_)
                        out.extend(process_block([pre_], cls_ctx, in_helper))
                        out.append(st)
                        changed = True
                        continue
            # hoist `recv.m(helper(...))` / `x = f(helper(...))`: the helper call becomes its own
            # assignment when everything evaluated before it is a plain read
            outer = st.value if isinstance(st, (ast.Expr, ast.Assign)) and isinstance(getattr(st, "value", None), ast.Call) else None
            if outer is not None and _find_helper(outer, helpers, cls_ctx)[0] is None and len(outer.args) >= 1 \
                    and isinstance(outer.args[0], ast.Call) and _alias_read(outer.func) and not outer.keywords:
                h0, _m0 = _find_helper(outer.args[0], helpers, cls_ctx)
                if h0 is not None and not h0.single_expr and h0.node is not getattr(in_helper, "node", None) \
                        and all(_alias_read(a) for a in outer.args[1:]):
                    counter[0] += 1
                    tmp = f"_inl{counter[0]}_ret"
                    pre_ = ast.copy_location(ast.Assign(targets=[ast.Name(id=tmp, ctx=ast.Store())], value=outer.args[0]), st)
                    outer.args[0] = ast.copy_location(ast.Name(id=tmp, ctx=ast.Load()), outer.args[0])
                    ast.fix_missing_locations(pre_)
                    out.extend(process_block([pre_], cls_ctx, in_helper))
                    out.append(st)
                    changed = True
                    continue
            if isinstance(st, ast.Assign) and isinstance(st.value, ast.Call) and len(st.targets) == 1:
                call, kind = st.value, "assign"
            elif isinstance(st, ast.AnnAssign) and isinstance(st.value, ast.Call):
                call, kind = st.value, "annassign"
            elif isinstance(st, ast.Return) and isinstance(st.value, ast.Call):
                call, kind = st.value, "return"
            elif isinstance(st, ast.Expr) and isinstance(st.value, ast.Call):
                call, kind = st.value, "expr"
            done = False
            if call is not None:
                h, is_m = _find_helper(call, helpers, cls_ctx)
                if h is not None and h.node is not getattr(in_helper, "node", None):
                    b = h.bind(call, is_m)
                    if b is not None:
                        if kind == "return":
                            new = _instantiate(h, b, counter, None, True)
                        elif kind == "expr":
                            new = _instantiate(h, b, counter, lambda v: ([ast.Expr(value=v)] if isinstance(v, ast.Call) else []), False)
                        else:
                            tgt = st.targets[0] if kind == "assign" else st.target

                            def mk(v, tgt=tgt):
                                if v is not None and ast.dump(v).replace("Load()", "Store()") == ast.dump(tgt).replace("Load()", "Store()"):
                                    return []
                                if isinstance(v, ast.Tuple) and isinstance(tgt, ast.Tuple) and len(v.elts) == len(tgt.elts):
                                    res = []
                                    for a_, b_ in zip(v.elts, tgt.elts):
                                        res.extend(mk(a_, b_))
                                    return res
                                return [ast.Assign(targets=[_clone(tgt)], value=v if v is not None else ast.Constant(value=None),
                                                   lineno=0, col_offset=0)]
                            new = _instantiate(h, b, counter, mk, False, tgt)
                        if new is not None:
                            for n_ in new:
                                ast.copy_location(n_, st)
                                for x in ast.walk(n_):
                                    if not hasattr(x, "lineno") or getattr(x, "lineno", 0) == 0:
                                        ast.copy_location(x, st)
                            out.extend(new)
                            log.append(f"{mod}: helper {h.node.name} inlined")
                            changed = True
                            done = True
            if not done:
                out.append(st)
        return out

    tree.body = process_block(tree.body, None, None)

    # expression-level: single-expression helpers, and function references used as values
    class E(ast.NodeTransformer):
        def __init__(self):
            self.cls = None

        def visit_ClassDef(self, n):
            old = self.cls
            self.cls = n.name
            self.generic_visit(n)
            self.cls = old
            return n

        def visit_Call(self, n):
            nonlocal changed
            self.generic_visit(n)
            h, is_m = _find_helper(n, helpers, self.cls)
            if h is not None and h.single_expr:
                b = h.bind(n, is_m)
                if b is not None and all(_simple_arg(a) or sum(
                        1 for x in ast.walk(h.expr) if isinstance(x, ast.Name) and x.id == p_) <= 1 for p_, a in b.items()):
                    expr = _Renamer(b, "", set()).visit(_clone(h.expr))
                    log.append(f"{mod}: expression helper {h.node.name} inlined")
                    changed = True
                    return ast.copy_location(expr, n)
            # function used as a value: key=_helper
            for k in n.keywords:
                if isinstance(k.value, ast.Name):
                    hh = helpers.get((None, k.value.id))
                    if hh is not None and hh.single_expr and not hh.defaults:
                        lam = ast.Lambda(args=_clone(hh.node.args), body=_clone(hh.expr))
                        for a_ in lam.args.args:
                            a_.annotation = None
                        k.value = ast.copy_location(lam, k.value)
                        log.append(f"{mod}: function reference {hh.node.name} replaced by a lambda")
                        changed = True
            return n
    E().visit(tree)
    ast.fix_missing_locations(tree)
    return changed


# ------------------------------------------------------------- local normal forms
def _pure_condition(e: ast.AST, frozen: Set[str]) -> bool:
    """Comparison/boolean combination over attribute chains of never-assigned non-self parameters,
    module attributes (operator.and_) and constants: its value cannot change during the call."""
    if isinstance(e, ast.BoolOp):
        return all(_pure_condition(v, frozen) for v in e.values)
    if isinstance(e, ast.UnaryOp) and isinstance(e.op, ast.Not):
        return _pure_condition(e.operand, frozen)
    if isinstance(e, ast.Compare):
        return all(_pure_operand(x, frozen) for x in [e.left] + e.comparators)
    return False


def _pure_operand(e: ast.AST, frozen: Set[str]) -> bool:
    if isinstance(e, ast.Constant):
        return True
    if isinstance(e, (ast.Tuple, ast.List, ast.Set)):
        return all(_pure_operand(x, frozen) for x in e.elts)
    if isinstance(e, ast.Attribute):
        root = e
        while isinstance(root, ast.Attribute):
            root = root.value
        return isinstance(root, ast.Name) and (root.id in frozen or root.id == "operator")
    if isinstance(e, ast.Name):
        return e.id in frozen
    return False


class _Getters(ast.NodeTransformer):
    """operator.itemgetter(k) / operator.attrgetter('a') with one constant argument are the lambdas
    `lambda x: x[k]` / `lambda x: x.a`."""

    def __init__(self, log, mod):
        self.log, self.mod = log, mod

    def visit_Call(self, n):
        self.generic_visit(n)
        f = n.func
        name = f.attr if isinstance(f, ast.Attribute) and isinstance(f.value, ast.Name) and f.value.id == "operator" else \
            (f.id if isinstance(f, ast.Name) else None)
        if name in ("itemgetter", "attrgetter") and len(n.args) == 1 and not n.keywords \
                and isinstance(n.args[0], ast.Constant):
            x = ast.Name(id="x", ctx=ast.Load())
            if name == "itemgetter":
                body = ast.Subscript(value=x, slice=n.args[0], ctx=ast.Load())
            elif isinstance(n.args[0].value, str) and n.args[0].value.isidentifier():
                body = ast.Attribute(value=x, attr=n.args[0].value, ctx=ast.Load())
            else:
                return n
            lam = ast.Lambda(args=ast.arguments(posonlyargs=[], args=[ast.arg(arg="x")], kwonlyargs=[], kw_defaults=[],
                                                defaults=[]), body=body)
            self.log.append(f"{self.mod}: operator.{name} replaced by the equivalent lambda")
            return ast.fix_missing_locations(ast.copy_location(lam, n))
        return n


CANON_LOCALS = {"_generate_updater": "perform_update"}
LOG_LEVELS = ("debug", "info", "warning", "warn", "error", "exception", "critical", "log")


def _strip_logging(tree: ast.Module, log: List[str], mod: str) -> None:
    """Diagnostic statements (`logger.debug(...)`, `logging.info(...)`) whose arguments are plain
    reads have no effect any property speaks about; they are dropped before analysis."""
    logmods, loggers = set(), set()
    for st in tree.body:
        if isinstance(st, ast.Import):
            for a in st.names:
                if a.name == "logging":
                    logmods.add(a.asname or "logging")
    for st in tree.body:
        if isinstance(st, ast.Assign) and len(st.targets) == 1 and isinstance(st.targets[0], ast.Name) \
                and isinstance(st.value, ast.Call) and isinstance(st.value.func, ast.Attribute) \
                and st.value.func.attr == "getLogger" and isinstance(st.value.func.value, ast.Name) \
                and st.value.func.value.id in logmods:
            loggers.add(st.targets[0].id)
    if not (logmods or loggers):
        return

    def plain(e: ast.AST) -> bool:
        return not any(isinstance(x, (ast.Call, ast.Await, ast.Yield, ast.YieldFrom, ast.NamedExpr, ast.Subscript))
                       for x in ast.walk(e))
    n = 0
    for blk in _blocks(tree):
        for st in list(blk):
            if isinstance(st, ast.Expr) and isinstance(st.value, ast.Call) and isinstance(st.value.func, ast.Attribute) \
                    and st.value.func.attr in LOG_LEVELS and isinstance(st.value.func.value, ast.Name) \
                    and st.value.func.value.id in (logmods | loggers) \
                    and all(plain(a) for a in st.value.args) and all(plain(k.value) for k in st.value.keywords):
                blk.remove(st)
                n += 1
        if not blk:
            blk.append(ast.Pass())
    if n:
        log.append(f"{mod}: {n} logging statement(s) ignored")


def _local_normal_forms(tree: ast.Module, log: List[str], mod: str, inv: Set[str]) -> None:
    _strip_logging(tree, log, mod)
    _Getters(log, mod).visit(tree)
    for fn in [n for n in ast.walk(tree) if isinstance(n, (ast.FunctionDef, ast.AsyncFunctionDef))]:
        # N1: a boolean flag bound once to a pure condition is replaced by the condition
        params = [a.arg for a in fn.args.posonlyargs + fn.args.args + fn.args.kwonlyargs]
        stores: Dict[str, int] = {}
        for n in ast.walk(fn):
            if isinstance(n, ast.Name) and isinstance(n.ctx, (ast.Store, ast.Del)):
                stores[n.id] = stores.get(n.id, 0) + 1
            elif isinstance(n, (ast.Attribute, ast.Subscript)) and isinstance(n.ctx, (ast.Store, ast.Del)):
                root = n
                while isinstance(root, (ast.Attribute, ast.Subscript)):
                    root = root.value
                if isinstance(root, ast.Name):
                    stores[root.id] = stores.get(root.id, 0) + 1
        frozen = {p_ for p_ in params if p_ not in ("self", "cls") and stores.get(p_, 0) == 0}
        flags: Dict[str, ast.AST] = {}
        for blk in _blocks(fn):
            for st in list(blk):
                if isinstance(st, ast.Assign) and len(st.targets) == 1 and isinstance(st.targets[0], ast.Name) \
                        and stores.get(st.targets[0].id, 0) == 1 and _pure_condition(st.value, frozen):
                    flags[st.targets[0].id] = st.value
                    blk.remove(st)
                    log.append(f"{mod}: flag {st.targets[0].id} in {fn.name} replaced by its condition")
        if flags:
            class Sub(ast.NodeTransformer):
                def visit_Name(self, n):
                    if isinstance(n.ctx, ast.Load) and n.id in flags:
                        return ast.copy_location(_clone(flags[n.id]), n)
                    return n
            Sub().visit(fn)
        # N00: `x: T = v` on a plain local is `x = v`
        for blk in _blocks(fn):
            for i_, st in enumerate(list(blk)):
                if isinstance(st, ast.AnnAssign) and st.value is not None and isinstance(st.target, ast.Name) and st.simple:
                    blk[blk.index(st)] = ast.copy_location(ast.Assign(targets=[st.target], value=st.value), st)
        # N0: the local that receives the updater closure has one canonical name
        for st in ast.walk(fn):
            if isinstance(st, ast.Assign) and len(st.targets) == 1 and isinstance(st.targets[0], ast.Name) \
                    and isinstance(st.value, ast.Call) and isinstance(st.value.func, ast.Attribute) \
                    and st.value.func.attr in CANON_LOCALS:
                old_nm, new_nm = st.targets[0].id, CANON_LOCALS[st.value.func.attr]
                if old_nm != new_nm and stores.get(old_nm, 0) == 1 and stores.get(new_nm, 0) == 0 and new_nm not in params:
                    for x in ast.walk(fn):
                        if isinstance(x, ast.Name) and x.id == old_nm:
                            x.id = new_nm
                    stores[new_nm] = 1
                    log.append(f"{mod}: local {old_nm} in {fn.name} renamed to {new_nm}")
        loads: Dict[str, int] = {}
        for n in ast.walk(fn):
            if isinstance(n, ast.Name) and isinstance(n.ctx, ast.Load):
                loads[n.id] = loads.get(n.id, 0) + 1
        # N15: a for-loop over a literal tuple of tuples of plain reads is unrolled (table-driven dispatch)
        for blk in _blocks(fn):
            i = 0
            while i < len(blk):
                st = blk[i]
                if isinstance(st, ast.For) and not st.orelse and not any(isinstance(x, (ast.Break, ast.Continue)) for x in ast.walk(st)):
                    table = st.iter
                    src_stmt = None
                    if isinstance(table, ast.Name) and stores.get(table.id, 0) == 1 and loads.get(table.id, 0) == 1:
                        tname = table.id
                        for b2 in _blocks(fn):
                            for s2 in b2:
                                if isinstance(s2, ast.Assign) and len(s2.targets) == 1 and isinstance(s2.targets[0], ast.Name) \
                                        and s2.targets[0].id == tname:
                                    table, src_stmt = s2.value, (b2, s2)
                    tnames = [e.id for e in st.target.elts] if isinstance(st.target, ast.Tuple) and all(
                        isinstance(e, ast.Name) for e in st.target.elts) else ([st.target.id] if isinstance(st.target, ast.Name) else None)
                    if isinstance(table, (ast.Tuple, ast.List)) and tnames and 0 < len(table.elts) <= 8 and all(
                            (isinstance(r, (ast.Tuple, ast.List)) and len(r.elts) == len(tnames) and all(_alias_read(x) for x in r.elts))
                            if len(tnames) > 1 or isinstance(st.target, ast.Tuple) else _alias_read(r) for r in table.elts) \
                            and not any(isinstance(x, ast.Name) and x.id in tnames and isinstance(x.ctx, ast.Store)
                                        for b_ in st.body for x in ast.walk(b_)):
                        later_use = any(isinstance(x, ast.Name) and x.id in tnames for s2 in blk[i + 1:] for x in ast.walk(s2))
                        if not later_use:
                            unrolled = []
                            for r in table.elts:
                                vals = r.elts if isinstance(st.target, ast.Tuple) else [r]
                                mp = dict(zip(tnames, vals))
                                for b_ in st.body:
                                    unrolled.append(_Renamer(mp, "", set()).visit(_clone(b_)))
                            blk[i:i + 1] = unrolled
                            if src_stmt is not None and src_stmt[1] in src_stmt[0]:
                                src_stmt[0].remove(src_stmt[1])
                                if src_stmt[0] is blk:
                                    i -= 1
                            log.append(f"{mod}: table-driven loop in {fn.name} unrolled ({len(table.elts)} rows)")
                            i += len(unrolled)
                            continue
                i += 1
        # N12: `if (x := E) <rest>:` where the walrus is the first thing evaluated -> `x = E; if x <rest>:`
        for blk in _blocks(fn):
            i = 0
            while i < len(blk):
                st = blk[i]
                if isinstance(st, ast.If):
                    first, holder = st.test, None
                    if isinstance(first, ast.BoolOp):
                        holder, first = first, first.values[0]
                    cmp_ = first if isinstance(first, ast.Compare) else None
                    w = cmp_.left if cmp_ is not None else first
                    if isinstance(w, ast.NamedExpr) and isinstance(w.target, ast.Name):
                        nm_ = ast.Name(id=w.target.id, ctx=ast.Load())
                        if cmp_ is not None:
                            cmp_.left = nm_
                        elif holder is not None:
                            holder.values[0] = nm_
                        else:
                            st.test = nm_
                        blk.insert(i, ast.copy_location(ast.Assign(targets=[ast.Name(id=w.target.id, ctx=ast.Store())],
                                                                   value=w.value), st))
                        stores[w.target.id] = stores.get(w.target.id, 0)
                        log.append(f"{mod}: walrus {w.target.id} in {fn.name} split into an assignment")
                        i += 1
                i += 1
        # N13: `f(*t)` where t is a local bound once to a tuple/list literal of plain reads -> the elements
        lit = {}
        for st in ast.walk(fn):
            if isinstance(st, ast.Assign) and len(st.targets) == 1 and isinstance(st.targets[0], ast.Name) \
                    and isinstance(st.value, (ast.Tuple, ast.List)) and stores.get(st.targets[0].id, 0) == 1 \
                    and all(isinstance(e, (ast.Name, ast.Constant, ast.Attribute)) for e in st.value.elts):
                lit[st.targets[0].id] = st
        if lit:
            used = {}
            for n in ast.walk(fn):
                if isinstance(n, ast.Name) and isinstance(n.ctx, ast.Load) and n.id in lit:
                    used[n.id] = used.get(n.id, 0) + 1
            for c in ast.walk(fn):
                if isinstance(c, ast.Call):
                    new_args, changed_ = [], False
                    for a_ in c.args:
                        if isinstance(a_, ast.Starred) and isinstance(a_.value, ast.Name) and a_.value.id in lit \
                                and used.get(a_.value.id) == 1:
                            new_args.extend(_clone(e) for e in lit[a_.value.id].value.elts)
                            changed_ = True
                            dead = lit[a_.value.id]
                            for blk in _blocks(fn):
                                if dead in blk:
                                    blk.remove(dead)
                                    if not blk:
                                        blk.append(ast.Pass())
                            log.append(f"{mod}: star-argument {a_.value.id} in {fn.name} expanded")
                        else:
                            new_args.append(a_)
                    if changed_:
                        c.args = new_args
        # N20: inside `for k, v in X.items():` an item store through the value variable, `v[j] = e`, is the store
        # `X[k][j] = e` (v is X[k]) as long as neither k, v nor X[k] is rebound in the body
        for lp in [n for n in ast.walk(fn) if isinstance(n, ast.For)]:
            it = lp.iter
            if not (isinstance(it, ast.Call) and isinstance(it.func, ast.Attribute) and it.func.attr == "items" and not it.args
                    and isinstance(lp.target, ast.Tuple) and len(lp.target.elts) == 2
                    and all(isinstance(e_, ast.Name) for e_ in lp.target.elts) and _alias_read(it.func.value)):
                continue
            kx, vx = lp.target.elts[0].id, lp.target.elts[1].id
            cont = it.func.value
            body_nodes = [n for s_ in lp.body for n in ast.walk(s_)]
            if any(isinstance(n, ast.Name) and isinstance(n.ctx, (ast.Store, ast.Del)) and n.id in (kx, vx) for n in body_nodes):
                continue
            cont_txt = ast.unparse(cont)
            rebinding = False
            for n in body_nodes:
                if isinstance(n, (ast.Attribute, ast.Subscript)) and isinstance(n.ctx, (ast.Store, ast.Del)):
                    if ast.unparse(n) == cont_txt or (isinstance(n, ast.Subscript) and ast.unparse(n.value) == cont_txt):
                        rebinding = True
            if rebinding:
                continue
            hit = False
            for n in body_nodes:
                if isinstance(n, ast.Subscript) and isinstance(n.ctx, ast.Store) and isinstance(n.value, ast.Name) and n.value.id == vx:
                    n.value = ast.copy_location(ast.Subscript(value=_clone(cont), slice=ast.Name(id=kx, ctx=ast.Load()), ctx=ast.Load()), n.value)
                    ast.fix_missing_locations(n)
                    hit = True
            if hit:
                log.append(f"{mod}: store through the items() value `{vx}` in {fn.name} written as a store into `{cont_txt}[{kx}]`")
        # N11: a local that is a plain alias of a pure read (row[i + 1], self._x) and whose defining
        # read cannot change before its last use in the same block is replaced by the read
        for blk in _blocks(fn):
            k = 0
            while k < len(blk):
                st = blk[k]
                if not (isinstance(st, ast.Assign) and len(st.targets) == 1 and isinstance(st.targets[0], ast.Name)
                        and _alias_read(st.value) and (isinstance(st.value, (ast.Attribute, ast.Subscript))
                                                       or (isinstance(st.value, ast.Name) and st.value.id in frozen
                                                           and stores.get(st.targets[0].id, 0) == 1))):
                    k += 1
                    continue
                x = st.targets[0].id
                if x in params:
                    k += 1
                    continue
                roots = {n.id for n in ast.walk(st.value) if isinstance(n, ast.Name)}
                rest = blk[k + 1:]
                use_idx = [j for j, s2 in enumerate(rest)
                           if any(isinstance(n, ast.Name) and n.id == x and isinstance(n.ctx, ast.Load) for n in ast.walk(s2))]
                n_here = sum(1 for s2 in rest for n in ast.walk(s2)
                             if isinstance(n, ast.Name) and n.id == x and isinstance(n.ctx, ast.Load))
                if not use_idx or n_here != loads.get(x, 0):
                    k += 1
                    continue
                last = max(use_idx)
                unsafe = False
                for s2 in rest[:last + 1]:
                    for n in ast.walk(s2):
                        if isinstance(n, ast.Name) and isinstance(n.ctx, (ast.Store, ast.Del)) and (n.id == x or n.id in roots):
                            unsafe = True
                        if isinstance(n, (ast.Attribute, ast.Subscript)) and isinstance(n.ctx, (ast.Store, ast.Del)):
                            r_ = n
                            while isinstance(r_, (ast.Attribute, ast.Subscript)):
                                r_ = r_.value
                            if isinstance(r_, ast.Name) and r_.id in roots:
                                unsafe = True
                        if isinstance(n, ast.Call) and isinstance(n.func, ast.Attribute):
                            r_ = n.func.value
                            while isinstance(r_, (ast.Attribute, ast.Subscript)):
                                r_ = r_.value
                            if isinstance(r_, ast.Name) and r_.id in roots and r_.id not in ("self",) \
                                    and n.func.attr in ("pop", "append", "insert", "remove", "clear", "sort", "reverse", "extend", "update"):
                                unsafe = True
                            if isinstance(r_, ast.Name) and r_.id == "self" and "self" in roots:
                                unsafe = True  # a method reached through self may rebind the attribute
                        if isinstance(n, (ast.FunctionDef, ast.Lambda)) and any(
                                isinstance(y, ast.Name) and y.id == x for y in ast.walk(n)):
                            unsafe = True
                if unsafe or stores.get(x, 0) > 2:
                    k += 1
                    continue

                class A(ast.NodeTransformer):
                    def visit_Name(self, n):
                        if n.id == x and isinstance(n.ctx, ast.Load):
                            return ast.copy_location(_clone(st.value), n)
                        return n
                for j in range(last + 1):
                    rest[j] = A().visit(rest[j])
                blk[k:] = rest
                loads[x] = 0
                log.append(f"{mod}: alias {x} in {fn.name} replaced by `{ast.unparse(st.value)}`")
        # N1b: a local bound once and used once, as the (first operand of the) test of the very next
        # `if`, is replaced by its defining expression (nothing is evaluated in between)
        loads = {}
        for n in ast.walk(fn):
            if isinstance(n, ast.Name) and isinstance(n.ctx, ast.Load):
                loads[n.id] = loads.get(n.id, 0) + 1
        for blk in _blocks(fn):
            i = 0
            while i + 1 < len(blk):
                st, nxt = blk[i], blk[i + 1]
                if isinstance(st, ast.Assign) and len(st.targets) == 1 and isinstance(st.targets[0], ast.Name) \
                        and isinstance(nxt, ast.If) and isinstance(st.value, (ast.BoolOp, ast.Compare, ast.UnaryOp, ast.IfExp, ast.Call)):
                    nm = st.targets[0].id
                    if stores.get(nm, 0) == 1 and loads.get(nm, 0) == 1 and nm not in params:
                        t = nxt.test
                        first = t
                        holder, fld = nxt, "test"
                        if isinstance(first, ast.BoolOp):
                            holder, fld, first = first, None, first.values[0]
                        neg = None
                        if isinstance(first, ast.UnaryOp) and isinstance(first.op, ast.Not):
                            neg, first = first, first.operand
                        if isinstance(first, ast.Name) and first.id == nm:
                            if neg is not None:
                                neg.operand = st.value
                            elif fld == "test":
                                nxt.test = st.value
                            else:
                                holder.values[0] = st.value
                            del blk[i]
                            log.append(f"{mod}: single-use condition {nm} in {fn.name} folded into its if")
                            continue
                i += 1
        # N5: a new local closure that is only called inside its function is inlined at its call sites
        closures = {}
        for st in list(fn.body):
            if isinstance(st, ast.FunctionDef) and not st.decorator_list and stores.get(st.name, 0) == 0 \
                    and f"{fn.name}.<nested>.{st.name}" not in inv:
                h = Helper(st, None, True, closure=True)
                if h.ok and not h.recursive:
                    closures[(None, st.name)] = h
        if closures:
            counter = [getattr(_local_normal_forms, "_n", 1000)]
            for _ in range(3):
                if not _inline_pass(fn, closures, counter, log, mod):
                    break
            _local_normal_forms._n = counter[0] + 1
            for (_, nm), h in closures.items():
                still = any(isinstance(x, ast.Name) and x.id == nm and isinstance(x.ctx, ast.Load)
                            for st in fn.body if st is not h.node for x in ast.walk(st))
                if not still and h.node in fn.body:
                    fn.body.remove(h.node)
        # N4: a nested single-expression function used as a value is the equivalent lambda
        for st in list(fn.body):
            if isinstance(st, ast.FunctionDef) and not st.decorator_list and stores.get(st.name, 0) == 0 \
                    and f"{fn.name}.<nested>.{st.name}" not in inv:
                b_ = _docless(st.body)
                a_ = st.args
                if len(b_) == 1 and isinstance(b_[0], ast.Return) and b_[0].value is not None \
                        and not (a_.vararg or a_.kwarg or a_.kwonlyargs or a_.defaults) \
                        and not any(isinstance(x, ast.Name) and x.id == st.name for x in ast.walk(st)):
                    lam_args = _clone(a_)
                    for x in lam_args.posonlyargs + lam_args.args:
                        x.annotation = None
                    name_ = st.name
                    body_ = b_[0].value
                    fn.body.remove(st)

                    class L(ast.NodeTransformer):
                        def visit_Name(self, n):
                            if isinstance(n.ctx, ast.Load) and n.id == name_:
                                return ast.copy_location(ast.Lambda(args=_clone(lam_args), body=_clone(body_)), n)
                            return n
                    L().visit(fn)
                    log.append(f"{mod}: nested function {name_} in {fn.name} replaced by a lambda")
        # N1c: a local bound once and read once, in the very next statement, before any call of that
        # statement is invoked, is replaced by its defining expression
        for blk in _blocks(fn):
            i = 0
            while i + 1 < len(blk):
                st, nxt = blk[i], blk[i + 1]
                if isinstance(st, ast.Assign) and len(st.targets) == 1 and isinstance(st.targets[0], ast.Name) \
                        and stores.get(st.targets[0].id, 0) == 1 and loads.get(st.targets[0].id, 0) == 1 \
                        and st.targets[0].id not in params and isinstance(nxt, (ast.Return, ast.Assign, ast.Expr, ast.If)) \
                        and not isinstance(st.value, (ast.Lambda, ast.ListComp, ast.DictComp, ast.SetComp, ast.GeneratorExp,
                                                      ast.List, ast.Dict, ast.Set)) and not _maybe_new_helper_call(st.value, inv):
                    nm = st.targets[0].id
                    root = nxt.test if isinstance(nxt, ast.If) else nxt.value
                    if root is not None:
                        order = list(_eval_order(root))
                        pos = [k for k, x in enumerate(order) if isinstance(x, ast.Name) and x.id == nm and isinstance(x.ctx, ast.Load)]
                        if len(pos) == 1 and not any(isinstance(x, (ast.Call, ast.Await, ast.Yield, ast.NamedExpr)) for x in order[:pos[0]]) \
                                and not _inside_lazy(root, order[pos[0]]):
                            use = order[pos[0]]

                            class _U(ast.NodeTransformer):
                                def visit_Name(self, n_):
                                    return ast.copy_location(st.value, n_) if n_ is use else n_
                            if isinstance(nxt, ast.If):
                                nxt.test = _U().visit(nxt.test)
                            else:
                                nxt.value = _U().visit(nxt.value)
                            del blk[i]
                            loads[nm] = 0
                            log.append(f"{mod}: single-use local {nm} in {fn.name} folded into the next statement")
                            continue
                i += 1
        # N19 (jump threading): `if c: A; v = True else: B; v = False` followed by `if v: X else: Y`
        # (v read nowhere else)  ->  `if c: A; X else: B; Y`
        for blk in _blocks(fn):
            i = 0
            while i + 1 < len(blk):
                s1, s2 = blk[i], blk[i + 1]
                if isinstance(s1, ast.If) and isinstance(s2, ast.If) and s1.body and s1.orelse:
                    t2 = s2.test
                    neg2 = isinstance(t2, ast.UnaryOp) and isinstance(t2.op, ast.Not)
                    v2 = t2.operand if neg2 else t2
                    if isinstance(v2, ast.Name) and loads.get(v2.id, 0) == 1:
                        def _is_flag_assign(t):
                            return isinstance(t, ast.Assign) and len(t.targets) == 1 and isinstance(t.targets[0], ast.Name) \
                                and t.targets[0].id == v2.id

                        def _bool_const(e):
                            return isinstance(e, ast.Constant) and isinstance(e.value, bool)

                        def threadable(b) -> bool:
                            if not b:
                                return False
                            t = b[-1]
                            if _is_flag_assign(t):
                                if _bool_const(t.value):
                                    return True
                                return isinstance(t.value, ast.IfExp) and _bool_const(t.value.body) and _bool_const(t.value.orelse)
                            if isinstance(t, ast.If) and t.orelse:
                                return threadable(t.body) and threadable(t.orelse)
                            return False

                        def arm(val):
                            taken = (not val) if neg2 else val
                            return [_clone(x) for x in (s2.body if taken else s2.orelse)]

                        def thread(b):
                            t = b[-1]
                            if _is_flag_assign(t):
                                if _bool_const(t.value):
                                    return b[:-1] + (arm(t.value.value) or [])
                                ie = t.value
                                inner = ast.copy_location(ast.If(test=ie.test, body=arm(ie.body.value) or [ast.Pass()],
                                                                 orelse=arm(ie.orelse.value)), t)
                                ast.fix_missing_locations(inner)
                                return b[:-1] + [inner]
                            t.body = thread(t.body) or [ast.Pass()]
                            t.orelse = thread(t.orelse)
                            return b
                        if threadable(s1.body) and threadable(s1.orelse):
                            s1.body = thread(s1.body) or [ast.Pass()]
                            s1.orelse = thread(s1.orelse)
                            del blk[i + 1]
                            loads[v2.id] = 0
                            log.append(f"{mod}: verdict flag {v2.id} in {fn.name} threaded into its branches")
                            continue
                i += 1
        # N18: `x = E` directly followed by `<target> = x` (x used nowhere else) -> `<target> = E`
        for blk in _blocks(fn):
            i = 0
            while i + 1 < len(blk):
                st, nxt = blk[i], blk[i + 1]
                if isinstance(st, ast.Assign) and len(st.targets) == 1 and isinstance(st.targets[0], ast.Name) \
                        and isinstance(nxt, ast.Assign) and isinstance(nxt.value, ast.Name) and nxt.value.id == st.targets[0].id \
                        and stores.get(st.targets[0].id, 0) == 1 and loads.get(st.targets[0].id, 0) == 1 \
                        and st.targets[0].id not in params and not _maybe_new_helper_call(st.value, inv):
                    nxt.value = st.value
                    del blk[i]
                    log.append(f"{mod}: forwarding local {st.targets[0].id} in {fn.name} removed")
                    continue
                i += 1
        # N17: `if c: pass else: B` -> `if not c: B`; a trailing `else: pass` is dropped
        for n in ast.walk(fn):
            if isinstance(n, ast.If):
                if n.orelse and all(isinstance(x, ast.Pass) for x in n.orelse):
                    n.orelse = []
                if n.orelse and n.body and all(isinstance(x, ast.Pass) for x in n.body):
                    n.test = ast.copy_location(ast.UnaryOp(op=ast.Not(), operand=n.test), n.test)
                    n.body, n.orelse = n.orelse, []
        # N16: a local bound once to an empty literal / constant and only passed on as an argument is that literal
        for blk in _blocks(fn):
            for st in list(blk):
                if isinstance(st, ast.Assign) and len(st.targets) == 1 and isinstance(st.targets[0], ast.Name) \
                        and stores.get(st.targets[0].id, 0) == 1 and st.targets[0].id not in params \
                        and ((isinstance(st.value, (ast.List, ast.Tuple)) and not st.value.elts)
                             or (isinstance(st.value, ast.Dict) and not st.value.keys)):
                    nm = st.targets[0].id
                    uses = [x for x in ast.walk(fn) if isinstance(x, ast.Name) and x.id == nm and isinstance(x.ctx, ast.Load)]
                    if len(uses) == 1:
                        par = None
                        for c in ast.walk(fn):
                            if isinstance(c, ast.Call) and any(a is uses[0] for a in c.args):
                                par = c
                        if par is not None:
                            par.args = [(_clone(st.value) if a is uses[0] else a) for a in par.args]
                            blk.remove(st)
                            if not blk:
                                blk.append(ast.Pass())
                            log.append(f"{mod}: empty literal {nm} in {fn.name} passed directly")
        # N8: `if a: if b: body` (no else on either) -> `if a and b: body`
        for _ in range(3):
            merged = False
            for n in ast.walk(fn):
                if isinstance(n, ast.If) and not n.orelse and len(n.body) == 1 and isinstance(n.body[0], ast.If) \
                        and not n.body[0].orelse:
                    inner = n.body[0]
                    vals = (n.test.values if isinstance(n.test, ast.BoolOp) and isinstance(n.test.op, ast.And) else [n.test]) + \
                           (inner.test.values if isinstance(inner.test, ast.BoolOp) and isinstance(inner.test.op, ast.And) else [inner.test])
                    n.test = ast.copy_location(ast.BoolOp(op=ast.And(), values=vals), n.test)
                    n.body = inner.body
                    merged = True
                    log.append(f"{mod}: nested if in {fn.name} merged into one condition")
            if not merged:
                break
        # N7: `if c: x = A else: x = B` (plain local x) -> `x = A if c else B`;
        #      `x = A; if c: x = B; ...` (A a pure read, no else) -> the default moves into an else branch
        def _pure_read(e: ast.AST) -> bool:
            if isinstance(e, (ast.Constant, ast.Name)):
                return True
            if isinstance(e, ast.Attribute):
                return _pure_read(e.value)
            return False
        for blk in _blocks(fn):
            i = 0
            while i < len(blk):
                st = blk[i]
                if isinstance(st, ast.If) and len(st.body) == 1 and len(st.orelse) == 1 \
                        and isinstance(st.body[0], ast.Assign) and isinstance(st.orelse[0], ast.Assign) \
                        and len(st.body[0].targets) == 1 and len(st.orelse[0].targets) == 1 \
                        and _simple_target(st.body[0].targets[0]) \
                        and ast.dump(st.body[0].targets[0]) == ast.dump(st.orelse[0].targets[0]):
                    new_ = ast.Assign(targets=[st.body[0].targets[0]],
                                      value=ast.IfExp(test=st.test, body=st.body[0].value, orelse=st.orelse[0].value))
                    blk[i] = ast.copy_location(new_, st)
                    log.append(f"{mod}: if/else assignment of {ast.unparse(st.body[0].targets[0])} in {fn.name} joined into a conditional expression")
                elif i + 1 < len(blk) and isinstance(st, ast.Assign) and len(st.targets) == 1 \
                        and isinstance(st.targets[0], ast.Name) and _pure_read(st.value) \
                        and isinstance(blk[i + 1], ast.If) and not blk[i + 1].orelse:
                    nm = st.targets[0].id
                    nxt = blk[i + 1]
                    if not any(isinstance(x, ast.Name) and x.id == nm for x in ast.walk(nxt.test)) and nxt.body \
                            and isinstance(nxt.body[0], ast.Assign) and len(nxt.body[0].targets) == 1 \
                            and isinstance(nxt.body[0].targets[0], ast.Name) and nxt.body[0].targets[0].id == nm:
                        # the override may mention the default (x = f(x)): the default's value is substituted
                        class _S(ast.NodeTransformer):
                            def visit_Name(self, n_):
                                if n_.id == nm and isinstance(n_.ctx, ast.Load):
                                    return ast.copy_location(_clone(st.value), n_)
                                return n_
                        nxt.body[0].value = _S().visit(nxt.body[0].value)
                        nxt.orelse = [st]
                        del blk[i]
                        log.append(f"{mod}: default assignment of {nm} in {fn.name} moved into the else branch")
                        continue
                i += 1
        # N14: `try: ..; v = E  except X: ..  else: return v`  ->  `try: ..; return E  except X: ..`
        for n in ast.walk(fn):
            if isinstance(n, ast.Try) and len(n.orelse) == 1 and isinstance(n.orelse[0], ast.Return) \
                    and isinstance(n.orelse[0].value, ast.Name) and n.body and not n.finalbody:
                v_ = n.orelse[0].value.id
                if _is_assign_to(n.body[-1], v_) and loads.get(v_, 0) == 1:
                    n.body[-1] = ast.copy_location(ast.Return(value=n.body[-1].value), n.body[-1])
                    n.orelse = []
                    log.append(f"{mod}: try/else return of {v_} in {fn.name} folded into the try body")
        # N6: single exit through a result variable -> early returns
        for _ in range(4):
            got = _sentinel_result(fn)
            if got is None:
                break
            log.append(f"{mod}: sentinel result variable {got} in {fn.name} turned into early returns")
        for blk in _blocks(fn):
            for _ in range(6):
                if len(blk) >= 2 and isinstance(blk[-1], ast.Return) and isinstance(blk[-1].value, ast.Name):
                    v_ = blk[-1].value.id
                    if v_ in params or not _sink_return(blk, v_):
                        break
                    log.append(f"{mod}: trailing `return {v_}` in {fn.name} moved into the branches")
                else:
                    break
        # N2: `return a if c else b`  ->  if c: return a / else: return b
        for blk in _blocks(fn):
            for i, st in enumerate(list(blk)):
                if isinstance(st, ast.Return) and isinstance(st.value, ast.IfExp):
                    new = ast.If(test=st.value.test,
                                 body=[ast.copy_location(ast.Return(value=st.value.body), st)],
                                 orelse=[ast.copy_location(ast.Return(value=st.value.orelse), st)])
                    blk[blk.index(st)] = ast.copy_location(new, st)
                    log.append(f"{mod}: conditional return in {fn.name} split")
    ast.fix_missing_locations(tree)


def _alias_read(e: ast.AST) -> bool:
    """Names, constants, attribute chains, subscripts with +/- index arithmetic: reads without calls."""
    if isinstance(e, (ast.Name, ast.Constant)):
        return True
    if isinstance(e, ast.Attribute):
        return _alias_read(e.value)
    if isinstance(e, ast.Subscript):
        return _alias_read(e.value) and _alias_read(e.slice)
    if isinstance(e, ast.BinOp) and isinstance(e.op, (ast.Add, ast.Sub)):
        return _alias_read(e.left) and _alias_read(e.right)
    return False


def _maybe_new_helper_call(e: ast.AST, inv: Set[str]) -> bool:
    """A call of a private function that is not in the inventory: it is left at statement level so
    that the helper inliner can unfold it."""
    if not isinstance(e, ast.Call):
        return False
    f = e.func
    name = f.id if isinstance(f, ast.Name) else (f.attr if isinstance(f, ast.Attribute) else None)
    if not name or not name.startswith("_") or name.startswith("__"):
        return False
    return name not in inv and not any(k.endswith("." + name) for k in inv)


def _eval_order(e: ast.AST):
    """Sub-expressions in (approximate) evaluation order; a call is yielded after its arguments."""
    if isinstance(e, ast.IfExp):
        yield from _eval_order(e.test)
        yield from _eval_order(e.body)
        yield from _eval_order(e.orelse)
        yield e
        return
    if isinstance(e, ast.Call):
        yield from _eval_order(e.func)
        for a in e.args:
            yield from _eval_order(a)
        for k in e.keywords:
            yield from _eval_order(k.value)
        yield e
        return
    if isinstance(e, (ast.Lambda, ast.ListComp, ast.DictComp, ast.SetComp, ast.GeneratorExp)):
        for x in ast.walk(e):
            yield x
        return
    for c in ast.iter_child_nodes(e):
        if isinstance(c, ast.expr):
            yield from _eval_order(c)
    yield e


def _inside_lazy(root: ast.AST, node: ast.AST) -> bool:
    """Is `node` inside a lambda/comprehension (evaluated later, maybe repeatedly) or a conditional arm?"""
    for x in ast.walk(root):
        if isinstance(x, (ast.Lambda, ast.ListComp, ast.DictComp, ast.SetComp, ast.GeneratorExp)):
            if any(y is node for y in ast.walk(x)):
                return True
        if isinstance(x, ast.IfExp):
            if any(y is node for y in ast.walk(x.body)) or any(y is node for y in ast.walk(x.orelse)):
                return True
        if isinstance(x, ast.BoolOp):
            if any(y is node for v in x.values[1:] for y in ast.walk(v)):
                return True
    return False


def _simple_target(t: ast.AST) -> bool:
    if isinstance(t, ast.Name):
        return True
    if isinstance(t, ast.Subscript):
        return isinstance(t.value, ast.Name) and isinstance(t.slice, (ast.Name, ast.Constant))
    return False


def _blocks(fn: ast.AST):
    for n in ast.walk(fn):
        for fld in ("body", "orelse", "finalbody"):
            b = getattr(n, fld, None)
            if isinstance(b, list) and b and isinstance(b[0], ast.stmt):
                yield b
        if isinstance(n, ast.Try):
            for h in n.handlers:
                yield h.body


# ------------------------------------------------------------- single exit -> early returns
def _is_assign_to(st: ast.stmt, v: str) -> bool:
    return isinstance(st, ast.Assign) and len(st.targets) == 1 and isinstance(st.targets[0], ast.Name) \
        and st.targets[0].id == v


def _sink_return(block: List[ast.stmt], v: str) -> bool:
    """`<compound>; return v`  ->  the return moves into the tails of the compound statement and
    `v = E` in tail position becomes `return E`.  Always behaviour-preserving."""
    if len(block) < 2:
        return False
    last, prev = block[-1], block[-2]
    if not (isinstance(last, ast.Return) and isinstance(last.value, ast.Name) and last.value.id == v):
        return False
    if not isinstance(prev, (ast.If, ast.Try)):
        return False
    if isinstance(prev, ast.Try) and prev.finalbody:
        return False

    def has_tail_assign(blk: List[ast.stmt]) -> bool:
        if not blk:
            return False
        t = blk[-1]
        if _is_assign_to(t, v):
            return True
        if isinstance(t, ast.If):
            return has_tail_assign(t.body) or has_tail_assign(t.orelse)
        if isinstance(t, ast.Try) and not t.finalbody:
            return has_tail_assign(t.orelse or t.body) or any(has_tail_assign(h.body) for h in t.handlers)
        return False
    if not has_tail_assign([prev]):
        return False

    def mkret() -> ast.stmt:
        r = ast.Return(value=ast.copy_location(ast.Name(id=v, ctx=ast.Load()), last.value))
        return ast.copy_location(r, last)

    def push(blk: List[ast.stmt]) -> List[ast.stmt]:
        if not blk:
            return [mkret()]
        t = blk[-1]
        if _is_assign_to(t, v):
            return blk[:-1] + [ast.copy_location(ast.Return(value=t.value), t)]
        if isinstance(t, (ast.Return, ast.Raise, ast.Continue, ast.Break)):
            return blk
        if isinstance(t, ast.If):
            t.body = push(t.body)
            t.orelse = push(t.orelse)
            return blk
        if isinstance(t, ast.Try) and not t.finalbody:
            # with an else clause the body falls through into it: the return goes to the tail of the else
            if t.orelse:
                t.orelse = push(t.orelse)
            else:
                t.body = push(t.body)
            for h in t.handlers:
                h.body = push(h.body)
            return blk
        return blk + [mkret()]
    if isinstance(prev, ast.If):
        prev.body = push(prev.body)
        prev.orelse = push(prev.orelse)
    else:
        if prev.orelse:
            prev.orelse = push(prev.orelse)
        else:
            prev.body = push(prev.body)
        for h in prev.handlers:
            h.body = push(h.body)
    del block[-1]
    return True


def _is_none_test(e: ast.AST, v: str, positive: bool) -> bool:
    return isinstance(e, ast.Compare) and len(e.ops) == 1 and isinstance(e.left, ast.Name) and e.left.id == v \
        and isinstance(e.comparators[0], ast.Constant) and e.comparators[0].value is None \
        and isinstance(e.ops[0], ast.Is if positive else ast.IsNot)


def _sentinel_result(fn: ast.FunctionDef) -> Optional[str]:
    """`v = None; if ..: v = E ..; if v is None and ..: v = F ..; if v is not None: return v; raise`
    -> early returns.  Returns the variable that was eliminated."""
    body = fn.body
    for k, st in enumerate(body):
        v = None
        if _is_assign_to(st, st.targets[0].id if isinstance(st, ast.Assign) and isinstance(st.targets[0], ast.Name) else "") \
                and isinstance(st.value, ast.Constant) and st.value.value is None:
            v = st.targets[0].id
        elif isinstance(st, ast.AnnAssign) and isinstance(st.target, ast.Name) and isinstance(st.value, ast.Constant) \
                and st.value.value is None:
            v = st.target.id
        if v is None:
            continue
        rest = body[k + 1:]
        # exit shape
        tail_n = 0
        if len(rest) >= 2 and isinstance(rest[-2], ast.If) and _is_none_test(rest[-2].test, v, False) \
                and len(rest[-2].body) == 1 and isinstance(rest[-2].body[0], ast.Return) \
                and isinstance(rest[-2].body[0].value, ast.Name) and rest[-2].body[0].value.id == v \
                and not rest[-2].orelse and isinstance(rest[-1], (ast.Raise, ast.Return)):
            tail_n, new_tail = 2, [rest[-1]]
        elif len(rest) >= 2 and isinstance(rest[-2], ast.If) and _is_none_test(rest[-2].test, v, True) \
                and len(rest[-2].body) == 1 and isinstance(rest[-2].body[0], ast.Raise) and not rest[-2].orelse \
                and isinstance(rest[-1], ast.Return) and isinstance(rest[-1].value, ast.Name) and rest[-1].value.id == v:
            tail_n, new_tail = 2, [rest[-2].body[0]]
        elif rest and isinstance(rest[-1], ast.Return) and isinstance(rest[-1].value, ast.Name) and rest[-1].value.id == v:
            tail_n, new_tail = 1, [ast.Return(value=ast.Constant(value=None))]
        else:
            continue
        mids = rest[:-tail_n]
        if not mids or not all(isinstance(m, ast.If) and not m.orelse or (isinstance(m, ast.If) and i_ == 0)
                               for i_, m in enumerate(mids)):
            continue
        ok = True
        for i_, m in enumerate(mids):
            if i_ == 0:
                continue
            t = m.test
            first = t.values[0] if isinstance(t, ast.BoolOp) and isinstance(t.op, ast.And) else t
            if not _is_none_test(first, v, True):
                ok = False
        if not ok:
            continue
        # all other uses of v: assignments in tail position of a mid statement
        assigns = []

        def tails(blk: List[ast.stmt]):
            if not blk:
                return
            t = blk[-1]
            if _is_assign_to(t, v):
                assigns.append((blk, t))
            elif isinstance(t, ast.If):
                tails(t.body)
                tails(t.orelse)
        for m in mids:
            tails(m.body)
            tails(m.orelse)
        n_stores = sum(1 for x in ast.walk(fn) if isinstance(x, ast.Name) and x.id == v and isinstance(x.ctx, ast.Store))
        n_loads = sum(1 for x in ast.walk(fn) if isinstance(x, ast.Name) and x.id == v and isinstance(x.ctx, ast.Load))
        expected_loads = (len(mids) - 1) + (2 if tail_n == 2 else 1)
        if n_stores != len(assigns) + 1 or n_loads != expected_loads:
            continue
        if any(isinstance(a.value, ast.Constant) and a.value.value is None for _, a in assigns):
            continue
        for blk, a in assigns:
            blk[blk.index(a)] = ast.copy_location(ast.Return(value=a.value), a)
        for i_, m in enumerate(mids):
            if i_ == 0:
                continue
            t = m.test
            if isinstance(t, ast.BoolOp):
                restv = t.values[1:]
                m.test = restv[0] if len(restv) == 1 else ast.BoolOp(op=ast.And(), values=restv)
            else:
                m.test = ast.Constant(value=True)
        fn.body = body[:k] + mids + new_tail
        return v
    return None


# ------------------------------------------------------------- structural normal forms
def _structural_normal_forms(modules, inv: Set[str], log: List[str]) -> None:
    """Undo class-structure refactorings relative to the inventory: private mixins are flattened into
    the classes that inherit them, a method turned into a module-level function is re-attached,
    `X = _factory("const")` becomes the function the factory returns, a decorator that only composes
    other decorators is expanded."""
    sigs = load_sig_inventory()
    # (a) flatten new private mixin / base classes
    for mod, (rel, src, tree) in modules.items():
        new_classes = {c.name: c for c in tree.body if isinstance(c, ast.ClassDef) and c.name.startswith("_")
                       and c.name not in inv}
        if not new_classes:
            continue
        for _ in range(3):  # mixins of mixins
            for c in [x for x in tree.body if isinstance(x, ast.ClassDef)]:
                for b in list(c.bases):
                    if isinstance(b, ast.Name) and b.id in new_classes and new_classes[b.id] is not c:
                        m = new_classes[b.id]
                        have = {s.name for s in c.body if isinstance(s, ast.FunctionDef)} | \
                               {t.id for s in c.body if isinstance(s, ast.Assign) for t in s.targets if isinstance(t, ast.Name)}
                        for s in m.body:
                            if isinstance(s, ast.FunctionDef) and s.name not in have:
                                c.body.append(copy.deepcopy(s))
                            elif isinstance(s, ast.Assign) and all(isinstance(t, ast.Name) and t.id not in have for t in s.targets):
                                c.body.insert(0, copy.deepcopy(s))
                            elif isinstance(s, ast.AnnAssign) and isinstance(s.target, ast.Name) and s.target.id not in have:
                                c.body.insert(0, copy.deepcopy(s))
                        c.bases.remove(b)
                        for mb in m.bases:
                            if not any(ast.dump(mb) == ast.dump(x) for x in c.bases) and not (
                                    isinstance(mb, ast.Name) and mb.id == "object"):
                                c.bases.append(copy.deepcopy(mb))
                        log.append(f"{mod}: private base class {m.name} flattened into {c.name}")
        used = {n.id for n in ast.walk(tree) if isinstance(n, ast.Name) and isinstance(n.ctx, ast.Load)}
        tree.body = [s for s in tree.body if not (isinstance(s, ast.ClassDef) and s.name in new_classes and s.name not in used)]
    # (b) re-attach a method that became a module-level function
    classes = {}
    for mod, (rel, src, tree) in modules.items():
        for c in tree.body:
            if isinstance(c, ast.ClassDef):
                classes[c.name] = (mod, tree, c)
    for mod, (rel, src, tree) in list(modules.items()):
        for fn in [s for s in tree.body if isinstance(s, ast.FunctionDef) and s.name.startswith("_")
                   and s.name not in inv and not s.decorator_list]:
            owners = [k.split(".", 1)[0] for k in sigs if k.split(".", 1)[1] == fn.name]
            owners = [o for o in owners if o in classes and not any(
                isinstance(s, ast.FunctionDef) and s.name == fn.name for s in classes[o][2].body)]
            if len(owners) != 1:
                continue
            cname = owners[0]
            npar_inv = int(sigs[f"{cname}.{fn.name}"].split("|", 1)[0])
            a = fn.args
            npar = len(a.posonlyargs) + len(a.args) + len(a.kwonlyargs)
            cmod, ctree, cnode = classes[cname]
            calls = [c for (_, _, t) in modules.values() for c in ast.walk(t)
                     if isinstance(c, ast.Call) and isinstance(c.func, ast.Name) and c.func.id == fn.name]
            if not calls:
                continue
            meth = copy.deepcopy(fn)
            if npar == npar_inv and a.args:
                inst = a.args[0].arg
                for n in ast.walk(meth):
                    if isinstance(n, ast.Name) and n.id == inst:
                        n.id = "self"
                meth.args.args[0].arg = "self"
                meth.args.args[0].annotation = None
                if not all(c.args for c in calls):
                    continue
                for c in calls:
                    recv = c.args[0]
                    c.func = ast.copy_location(ast.Attribute(value=recv, attr=fn.name, ctx=ast.Load()), c.func)
                    c.args = c.args[1:]
            elif npar == npar_inv - 1:
                meth.args.args.insert(0, ast.arg(arg="self"))
                for c in calls:
                    c.func = ast.copy_location(ast.Attribute(value=ast.Name(id="self", ctx=ast.Load()), attr=fn.name,
                                                             ctx=ast.Load()), c.func)
            else:
                continue
            cnode.body.append(meth)
            tree.body.remove(fn)
            log.append(f"{mod}: module-level function {fn.name} re-attached as {cname}.{fn.name}")
    # (c) X = _factory(<constants>) where the factory returns a nested function
    for mod, (rel, src, tree) in modules.items():
        facts = {s.name: s for s in tree.body if isinstance(s, ast.FunctionDef) and s.name.startswith("_")
                 and s.name not in inv and not s.decorator_list}
        for i, st in enumerate(list(tree.body)):
            if isinstance(st, ast.Assign) and len(st.targets) == 1 and isinstance(st.targets[0], ast.Name) \
                    and isinstance(st.value, ast.Call) and isinstance(st.value.func, ast.Name) and st.value.func.id in facts \
                    and all(isinstance(x, ast.Constant) for x in st.value.args) and not st.value.keywords:
                f = facts[st.value.func.id]
                body = _docless(f.body)
                if len(body) == 2 and isinstance(body[0], ast.FunctionDef) and isinstance(body[1], ast.Return) \
                        and isinstance(body[1].value, ast.Name) and body[1].value.id == body[0].name \
                        and len(f.args.args) == len(st.value.args):
                    inner = copy.deepcopy(body[0])
                    inner.name = st.targets[0].id
                    mapping = {p_.arg: v for p_, v in zip(f.args.args, st.value.args)}
                    inner = _Renamer(mapping, "", set()).visit(inner)
                    inner.name = st.targets[0].id
                    tree.body[tree.body.index(st)] = ast.copy_location(inner, st)
                    log.append(f"{mod}: {st.targets[0].id} = {f.name}(...) expanded into the function it returns")
        still = _names_used_anywhere(modules)
        tree.body = [s for s in tree.body if not (isinstance(s, ast.FunctionDef) and s.name in facts and s.name not in still)]
    # (c2) `return _factory(<constants>)(<names>)`: the nested function's body takes the place of the return
    for mod, (rel, src, tree) in modules.items():
        facts = {s.name: s for s in tree.body if isinstance(s, ast.FunctionDef) and s.name.startswith("_")
                 and s.name not in inv and not s.decorator_list}
        if not facts:
            continue
        counter = [5000]
        for fn in [n for n in ast.walk(tree) if isinstance(n, ast.FunctionDef)]:
            for blk in _blocks(fn):
                for i, st in enumerate(list(blk)):
                    if isinstance(st, ast.Return) and isinstance(st.value, ast.Call) and isinstance(st.value.func, ast.Call) \
                            and isinstance(st.value.func.func, ast.Name) and st.value.func.func.id in facts \
                            and all(isinstance(x, ast.Constant) for x in st.value.func.args) \
                            and all(isinstance(x, ast.Name) for x in st.value.args):
                        f = facts[st.value.func.func.id]
                        body = _docless(f.body)
                        if len(body) == 2 and isinstance(body[0], ast.FunctionDef) and isinstance(body[1], ast.Return) \
                                and isinstance(body[1].value, ast.Name) and body[1].value.id == body[0].name \
                                and len(f.args.args) == len(st.value.func.args) \
                                and len(body[0].args.args) == len(st.value.args):
                            inner = copy.deepcopy(body[0])
                            inner = _Renamer({p_.arg: v for p_, v in zip(f.args.args, st.value.func.args)}, "", set()).visit(inner)
                            h = Helper(inner, None, True)
                            binding = {p_.arg: a_ for p_, a_ in zip(inner.args.args, st.value.args)}
                            new_ = _instantiate(h, binding, counter, None, True)
                            if new_ is not None:
                                k = blk.index(st)
                                blk[k:k + 1] = new_
                                log.append(f"{mod}: {f.name}(...)(...) in {fn.name} unfolded")
        still = _names_used_anywhere(modules)
        tree.body = [s for s in tree.body if not (isinstance(s, ast.FunctionDef) and s.name in facts and s.name not in still)]
    # (l) a decorator that only composes other decorators
    for mod, (rel, src, tree) in modules.items():
        comps = {}
        for s in tree.body:
            if isinstance(s, ast.FunctionDef) and s.name.startswith("_") and s.name not in inv and len(s.args.args) == 1:
                b = _docless(s.body)
                if len(b) == 1 and isinstance(b[0], ast.Return):
                    chain, e = [], b[0].value
                    while isinstance(e, ast.Call) and isinstance(e.func, ast.Name) and len(e.args) == 1 and not e.keywords:
                        chain.append(e.func.id)
                        e = e.args[0]
                    if chain and isinstance(e, ast.Name) and e.id == s.args.args[0].arg:
                        comps[s.name] = chain
        if comps:
            for (_, _, t2) in modules.values():
                for fdef in [n for n in ast.walk(t2) if isinstance(n, ast.FunctionDef)]:
                    new = []
                    for d in fdef.decorator_list:
                        if isinstance(d, ast.Name) and d.id in comps:
                            new.extend(ast.copy_location(ast.Name(id=nm, ctx=ast.Load()), d) for nm in comps[d.id])
                            log.append(f"{mod}: composite decorator {d.id} on {fdef.name} expanded")
                        else:
                            new.append(d)
                    fdef.decorator_list = new
    for mod, (rel, src, tree) in modules.items():
        ast.fix_missing_locations(tree)


def _names_used_anywhere(modules) -> Set[str]:
    out: Set[str] = set()
    for (_, _, t) in modules.values():
        for n in ast.walk(t):
            if isinstance(n, ast.Name) and isinstance(n.ctx, ast.Load):
                out.add(n.id)
            elif isinstance(n, ast.Attribute):
                out.add(n.attr)
    return out


class _Idioms(ast.NodeTransformer):
    """Equivalent standard-library spellings: zip(count(), X) = enumerate(X); cast(T, x) = x;
    getattr(o, "name") = o.name; tuple(chain(A, B)) = (*A, *B); chain.from_iterable(X) = (i for p in X for i in p)."""

    def __init__(self, log, mod):
        self.log, self.mod = log, mod

    def visit_Call(self, n):
        self.generic_visit(n)
        fn = ast.unparse(n.func)
        if fn == "zip" and len(n.args) == 2 and isinstance(n.args[0], ast.Call) and not n.args[0].args \
                and ast.unparse(n.args[0].func) in ("itertools.count", "count") and not n.keywords:
            self.log.append(f"{self.mod}: zip(count(), X) read as enumerate(X)")
            return ast.copy_location(ast.Call(func=ast.Name(id="enumerate", ctx=ast.Load()), args=[n.args[1]], keywords=[]), n)
        if fn in ("cast", "typing.cast") and len(n.args) == 2 and not n.keywords:
            self.log.append(f"{self.mod}: typing.cast dropped")
            return n.args[1]
        if fn == "getattr" and len(n.args) == 2 and isinstance(n.args[1], ast.Constant) and isinstance(n.args[1].value, str) \
                and n.args[1].value.isidentifier() and not n.keywords:
            return ast.copy_location(ast.Attribute(value=n.args[0], attr=n.args[1].value, ctx=ast.Load()), n)
        if fn in ("chain.from_iterable", "itertools.chain.from_iterable") and len(n.args) == 1:
            g = ast.GeneratorExp(
                elt=ast.Name(id="_i", ctx=ast.Load()),
                generators=[ast.comprehension(target=ast.Name(id="_p", ctx=ast.Store()), iter=n.args[0], ifs=[], is_async=0),
                            ast.comprehension(target=ast.Name(id="_i", ctx=ast.Store()), iter=ast.Name(id="_p", ctx=ast.Load()),
                                              ifs=[], is_async=0)])
            return ast.copy_location(g, n)
        if fn == "tuple" and len(n.args) == 1 and isinstance(n.args[0], ast.Call) \
                and ast.unparse(n.args[0].func) in ("chain", "itertools.chain") and not n.args[0].keywords:
            elts = []
            for a in n.args[0].args:
                if isinstance(a, (ast.Tuple, ast.List)):
                    elts.extend(a.elts)
                else:
                    elts.append(ast.Starred(value=a, ctx=ast.Load()))
            self.log.append(f"{self.mod}: tuple(chain(...)) read as a starred tuple")
            return ast.copy_location(ast.Tuple(elts=elts, ctx=ast.Load()), n)
        return n
