"""Control-dependence conditions (syntax-directed, for structured code) and a
tiny propositional normaliser over comparison atoms.

guards(node) returns the list of (condition expression, polarity) that must
hold for `node` to execute within its function; cnf() turns them into clause
sets so that `a != b`, `not a == b`, early-`continue` guards, and nested `if`
forms all normalise to the same thing.
"""

from __future__ import annotations

import ast
from typing import Callable, FrozenSet, Iterable, List, Optional, Set, Tuple

from .model import norm, parent

Literal = Tuple[str, bool]
Clause = FrozenSet[Literal]


def always_exits(block: List[ast.stmt]) -> bool:
    """The block never falls off its end (return/raise/continue/break)."""
    if not block:
        return False
    last = block[-1]
    if isinstance(last, (ast.Return, ast.Raise, ast.Continue, ast.Break)):
        return True
    if isinstance(last, ast.If):
        return always_exits(last.body) and always_exits(last.orelse)
    if isinstance(last, ast.Try):
        bodies = [last.body + last.orelse] + [h.body for h in last.handlers]
        if last.finalbody and always_exits(last.finalbody):
            return True
        return all(always_exits(b) for b in bodies)
    if isinstance(last, ast.With):
        return always_exits(last.body)
    return False


def _field_of(p: ast.AST, child: ast.AST) -> Tuple[Optional[str], Optional[int]]:
    for name, val in ast.iter_fields(p):
        if val is child:
            return name, None
        if isinstance(val, list):
            for i, v in enumerate(val):
                if v is child:
                    return name, i
    return None, None


def guards(node: ast.AST, stop: Optional[ast.AST] = None,
           through_loops: bool = True, siblings: bool = True) -> List[Tuple[ast.AST, bool]]:
    """Conditions (expr, polarity) under which `node` executes, innermost last.

    Syntax-directed: enclosing if/while/ifexp/boolop/comprehension conditions,
    plus preceding sibling `if c: <always exits>` statements (as `not c`).
    Stops at the enclosing function (or at `stop`).
    """
    out: List[Tuple[ast.AST, bool]] = []
    n = node
    while True:
        p = parent(n)
        if p is None or n is stop:
            break
        if isinstance(n, (ast.FunctionDef, ast.AsyncFunctionDef, ast.Lambda)):
            break
        field, idx = _field_of(p, n)
        if isinstance(p, ast.If):
            if field == "body":
                out.append((p.test, True))
            elif field == "orelse":
                out.append((p.test, False))
        elif isinstance(p, ast.While):
            if field == "body":
                out.append((p.test, True))
        elif isinstance(p, ast.IfExp):
            if field == "body":
                out.append((p.test, True))
            elif field == "orelse":
                out.append((p.test, False))
        elif isinstance(p, ast.BoolOp) and idx:
            for prev in p.values[:idx]:
                out.append((prev, isinstance(p.op, ast.And)))
        elif isinstance(p, (ast.ListComp, ast.SetComp, ast.GeneratorExp, ast.DictComp)):
            if field in ("elt", "key", "value"):
                for g in p.generators:
                    for c in g.ifs:
                        out.append((c, True))
        elif isinstance(p, ast.comprehension):
            pass
        # preceding siblings: the condition under which they fall through
        if siblings and idx is not None and field in ("body", "orelse", "finalbody") and isinstance(
            getattr(p, field, None), list
        ):
            block = getattr(p, field)
            for s in block[:idx]:
                if isinstance(s, ast.If) and _has_exit(s):
                    out.append((_FallThrough(s), True))
        if isinstance(p, (ast.For, ast.While)) and not through_loops:
            break
        n = p
    out.reverse()
    return out


class _FallThrough:
    """Pseudo-condition: statement `stmt` completes normally."""

    def __init__(self, stmt: ast.stmt):
        self.stmt = stmt


def _has_exit(s: ast.stmt) -> bool:
    for n in ast.walk(s):
        if isinstance(n, (ast.Return, ast.Raise, ast.Continue, ast.Break)):
            return True
    return False


def _ft_block(block: List[ast.stmt], subst):
    parts = []
    for s in block:
        parts.append(_ft_stmt(s, subst))
    return ("and", parts) if parts else ("const", True)


def _ft_stmt(s: ast.stmt, subst):
    if isinstance(s, (ast.Return, ast.Raise, ast.Continue, ast.Break)):
        return ("const", False)
    if isinstance(s, ast.Try):
        alts = [_ft_block(s.body + s.orelse, subst)] + [_ft_block(h.body, subst) for h in s.handlers]
        f_ = ("or", alts)
        if s.finalbody:
            f_ = ("and", [f_, _ft_block(s.finalbody, subst)])
        return f_
    if isinstance(s, ast.With):
        return _ft_block(s.body, subst)
    if isinstance(s, ast.If):
        t = formula(s.test, subst)
        return ("or", [("and", [t, _ft_block(s.body, subst)]),
                       ("and", [negate(t), _ft_block(s.orelse, subst)])])
    return ("const", True)


def _simp(f):
    """Constant folding."""
    if f[0] in ("lit", "const"):
        return f
    parts = [_simp(x) for x in f[1]]
    if f[0] == "and":
        if any(x == ("const", False) for x in parts):
            return ("const", False)
        parts = [x for x in parts if x != ("const", True)]
        if not parts:
            return ("const", True)
        return parts[0] if len(parts) == 1 else ("and", parts)
    if any(x == ("const", True) for x in parts):
        return ("const", True)
    parts = [x for x in parts if x != ("const", False)]
    if not parts:
        return ("const", False)
    return parts[0] if len(parts) == 1 else ("or", parts)


# ----------------------------------------------------------- propositional
def _atom(e: ast.AST, subst: Optional[Callable[[ast.AST], Optional[str]]] = None) -> str:
    if subst is not None:
        s = subst(e)
        if s is not None:
            return s
    return norm(e)


def formula(e: ast.AST, subst=None):
    """AST condition -> ('lit', atom, pol) | ('and', [...]) | ('or', [...])."""
    if isinstance(e, ast.BoolOp):
        parts = [formula(v, subst) for v in e.values]
        return ("and" if isinstance(e.op, ast.And) else "or", parts)
    if isinstance(e, ast.UnaryOp) and isinstance(e.op, ast.Not):
        return negate(formula(e.operand, subst))
    if isinstance(e, ast.IfExp):
        t = formula(e.test, subst)
        return ("or", [("and", [t, formula(e.body, subst)]), ("and", [negate(t), formula(e.orelse, subst)])])
    if isinstance(e, ast.Compare) and len(e.ops) == 1:
        a = _atom(e.left, subst)
        b = _atom(e.comparators[0], subst)
        op = e.ops[0]
        if isinstance(op, (ast.Eq, ast.NotEq)):
            x, y = sorted([a, b])
            return ("lit", f"eq({x},{y})", isinstance(op, ast.Eq))
        if isinstance(op, (ast.Is, ast.IsNot)):
            x, y = sorted([a, b])
            return ("lit", f"is({x},{y})", isinstance(op, ast.Is))
        if isinstance(op, (ast.In, ast.NotIn)) and isinstance(e.comparators[0], (ast.Tuple, ast.List, ast.Set)) \
                and e.comparators[0].elts and not any(isinstance(x, ast.Starred) for x in e.comparators[0].elts):
            # membership in a literal collection is a disjunction of equalities
            f_ = ("or", [formula(ast.Compare(left=e.left, ops=[ast.Eq()], comparators=[x]), subst)
                         for x in e.comparators[0].elts])
            if len(f_[1]) == 1:
                f_ = f_[1][0]
            return f_ if isinstance(op, ast.In) else negate(f_)
        if isinstance(op, (ast.In, ast.NotIn)):
            return ("lit", f"in({a},{b})", isinstance(op, ast.In))
        if isinstance(op, ast.Lt):
            return ("lit", f"lt({a},{b})", True)
        if isinstance(op, ast.GtE):
            return ("lit", f"lt({a},{b})", False)
        if isinstance(op, ast.Gt):
            return ("lit", f"lt({b},{a})", True)
        if isinstance(op, ast.LtE):
            return ("lit", f"lt({b},{a})", False)
    if isinstance(e, ast.Compare) and len(e.ops) > 1:
        parts = []
        left = e.left
        for op, right in zip(e.ops, e.comparators):
            parts.append(formula(ast.Compare(left=left, ops=[op], comparators=[right]), subst))
            left = right
        return ("and", parts)
    if isinstance(e, ast.Constant):
        return ("const", bool(e.value))
    return ("lit", f"truthy({_atom(e, subst)})", True)


def negate(f):
    if f[0] == "lit":
        return ("lit", f[1], not f[2])
    if f[0] == "const":
        return ("const", not f[1])
    if f[0] == "and":
        return ("or", [negate(x) for x in f[1]])
    return ("and", [negate(x) for x in f[1]])


def cnf(f, limit: int = 256) -> Set[Clause]:
    """Clause set of a formula (distribution; small formulas only)."""
    if f[0] == "lit":
        return {frozenset([(f[1], f[2])])}
    if f[0] == "const":
        return set() if f[1] else {frozenset()}
    if f[0] == "and":
        out: Set[Clause] = set()
        for x in f[1]:
            out |= cnf(x, limit)
        return out
    # or
    acc: Set[Clause] = {frozenset()}
    for x in f[1]:
        cx = cnf(x, limit)
        if not cx:  # x is True -> whole disjunction True
            return set()
        acc = {a | c for a in acc for c in cx}
        if len(acc) > limit:
            raise ValueError("cnf too large")
    # drop tautologies
    res = set()
    for c in acc:
        atoms = {}
        taut = False
        for a, p in c:
            if a in atoms and atoms[a] != p:
                taut = True
                break
            atoms[a] = p
        if not taut:
            res.add(c)
    return res


def guard_clauses(gs: Iterable[Tuple[ast.AST, bool]], subst=None) -> Set[Clause]:
    out: Set[Clause] = set()
    for e, pol in gs:
        if isinstance(e, _FallThrough):
            f = _simp(_ft_stmt(e.stmt, subst))
        else:
            f = formula(e, subst)
        if not pol:
            f = negate(f)
        try:
            out |= cnf(f)
        except ValueError:
            continue
    return simplify(out)


def simplify(cl: Set[Clause]) -> Set[Clause]:
    """Unit resolution to a fixed point."""
    cl = set(cl)
    changed = True
    while changed:
        changed = False
        units = {next(iter(c)) for c in cl if len(c) == 1}
        new = set()
        for c in cl:
            if len(c) > 1:
                c2 = frozenset(l for l in c if (l[0], not l[1]) not in units)
                if any(l in units for l in c2) and len(c2) > 1:
                    # subsumed by a unit
                    changed = True
                    continue
                if c2 != c:
                    changed = True
                new.add(c2)
            else:
                new.add(c)
        cl = new
    return cl


def entails(cl: Set[Clause], clause: Iterable[Literal]) -> bool:
    """cl |= (l1 or l2 ...) by subsumption (sound, incomplete)."""
    target = frozenset(clause)
    return any(c <= target for c in cl)


def contradictory(cl: Set[Clause]) -> bool:
    return frozenset() in cl


def consistent_with(cl: Set[Clause], facts: Iterable[Literal]) -> bool:
    """Can the clause set hold together with the given literal facts?  (unit propagation only:
    answers False only when propagation derives a contradiction)"""
    work = set(cl) | {frozenset([l]) for l in facts}
    while True:
        units = {next(iter(c)) for c in work if len(c) == 1}
        if any((a, not p_) in units for a, p_ in units):
            return False
        new = set()
        for c in work:
            if len(c) == 1:
                new.add(c)
                continue
            if any(l in units for l in c):
                continue
            c2 = frozenset(l for l in c if (l[0], not l[1]) not in units)
            if not c2:
                return False
            new.add(c2)
        if new == work:
            return True
        work = new
