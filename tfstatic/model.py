"""Program model: parsed modules, classes, functions (with qualified names),
parent links, class hierarchy, declared attribute types.

Nothing is imported from the analysed package; only its text is parsed.
"""

from __future__ import annotations

import ast
import os
import re
from typing import Dict, Iterable, Iterator, List, Optional, Tuple

REPO = os.environ.get("TF_REPO", "/repo")
PKG = "tinyflux"


class AnalysisError(Exception):
    """The analysis cannot be carried out (vanished anchor, unknown construct).

    Never reported as a violation: the driver prints ANALYSIS-ERROR and exits 2.
    """

    def __init__(self, rule: str, msg: str):
        super().__init__(f"rule={rule} {msg}")
        self.rule = rule
        self.msg = msg


def norm(node: ast.AST, limit: int = 200) -> str:
    """Normalised source text of a node (whitespace/quote-normalised)."""
    try:
        s = ast.unparse(node)
    except Exception:  # pragma: no cover
        s = ast.dump(node)
    s = re.sub(r"\s+", " ", s).strip()
    if len(s) > limit:
        s = s[: limit - 3] + "..."
    return s


def first_line(node: ast.AST, limit: int = 160) -> str:
    """Normalised header of a statement (compound statements: header only)."""
    if isinstance(node, (ast.If, ast.While)):
        return f"{type(node).__name__.lower()} {norm(node.test, limit)}"
    if isinstance(node, ast.For):
        return f"for {norm(node.target)} in {norm(node.iter, limit)}"
    if isinstance(node, ast.Try):
        return "try"
    if isinstance(node, ast.With):
        return "with " + ", ".join(norm(i.context_expr) for i in node.items)
    if isinstance(node, (ast.FunctionDef, ast.AsyncFunctionDef)):
        return f"def {node.name}"
    if isinstance(node, ast.ClassDef):
        return f"class {node.name}"
    return norm(node, limit)


class Func:
    """A function, method, nested function or lambda."""

    def __init__(self, node, module: str, qual: str, cls: Optional[str],
                 parent: Optional["Func"]):
        self.node = node
        self.module = module
        self.qual = qual
        self.cls = cls  # name of the directly enclosing class, if a method
        self.parent = parent  # lexically enclosing function
        self.decorators: List[str] = []
        self.kind = "function"  # function | getter | setter | lambda
        if not isinstance(node, ast.Lambda):
            for d in node.decorator_list:
                self.decorators.append(norm(d))
                if isinstance(d, ast.Name) and d.id == "property":
                    self.kind = "getter"
                if isinstance(d, ast.Attribute) and d.attr == "setter":
                    self.kind = "setter"
        else:
            self.kind = "lambda"

    @property
    def name(self) -> str:
        return getattr(self.node, "name", "<lambda>")

    @property
    def lineno(self) -> int:
        return self.node.lineno

    @property
    def body(self) -> List[ast.stmt]:
        if isinstance(self.node, ast.Lambda):
            return [ast.Return(value=self.node.body, lineno=self.node.lineno,
                               col_offset=0)]
        return self.node.body

    def params(self) -> List[str]:
        a = self.node.args
        names = [x.arg for x in a.posonlyargs + a.args]
        if a.vararg:
            names.append(a.vararg.arg)
        names += [x.arg for x in a.kwonlyargs]
        if a.kwarg:
            names.append(a.kwarg.arg)
        return names

    def param_annotation(self, name: str) -> Optional[ast.AST]:
        a = self.node.args
        for x in a.posonlyargs + a.args + a.kwonlyargs:
            if x.arg == name:
                return x.annotation
        return None

    def defaults(self) -> Dict[str, ast.AST]:
        a = self.node.args
        pos = a.posonlyargs + a.args
        out: Dict[str, ast.AST] = {}
        for p, d in zip(pos[len(pos) - len(a.defaults):], a.defaults):
            out[p.arg] = d
        for p, d in zip(a.kwonlyargs, a.kw_defaults):
            if d is not None:
                out[p.arg] = d
        return out

    def loc(self) -> str:
        return f"{PKG}/{self.module}.py:{self.lineno}"

    def __repr__(self) -> str:
        return f"<Func {self.qual}>"


class Cls:
    def __init__(self, node: ast.ClassDef, module: str):
        self.node = node
        self.module = module
        self.name = node.name
        self.bases = [norm(b) for b in node.bases]
        self.methods: Dict[str, Func] = {}
        self.setters: Dict[str, Func] = {}
        self.annotations: Dict[str, ast.AST] = {}
        self.consts: Dict[str, ast.AST] = {}
        for st in node.body:
            if isinstance(st, ast.AnnAssign) and isinstance(st.target, ast.Name):
                self.annotations[st.target.id] = st.annotation
                if st.value is not None:
                    self.consts[st.target.id] = st.value
            elif isinstance(st, ast.Assign):
                for t in st.targets:
                    if isinstance(t, ast.Name):
                        self.consts[t.id] = st.value


def mapping_inv(mapping: Dict[str, str], canon: str) -> str:
    for k, v in mapping.items():
        if v == canon:
            return k
    return canon


class Program:
    """All modules of the package, parsed, with lookup tables."""

    def __init__(self, root: Optional[str] = None,
                 overlay: Optional[Dict[str, str]] = None):
        self.root = root or REPO
        self.overlay = overlay or {}
        self.modules: Dict[str, Tuple[str, str, ast.Module]] = {}
        self.funcs: Dict[str, Func] = {}
        self.classes: Dict[str, Cls] = {}
        self.imports: Dict[str, Dict[str, str]] = {}
        self._owner: Dict[int, Func] = {}
        self._load()

    # ------------------------------------------------------------------ load
    def _load(self) -> None:
        pkgdir = os.path.join(self.root, PKG)
        if not os.path.isdir(pkgdir):
            raise AnalysisError("model", f"package directory {pkgdir} missing")
        names = sorted(f for f in os.listdir(pkgdir) if f.endswith(".py"))
        for f in names:
            rel = f"{PKG}/{f}"
            path = os.path.join(pkgdir, f)
            if rel in self.overlay:
                src = self.overlay[rel]
            else:
                with open(path, encoding="utf-8") as fh:
                    src = fh.read()
            try:
                tree = ast.parse(src, filename=path)
            except SyntaxError as e:
                raise AnalysisError("model", f"{rel} does not parse: {e}")
            mod = f[:-3]
            self.modules[mod] = (rel, src, tree)
        self.renamed: Dict[str, str] = {}
        self._canonicalise()
        from .inline import normalise
        self.inlined: List[str] = normalise(self.modules)
        for mod, (rel, src, tree) in self.modules.items():
            for parent in ast.walk(tree):
                for child in ast.iter_child_nodes(parent):
                    child._parent = parent  # type: ignore[attr-defined]
            tree._parent = None  # type: ignore[attr-defined]
            self._index_module(mod, tree)

    # ------------------------------------------------------- canonical names
    def _canonicalise(self) -> None:
        """Give private helpers that the rules (and known-finding keys) refer to by name their
        canonical names, found by *role*, so that a consistent rename of a private helper does not
        change any verdict or key.  Public API names and names pinned by the test suite are the
        anchors; only names that are absent under their canonical spelling are mapped."""
        def cls_of(tree, name):
            for n in tree.body:
                if isinstance(n, ast.ClassDef) and n.name == name:
                    return n
            return None

        def method(c, name):
            for n in c.body:
                if isinstance(n, (ast.FunctionDef, ast.AsyncFunctionDef)) and n.name == name:
                    return n
            return None

        def sole_self_call(fn):
            calls = [x for x in ast.walk(fn) if isinstance(x, ast.Call) and isinstance(x.func, ast.Attribute)
                     and isinstance(x.func.value, ast.Name) and x.func.value.id == "self"]
            names = {c.func.attr for c in calls}
            return names.pop() if len(names) == 1 else None

        mapping: Dict[str, str] = {}
        db = self.modules.get("database")
        if db:
            tf = cls_of(db[2], "TinyFlux")
            if tf is not None:
                for api, canon in (("remove", "_remove_helper"), ("update", "_update_helper"),
                                   ("insert", "_insert_helper"), ("remove_all", "_reset_database")):
                    m = method(tf, api)
                    if m is not None and method(tf, canon) is None:
                        nm = sole_self_call(m)
                        if nm and nm.startswith("_") and method(tf, nm) is not None:
                            mapping[nm] = canon
                uh = method(tf, mapping_inv(mapping, "_update_helper")) or method(tf, "_update_helper")
                if uh is not None and method(tf, "_generate_updater") is None:
                    # name = self._x(...) whose result is later called like a function
                    for a in ast.walk(uh):
                        if isinstance(a, ast.Assign) and isinstance(a.value, ast.Call) \
                                and isinstance(a.value.func, ast.Attribute) and isinstance(a.value.func.value, ast.Name) \
                                and a.value.func.value.id == "self" and len(a.targets) == 1 \
                                and isinstance(a.targets[0], ast.Name):
                            v = a.targets[0].id
                            if any(isinstance(c, ast.Call) and isinstance(c.func, ast.Name) and c.func.id == v
                                   for c in ast.walk(uh)) and method(tf, a.value.func.attr) is not None:
                                mapping[a.value.func.attr] = "_generate_updater"
        ix = self.modules.get("index")
        if ix:
            ic = cls_of(ix[2], "Index")
            if ic is not None:
                sh = method(ic, "_search_helper")
                if sh is not None:
                    canon_leaf = {"_time": "_search_timestamps", "_measurement": "_search_measurement",
                                  "_tags": "_search_tags", "_fields": "_search_fields"}
                    for n in ast.walk(sh):
                        if isinstance(n, ast.If) and isinstance(n.test, ast.Compare) and len(n.test.comparators) == 1 \
                                and isinstance(n.test.comparators[0], ast.Constant) \
                                and n.test.comparators[0].value in canon_leaf:
                            want = canon_leaf[n.test.comparators[0].value]
                            for c in ast.walk(n):
                                if isinstance(c, ast.Call) and isinstance(c.func, ast.Attribute) \
                                        and isinstance(c.func.value, ast.Name) and c.func.value.id == "self" \
                                        and c.func.attr.startswith("_") and c.func.attr != "_search_helper" \
                                        and method(ic, c.func.attr) is not None and method(ic, want) is None \
                                        and c.func.attr != want:
                                    mapping[c.func.attr] = want
        # constructor-parameter slots: `self._x = param` keeps the attribute name of the validated tree
        from .inline import load_attr_inventory
        inv_attr = load_attr_inventory()
        if inv_attr:
            all_attrs = {n.attr for (_, _, t) in self.modules.values() for n in ast.walk(t) if isinstance(n, ast.Attribute)}
            known_attr_names = set(inv_attr.values())
            for (_, _, t) in self.modules.values():
                for c in t.body:
                    if not isinstance(c, ast.ClassDef):
                        continue
                    init = method(c, "__init__")
                    if init is None:
                        continue
                    params = {a.arg for a in init.args.posonlyargs + init.args.args + init.args.kwonlyargs} - {"self"}
                    for n in ast.walk(init):
                        if isinstance(n, (ast.Assign, ast.AnnAssign)):
                            ts = n.targets if isinstance(n, ast.Assign) else [n.target]
                            v = n.value
                            if len(ts) == 1 and isinstance(ts[0], ast.Attribute) and isinstance(ts[0].value, ast.Name) \
                                    and ts[0].value.id == "self" and isinstance(v, ast.Name) and v.id in params:
                                want = inv_attr.get((c.name, v.id))
                                cur = ts[0].attr
                                if want and cur != want and want not in all_attrs and cur not in known_attr_names \
                                        and cur.startswith("_"):
                                    mapping[cur] = want
        # any other private method that was renamed consistently: a method of the validated tree is
        # missing, exactly one new private method of the same class has its fingerprint
        from .inline import fingerprint, load_inventory, load_sig_inventory
        inv = load_inventory() or set()
        sigs = load_sig_inventory()
        if sigs:
            all_names = {n.attr for (_, _, t) in self.modules.values() for n in ast.walk(t) if isinstance(n, ast.Attribute)} | \
                        {n.name for (_, _, t) in self.modules.values() for n in ast.walk(t) if isinstance(n, ast.FunctionDef)}
            for (_, _, t) in self.modules.values():
                for c in t.body:
                    if not isinstance(c, ast.ClassDef):
                        continue
                    present = {m.name: m for m in c.body if isinstance(m, ast.FunctionDef)}
                    missing = [k.split(".", 1)[1] for k in sigs if k.startswith(c.name + ".")
                               and k.split(".", 1)[1] not in present and k.split(".", 1)[1] not in mapping.values()
                               and k.split(".", 1)[1] not in all_names]
                    fresh = [m for nm, m in present.items() if nm.startswith("_") and not nm.startswith("__")
                             and f"{c.name}.{nm}" not in inv and nm not in mapping]
                    for old_name in missing:
                        want = sigs[f"{c.name}.{old_name}"]
                        cands = [m for m in fresh if fingerprint(m) == want]
                        if len(cands) == 1 and sum(1 for o in missing if sigs[f"{c.name}.{o}"] == want) == 1:
                            mapping[cands[0].name] = old_name
        mapping = {k: v for k, v in mapping.items() if k != v}
        if not mapping:
            return
        self.renamed = dict(mapping)
        for mod, (rel, src, tree) in self.modules.items():
            for n in ast.walk(tree):
                if isinstance(n, (ast.FunctionDef, ast.AsyncFunctionDef)) and n.name in mapping:
                    n.name = mapping[n.name]
                elif isinstance(n, ast.Attribute) and n.attr in mapping:
                    n.attr = mapping[n.attr]

    def _index_module(self, mod: str, tree: ast.Module) -> None:
        imports: Dict[str, str] = {}
        for st in ast.walk(tree):
            if isinstance(st, ast.Import):
                for a in st.names:
                    imports[a.asname or a.name.split(".")[0]] = a.name
            elif isinstance(st, ast.ImportFrom):
                base = ("." * st.level) + (st.module or "")
                for a in st.names:
                    imports[a.asname or a.name] = f"{base}:{a.name}"
        self.imports[mod] = imports

        def visit(node: ast.AST, qual: List[str], cls: Optional[str],
                  parent: Optional[Func]) -> None:
            lam = 0
            for child in ast.iter_child_nodes(node):
                if isinstance(child, ast.ClassDef):
                    c = Cls(child, mod)
                    self.classes[child.name] = c
                    visit(child, qual + [child.name], child.name, parent)
                elif isinstance(child, (ast.FunctionDef, ast.AsyncFunctionDef)):
                    f = Func(child, mod, ".".join(qual + [child.name]), cls,
                             parent)
                    if f.kind == "setter":
                        f.qual += ".setter"
                    self.funcs[f.qual] = f
                    if cls and isinstance(node, ast.ClassDef):
                        if f.kind == "setter":
                            self.classes[cls].setters[child.name] = f
                        else:
                            self.classes[cls].methods[child.name] = f
                    self._claim(child, f)
                    visit(child, qual + [child.name, "<locals>"], None, f)
                elif isinstance(child, ast.Lambda):
                    lam_name = "<lambda>"
                    q = ".".join(qual + [lam_name])
                    k = q
                    n = 1
                    while k in self.funcs:
                        n += 1
                        k = f"{q}#{n}"
                    f = Func(child, mod, k, None, parent)
                    self.funcs[k] = f
                    self._claim(child, f)
                    visit(child, qual, cls, parent)
                else:
                    visit(child, qual, cls, parent)

        visit(tree, [], None, None)

    def _claim(self, node: ast.AST, f: Func) -> None:
        self._owner[id(node)] = f

    # --------------------------------------------------------------- lookups
    def func(self, qual: str, rule: str = "anchor") -> Func:
        f = self.funcs.get(qual)
        if f is None:
            raise AnalysisError(rule, f"function {qual} not found in package")
        return f

    def has_func(self, qual: str) -> bool:
        return qual in self.funcs

    def cls(self, name: str, rule: str = "anchor") -> Cls:
        c = self.classes.get(name)
        if c is None:
            raise AnalysisError(rule, f"class {name} not found in package")
        return c

    def subclasses(self, name: str, strict: bool = False) -> List[str]:
        out = [] if strict else [name]
        changed = True
        seen = {name}
        while changed:
            changed = False
            for c in self.classes.values():
                if c.name in seen:
                    continue
                if any(b in seen for b in c.bases):
                    seen.add(c.name)
                    out.append(c.name)
                    changed = True
        return out

    def mro(self, name: str) -> List[str]:
        out = []
        todo = [name]
        while todo:
            n = todo.pop(0)
            if n in out or n not in self.classes:
                continue
            out.append(n)
            todo.extend(self.classes[n].bases)
        return out

    def lookup_method(self, cls: str, name: str) -> Optional[Func]:
        for c in self.mro(cls):
            m = self.classes[c].methods.get(name)
            if m is not None:
                return m
        return None

    def lookup_setter(self, cls: str, name: str) -> Optional[Func]:
        for c in self.mro(cls):
            m = self.classes[c].setters.get(name)
            if m is not None:
                return m
        return None

    def methods_of(self, cls: str) -> List[Func]:
        c = self.cls(cls)
        return list(c.methods.values()) + list(c.setters.values())

    def owner(self, node: ast.AST) -> Optional[Func]:
        """Innermost function lexically containing the node."""
        n = getattr(node, "_parent", None)
        while n is not None:
            f = self._owner.get(id(n))
            if f is not None:
                return f
            n = getattr(n, "_parent", None)
        return None

    def func_of_node(self, node: ast.AST) -> Optional[Func]:
        return self._owner.get(id(node))

    def nested(self, f: Func) -> List[Func]:
        return [g for g in self.funcs.values() if g.parent is f]

    def all_funcs(self) -> List[Func]:
        return list(self.funcs.values())

    def loc(self, node: ast.AST) -> str:
        f = self.owner(node) or self.func_of_node(node)
        mod = f.module if f else "?"
        if f is None:
            n = node
            while getattr(n, "_parent", None) is not None:
                n = n._parent
            for m, (_, _, t) in self.modules.items():
                if t is n:
                    mod = m
        return f"{PKG}/{mod}.py:{getattr(node, 'lineno', 0)}"

    def digest(self) -> str:
        import hashlib
        h = hashlib.sha256()
        for m in sorted(self.modules):
            h.update(m.encode())
            h.update(self.modules[m][1].encode())
        return h.hexdigest()[:16]


# ------------------------------------------------------------------ helpers
def parent(node: ast.AST) -> Optional[ast.AST]:
    return getattr(node, "_parent", None)


def ancestors(node: ast.AST) -> Iterator[ast.AST]:
    n = parent(node)
    while n is not None:
        yield n
        n = parent(n)


def enclosing_stmt(node: ast.AST) -> ast.stmt:
    n = node
    while n is not None and not isinstance(n, ast.stmt):
        n = parent(n)
    return n  # type: ignore[return-value]


def walk_local(node: ast.AST, include_root: bool = True) -> Iterator[ast.AST]:
    """Walk a function body without descending into nested defs/lambdas/classes."""
    stack = [node]
    first = True
    while stack:
        n = stack.pop()
        if not first and isinstance(
            n, (ast.FunctionDef, ast.AsyncFunctionDef, ast.Lambda, ast.ClassDef)
        ):
            continue
        if not (first and not include_root):
            yield n
        first = False
        stack.extend(reversed(list(ast.iter_child_nodes(n))))


def walk_stmts(body: Iterable[ast.stmt]) -> Iterator[ast.AST]:
    for st in body:
        yield from walk_local_stmt(st)


def walk_local_stmt(st: ast.AST) -> Iterator[ast.AST]:
    """Walk one statement; nested defs are yielded but not entered."""
    stack = [st]
    while stack:
        n = stack.pop()
        yield n
        if n is not st and isinstance(
            n, (ast.FunctionDef, ast.AsyncFunctionDef, ast.Lambda, ast.ClassDef)
        ):
            continue
        stack.extend(reversed(list(ast.iter_child_nodes(n))))


def calls_in(node: ast.AST) -> List[ast.Call]:
    return [n for n in walk_local_stmt(node) if isinstance(n, ast.Call)]


def is_self_attr(node: ast.AST, attr: Optional[str] = None,
                 selfname: str = "self") -> bool:
    return (
        isinstance(node, ast.Attribute)
        and isinstance(node.value, ast.Name)
        and node.value.id == selfname
        and (attr is None or node.attr == attr)
    )


def attr_chain(node: ast.AST) -> Optional[List[str]]:
    """`a.b.c` -> ['a','b','c']; None if not a pure name/attribute chain."""
    out: List[str] = []
    n = node
    while isinstance(n, ast.Attribute):
        out.append(n.attr)
        n = n.value
    if isinstance(n, ast.Name):
        out.append(n.id)
        return list(reversed(out))
    return None


def const_value(node: Optional[ast.AST]):
    """Value of a literal (str/num/bool/None/tuple of literals) or NOCONST."""
    if node is None:
        return NOCONST
    try:
        return ast.literal_eval(node)
    except Exception:
        return NOCONST


class _NoConst:
    def __repr__(self) -> str:
        return "NOCONST"


NOCONST = _NoConst()


def clone_expr(e: ast.AST) -> ast.AST:
    """A detached copy of an expression (no parent links)."""
    return ast.parse(ast.unparse(e), mode="eval").body
