"""Thorough tier: independent cross-check of the engine's receiver-type
resolution against mypy (library API, from the repository's own environment).

For every method call `recv.m(...)` whose receiver the engine typed as a package
class, mypy's inferred type of the same receiver expression is looked up by
(line, column, attribute).  `Any`/missing types are "unknown to mypy"; a
concrete type that names a different class is a disagreement.
"""

from __future__ import annotations

import ast
import os
from typing import Dict, List, Tuple


def run(ctx) -> dict:
    try:
        from mypy import build
        from mypy.find_sources import create_source_list
        from mypy.options import Options
        from mypy.nodes import CallExpr, MemberExpr
    except Exception as e:  # pragma: no cover
        return {"mypy_available": False, "mypy_note": f"mypy not importable: {e}"}
    root = ctx.prog.root
    cwd = os.getcwd()
    out: dict = {"mypy_available": True}
    try:
        os.chdir(root)
        opts = Options()
        opts.preserve_asts = True
        opts.export_types = True
        opts.incremental = False
        opts.cache_dir = os.devnull
        opts.ignore_missing_imports = True
        srcs = create_source_list(["tinyflux"], opts)
        res = build.build(srcs, opts)
    except Exception as e:
        os.chdir(cwd)
        return {"mypy_available": False, "mypy_note": f"mypy build failed: {type(e).__name__}: {e}"}
    finally:
        os.chdir(cwd)
    types = res.types
    # index mypy member-call receivers by (module, line, col, attr)
    mp: Dict[Tuple[str, int, int, str], str] = {}

    def walk(node, mod, seen):
        if id(node) in seen:
            return
        seen.add(id(node))
        if isinstance(node, CallExpr) and isinstance(node.callee, MemberExpr):
            r = node.callee.expr
            t = types.get(r)
            mp[(mod, r.line, r.column, node.callee.name)] = str(t) if t is not None else "<none>"
        for name in dir(type(node)):
            if name.startswith("_"):
                continue
        for attr in getattr(node, "__slots__", ()) or ():
            pass
        # generic traversal over attributes that hold nodes / lists of nodes
        for k in dir(node):
            if k.startswith("_") or k in ("info", "type", "analyzed", "partial_fallback"):
                continue
            try:
                v = getattr(node, k)
            except Exception:
                continue
            if isinstance(v, list):
                for x in v:
                    if hasattr(x, "line") and hasattr(x, "accept"):
                        walk(x, mod, seen)
                    elif isinstance(x, (list, tuple)):
                        for y in x:
                            if hasattr(y, "line") and hasattr(y, "accept"):
                                walk(y, mod, seen)
            elif hasattr(v, "line") and hasattr(v, "accept") and not isinstance(v, type):
                walk(v, mod, seen)

    for modname, st in res.graph.items():
        if modname.startswith("tinyflux.") and st.tree is not None:
            walk(st.tree, modname.split(".")[-1], set())
    compared = 0
    unknown = 0
    disagreements: List[str] = []
    from .model import walk_local
    for f in ctx.prog.all_funcs():
        for n in walk_local(f.node):
            if isinstance(n, ast.Call) and isinstance(n.func, ast.Attribute):
                t = ctx.res.type_of(n.func.value, f)
                if not t:
                    continue
                key = (f.module, n.func.value.lineno, n.func.value.col_offset, n.func.attr)
                mt = mp.get(key)
                if mt is None or mt in ("<none>",) or mt.startswith("Any") or mt == "builtins.object":
                    unknown += 1
                    continue
                compared += 1
                names = {x.split(".")[-1].rstrip("?") for x in mt.replace("Union[", "").replace("]", "").replace(
                    "None", "").replace("|", ",").split(",") if x.strip()}
                mro = set(ctx.prog.mro(t)) | set(ctx.prog.subclasses(t))
                if not (names & mro):
                    disagreements.append(f"{f.qual}:{n.lineno} `{ast.unparse(n.func)[:50]}` engine={t} mypy={mt}")
    out.update({"mypy_sites_compared": compared, "mypy_sites_unknown_to_mypy": unknown,
                "disagreements_checked": compared, "mypy_disagreements": disagreements[:10]})
    return out
