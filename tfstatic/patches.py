"""Apply a unified diff (as produced by `git diff`) to in-memory sources.

Used by the thorough tier to turn the committed corpora -- /verif/seeded/*/patch.diff
(independently produced property-breaking changes) and /verif/refactors/*.diff
(independently produced behaviour-preserving refactorings) -- into overlays of the
current source, without touching /repo.
"""

from __future__ import annotations

import re
from typing import Dict, List, Tuple


class PatchError(Exception):
    pass


def parse(diff_text: str) -> List[Tuple[str, List[Tuple[int, List[str]]]]]:
    files: List[Tuple[str, List[Tuple[int, List[str]]]]] = []
    cur = None
    hunk = None
    for line in diff_text.splitlines():
        if line.startswith("diff --git"):
            cur = None
            hunk = None
            continue
        if line.startswith("+++ "):
            path = line[4:].strip()
            if path.startswith("b/"):
                path = path[2:]
            cur = (path, [])
            files.append(cur)
            continue
        if line.startswith("--- ") or line.startswith("index ") or line.startswith("new file") \
                or line.startswith("deleted file") or line.startswith("similarity") or line.startswith("rename"):
            continue
        m = re.match(r"@@ -(\d+)(?:,(\d+))? \+(\d+)(?:,(\d+))? @@", line)
        if m and cur is not None:
            hunk = (int(m.group(1)), [])
            cur[1].append(hunk)
            continue
        if hunk is not None and (line[:1] in (" ", "+", "-") or line == ""):
            hunk[1].append(line if line else " ")
        elif line.startswith("\\"):
            continue
    return files


def apply(sources: Dict[str, str], diff_text: str, fuzz: int = 40) -> Dict[str, str]:
    out = dict(sources)
    for path, hunks in parse(diff_text):
        if path not in out:
            raise PatchError(f"{path} not among the analysed sources")
        lines = out[path].split("\n")
        offset = 0
        for start, body in hunks:
            old = [l[1:] for l in body if l[:1] in (" ", "-")]
            new = [l[1:] for l in body if l[:1] in (" ", "+")]
            pos = None
            guess = start - 1 + offset
            for d in sorted(range(-fuzz, fuzz + 1), key=abs):
                i = guess + d
                if 0 <= i <= len(lines) - len(old) and lines[i:i + len(old)] == old:
                    pos = i
                    break
            if pos is None:
                raise PatchError(f"hunk at line {start} of {path} does not apply")
            lines[pos:pos + len(old)] = new
            offset += len(new) - len(old) + (pos - guess)
        out[path] = "\n".join(lines)
    return out
