"""Obligations, rule registry, known-findings matching, evidence writing."""

from __future__ import annotations

import json
import os
import re
import time
from typing import Callable, Dict, Iterable, List, Optional, Sequence, Set, Tuple

from .model import AnalysisError, Program

VERIF = os.path.dirname(os.path.dirname(os.path.abspath(__file__)))
KNOWN_FILE = os.path.join(VERIF, "known_findings.txt")


class Ob:
    """One obligation a rule had on one construct, with its verdict."""

    __slots__ = ("rule", "props", "key", "ok", "msg", "loc", "detail", "nontrivial")

    def __init__(self, rule: str, props: Sequence[str], key: str, ok: bool, msg: str,
                 loc: str = "", detail: Optional[dict] = None, nontrivial: bool = True):
        self.rule = rule
        self.props = tuple(props)
        self.key = re.sub(r"\s+", " ", key).strip()
        self.ok = ok
        self.msg = msg
        self.loc = loc
        self.detail = detail or {}
        self.nontrivial = nontrivial

    def as_dict(self) -> dict:
        d = {"rule": self.rule, "construct": self.key, "verdict": "ok" if self.ok else "VIOLATION",
             "what": self.msg, "where": self.loc}
        if self.detail:
            d["detail"] = self.detail
        return d


class Rule:
    def __init__(self, rid: str, props: Sequence[str], fn: Callable, min_instances: int,
                 doc: str, design: str):
        self.id = rid
        self.props = tuple(props)
        self.fn = fn
        self.min_instances = min_instances
        self.doc = doc
        self.design = design


RULES: Dict[str, Rule] = {}


def rule(rid: str, props: Sequence[str], min_instances: int = 1, design: str = ""):
    """Register a rule. It yields Ob objects; fewer than min_instances
    obligations means the anchor vanished -> AnalysisError (exit 2)."""

    def deco(fn: Callable) -> Callable:
        RULES[rid] = Rule(rid, props, fn, min_instances, (fn.__doc__ or "").strip(), design)
        return fn

    return deco


def rules_for(prop: str) -> List[Rule]:
    return [r for r in RULES.values() if prop in r.props]


def run_rule(r: Rule, ctx, prop: Optional[str] = None) -> List[Ob]:
    obs = list(r.fn(ctx))
    if len(obs) < r.min_instances:
        raise AnalysisError(
            r.id, f"expected>={r.min_instances} instances, found={len(obs)} "
                  f"(anchor vanished or construct not recognised)")
    if prop is not None:
        obs = [o for o in obs if prop in o.props]
    return obs


# ------------------------------------------------------------ known findings
class Known:
    def __init__(self, path: str = KNOWN_FILE):
        self.findings: List[Tuple[str, str, str, str]] = []  # prop, rule, key, what
        self.fixed: List[str] = []
        if os.path.exists(path):
            with open(path, encoding="utf-8") as fh:
                for line in fh:
                    line = line.rstrip("\n")
                    if not line.strip() or line.lstrip().startswith("#"):
                        continue
                    if line.startswith("fixed:"):
                        self.fixed.append(line)
                        continue
                    m = re.match(r"finding:\s+property=(\S+)\s+rule=(\S+)\s+key=(.*?)\s+::\s+(.*)$", line)
                    if m:
                        self.findings.append((m.group(1), m.group(2),
                                              re.sub(r"\s+", " ", m.group(3)).strip(), m.group(4)))

    def match(self, prop: str, ob: Ob) -> Optional[str]:
        for p, r, k, what in self.findings:
            if p == prop and r == ob.rule and k == ob.key:
                return what
        return None

    def listed(self, prop: str) -> List[Tuple[str, str, str, str]]:
        return [f for f in self.findings if f[0] == prop]


# ------------------------------------------------------------------ evidence
def write_evidence(prop: str, tier: str, seed: int, obs: List[Ob], extra: dict,
                   wall: float, violations: int, explanation: str, assumptions: List[str],
                   path: Optional[str] = None) -> str:
    path = path or os.path.join(VERIF, "evidence", f"{prop}.json")
    os.makedirs(os.path.dirname(path), exist_ok=True)
    distinct = {(o.rule, o.key) for o in obs if o.nontrivial}
    samples = []
    seen_rules: Set[str] = set()
    for o in obs:
        if o.rule not in seen_rules or not o.ok:
            samples.append(o.as_dict())
            seen_rules.add(o.rule)
    for o in obs:
        if len(samples) >= 40:
            break
        d = o.as_dict()
        if d not in samples:
            samples.append(d)
    cov = {
        "explanation": explanation,
        "evaluations": len(obs),
        "distinct_nontrivial": len(distinct),
        "rule": "one evaluation = one rule applied to one construct (call site, loop path, "
                "handler, field, branch) of /repo's current source; distinct = distinct "
                "(rule, construct-key) pairs; non-trivial = the rule had a real obligation on "
                "that construct (not a vacuous match)",
        "obligations": len(obs),
        "discharged": sum(1 for o in obs if o.ok),
        "samples": samples[:40],
        "exhaustive": True,
    }
    cov.update(extra)
    ev = {
        "property_id": prop,
        "tier": tier,
        "seed": seed,
        "level": "other",
        "coverage": cov,
        "assumptions": assumptions,
        "wall_s": round(wall, 3),
        "violations": violations,
    }
    tmp = path + ".tmp"
    with open(tmp, "w", encoding="utf-8") as fh:
        json.dump(ev, fh, indent=1, sort_keys=False)
        fh.write("\n")
    os.replace(tmp, path)
    return path
