"""Light-weight type inference and callee resolution for the package.

Types are class names of the package (strings) or None.  Calls resolve to a
list of targets: Func objects of the package (through declared attribute
types + class-hierarchy analysis, decorator composition, nested functions) or
external descriptors ('ext', dotted-name) / unknown-receiver method calls
('meth', name).
"""

from __future__ import annotations

import ast
from typing import Dict, List, Optional, Tuple, Union

from .model import Func, Program, attr_chain, norm, walk_local, parent

Target = Union[Func, Tuple[str, str]]

# classes whose `self` the module-level decorator wrappers of database.py see
DECORATOR_SELF = "TinyFlux"


class Resolver:
    def __init__(self, prog: Program):
        self.p = prog
        self._local_types: Dict[Tuple[int, str], Optional[str]] = {}
        self.unresolved: List[Tuple[str, str]] = []
        self.resolved = 0

    # ------------------------------------------------------------- types
    def ann_type(self, ann: Optional[ast.AST]) -> Optional[str]:
        if ann is None:
            return None
        if isinstance(ann, ast.Constant) and isinstance(ann.value, str):
            name = ann.value.strip("'\"")
            return name if name in self.p.classes else None
        if isinstance(ann, ast.Name):
            return ann.id if ann.id in self.p.classes else None
        if isinstance(ann, ast.Subscript):
            base = norm(ann.value)
            if base in ("Optional", "typing.Optional"):
                return self.ann_type(ann.slice)
            if base in ("Union",):
                sl = ann.slice
                elts = sl.elts if isinstance(sl, ast.Tuple) else [sl]
                ts = {self.ann_type(e) for e in elts} - {None}
                return ts.pop() if len(ts) == 1 else None
        return None

    def self_class(self, f: Func) -> Optional[str]:
        """Class of the name `self` inside f (looking through closures)."""
        g: Optional[Func] = f
        while g is not None:
            if g.cls is not None:
                ps = g.params()
                if ps and ps[0] == "self":
                    return g.cls
            if g.cls is None and g.parent is not None and g.parent.parent is None \
                    and g.parent.cls is None and g.module == "database":
                ps = g.params()
                if ps and ps[0] == "self" and "method" in g.parent.params():
                    return DECORATOR_SELF
            g = g.parent
        return None

    def attr_type(self, cls: str, attr: str) -> Optional[str]:
        for c in self.p.mro(cls):
            ci = self.p.classes[c]
            if attr in ci.annotations:
                t = self.ann_type(ci.annotations[attr])
                if t:
                    return t
            m = ci.methods.get(attr)
            if m is not None and m.kind == "getter":
                t = self.ann_type(m.node.returns)
                if t:
                    return t
            init = ci.methods.get("__init__")
            if init is not None:
                for n in walk_local(init.node):
                    if isinstance(n, ast.Assign):
                        for tg in n.targets:
                            if (isinstance(tg, ast.Attribute) and isinstance(tg.value, ast.Name)
                                    and tg.value.id == "self" and tg.attr == attr):
                                t = self.type_of(n.value, init)
                                if t:
                                    return t
                    if isinstance(n, ast.AnnAssign) and isinstance(n.target, ast.Attribute):
                        tg = n.target
                        if isinstance(tg.value, ast.Name) and tg.value.id == "self" and tg.attr == attr:
                            t = self.ann_type(n.annotation)
                            if t:
                                return t
        return None

    def type_of(self, e: ast.AST, f: Func, depth: int = 0) -> Optional[str]:
        if depth > 6:
            return None
        if isinstance(e, ast.Name):
            if e.id == "self":
                return self.self_class(f)
            if e.id in self.p.classes:
                return None  # the class object itself
            return self.local_type(e.id, f, depth)
        if isinstance(e, ast.Attribute):
            t = self.type_of(e.value, f, depth + 1)
            if t:
                return self.attr_type(t, e.attr)
            return None
        if isinstance(e, ast.Call):
            fn = e.func
            if isinstance(fn, ast.Name) and fn.id in self.p.classes:
                return fn.id
            for tg in self.resolve_call(e, f, quiet=True):
                if isinstance(tg, Func) and not isinstance(tg.node, ast.Lambda):
                    t = self.ann_type(tg.node.returns)
                    if t:
                        return t
            return None
        if isinstance(e, ast.BinOp):
            lt = self.type_of(e.left, f, depth + 1)
            if lt:
                dn = {ast.BitAnd: "__and__", ast.BitOr: "__or__"}.get(type(e.op))
                if dn:
                    m = self.p.lookup_method(lt, dn)
                    if m is not None:
                        return self.ann_type(m.node.returns)
            return None
        if isinstance(e, ast.UnaryOp) and isinstance(e.op, ast.Invert):
            lt = self.type_of(e.operand, f, depth + 1)
            if lt:
                m = self.p.lookup_method(lt, "__invert__")
                if m is not None:
                    return self.ann_type(m.node.returns)
        return None

    def local_type(self, name: str, f: Func, depth: int = 0) -> Optional[str]:
        key = (id(f), name)
        if key in self._local_types:
            return self._local_types[key]
        self._local_types[key] = None
        t: Optional[str] = None
        g: Optional[Func] = f
        while g is not None and t is None:
            if name in g.params():
                t = self.ann_type(g.param_annotation(name))
                break
            found = False
            for n in walk_local(g.node):
                if isinstance(n, ast.Assign):
                    for tg in n.targets:
                        if isinstance(tg, ast.Name) and tg.id == name:
                            found = True
                            t = t or self.type_of(n.value, g, depth + 1)
                elif isinstance(n, ast.AnnAssign) and isinstance(n.target, ast.Name) \
                        and n.target.id == name:
                    found = True
                    t = t or self.ann_type(n.annotation)
            if found:
                break
            g = g.parent
        if t is None:
            # isinstance(name, Cls) gate anywhere in the function
            for n in walk_local(f.node):
                if isinstance(n, ast.Call) and isinstance(n.func, ast.Name) and n.func.id == "isinstance" \
                        and len(n.args) == 2 and isinstance(n.args[0], ast.Name) and n.args[0].id == name \
                        and isinstance(n.args[1], ast.Name) and n.args[1].id in self.p.classes:
                    t = n.args[1].id
                    break
        self._local_types[key] = t
        return t

    # ------------------------------------------------------------- calls
    def decorated_chain(self, m: Func) -> List[Func]:
        """[outermost wrapper op, ..., m] for a method with package decorators."""
        chain: List[Func] = []
        if isinstance(m.node, ast.Lambda):
            return [m]
        for d in m.node.decorator_list:
            if isinstance(d, ast.Name) and d.id in self.p.funcs:
                dec = self.p.funcs[d.id]
                inner = [g for g in self.p.nested(dec) if not isinstance(g.node, ast.Lambda)]
                if len(inner) == 1:
                    chain.append(inner[0])
        chain.append(m)
        return chain

    def _methods(self, cls: str, name: str, cha: bool = True) -> List[Func]:
        out: List[Func] = []
        m = self.p.lookup_method(cls, name)
        if m is not None:
            out.append(m)
        if cha:
            for sub in self.p.subclasses(cls, strict=True):
                sm = self.p.classes[sub].methods.get(name)
                if sm is not None and sm not in out:
                    out.append(sm)
        return out

    def resolve_name(self, name: str, f: Func) -> List[Target]:
        g: Optional[Func] = f
        while g is not None:
            for h in self.p.nested(g):
                if h.name == name and not isinstance(h.node, ast.Lambda):
                    return [h]
            if name in g.params():
                return [("param", f"{g.qual}:{name}")]
            g = g.parent
        # local variable bound to a nested def / call result
        if name in self.p.funcs and self.p.funcs[name].parent is None \
                and self.p.funcs[name].cls is None:
            return [self.p.funcs[name]]
        if name in self.p.classes:
            init = self.p.lookup_method(name, "__init__")
            return [init] if init is not None else [("ext", f"class:{name}")]
        imp = self.p.imports.get(f.module, {}).get(name)
        if imp:
            if ":" in imp:
                base, nm = imp.split(":")
                if base.startswith(".") or base.startswith("tinyflux"):
                    if nm in self.p.funcs:
                        return [self.p.funcs[nm]]
                    if nm in self.p.classes:
                        init = self.p.lookup_method(nm, "__init__")
                        return [init] if init is not None else [("ext", f"class:{nm}")]
                return [("ext", f"{base}.{nm}")]
            return [("ext", imp)]
        return [("ext", f"builtins.{name}")]

    def resolve_call(self, call: ast.Call, f: Func, quiet: bool = False) -> List[Target]:
        fn = call.func
        out: List[Target] = []
        if isinstance(fn, ast.Name):
            out = self.resolve_name(fn.id, f)
            # a local variable bound to the result of a package call that
            # returns a nested function (perform_update = self._generate_updater())
            if out and isinstance(out[0], tuple) and out[0][0] == "ext" \
                    and out[0][1].startswith("builtins."):
                closure = self._local_closure(fn.id, f)
                if closure:
                    out = list(closure)
        elif isinstance(fn, ast.Attribute):
            recv = fn.value
            # super().m()
            if isinstance(recv, ast.Call) and isinstance(recv.func, ast.Name) \
                    and recv.func.id == "super":
                cls = self.self_class(f)
                if cls:
                    for b in self.p.mro(cls)[1:]:
                        m = self.p.classes[b].methods.get(fn.attr)
                        if m is not None:
                            out = [m]
                            break
                    if not out:
                        out = [("ext", f"object.{fn.attr}")]
            else:
                t = self.type_of(recv, f)
                if t:
                    ms = self._methods(t, fn.attr)
                    if ms:
                        out = list(ms)
                    else:
                        # attribute holding a callable (stored callable)
                        out = [("attrcall", f"{t}.{fn.attr}")]
                else:
                    ch = attr_chain(fn)
                    if ch and len(ch) == 2:
                        imp = self.p.imports.get(f.module, {}).get(ch[0])
                        if imp and ":" not in imp:
                            out = [("ext", f"{imp}.{ch[1]}")]
                        elif imp:
                            out = [("ext", f"{imp.replace(':', '.')}.{ch[1]}")]
                    if not out:
                        out = [("meth", fn.attr)]
        else:
            out = [("dyn", norm(fn, 60))]
        if not quiet:
            if any(isinstance(t, Func) for t in out) or (out and out[0][0] in ("ext", "meth", "param", "attrcall")):
                self.resolved += 1
            else:
                self.unresolved.append((f.qual, norm(call, 80)))
        return out

    def _local_closure(self, name: str, f: Func) -> List[Func]:
        """name = <call of a package function returning a nested def> -> that def."""
        out: List[Func] = []
        for n in walk_local(f.node):
            if isinstance(n, ast.Assign) and isinstance(n.value, ast.Call):
                if any(isinstance(t, ast.Name) and t.id == name for t in n.targets):
                    for tg in self.resolve_call(n.value, f, quiet=True):
                        if isinstance(tg, Func):
                            for g in self.p.nested(tg):
                                # returned nested function
                                for r in walk_local(tg.node):
                                    if isinstance(r, ast.Return) and isinstance(r.value, ast.Name) \
                                            and r.value.id == g.name:
                                        out.append(g)
        return out

    def property_target(self, e: ast.Attribute, f: Func, store: bool = False) -> List[Func]:
        """Attribute read/write that lands on a @property getter/setter."""
        t = self.type_of(e.value, f)
        if not t:
            return []
        outs: List[Func] = []
        for c in [t] + self.p.subclasses(t, strict=True):
            m = self.p.lookup_setter(c, e.attr) if store else self.p.lookup_method(c, e.attr)
            if m is not None and m.kind in ("getter", "setter") and m not in outs:
                outs.append(m)
        return outs
