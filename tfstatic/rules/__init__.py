"""Rule modules; each registers its rules with tfstatic.report.rule."""
