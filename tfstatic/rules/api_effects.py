"""Effect containment of the public API (C15.R1, C15.R2) and the Measurement
facade (C10.R1, R3, R4, R5)."""

from __future__ import annotations

import ast
from typing import Dict, List, Optional, Set, Tuple

from ..astq import assignments_to, bind_args, call_name, names_in, occ, stmt_of, in_subtree, loop_vars, storage_loops
from ..effects import chain_str, names
from ..logic import entails, formula, guard_clauses, guards
from ..model import AnalysisError, Func, const_value, NOCONST, first_line, is_self_attr, norm, walk_local
from ..report import Ob, rule
from .storage_io import csv_cls, mem_cls, mode_table

GATES = {"write_op": "can_write", "append_op": "can_append", "read_op": "can_read"}
READ_FORBIDDEN_PREFIX = ("PRIMARY.write", "PRIMARY.truncate", "PRIMARY.open", "PRIMARY.close", "PRIMARY.rebind",
                         "FS.", "TEMP.", "MEM.", "TMEM.")


def public_methods(ctx, cls: str) -> List[Func]:
    out = []
    for m in ctx.prog.cls(cls).methods.values():
        if m.kind == "getter":
            continue
        if m.name.startswith("_") and not (m.name.startswith("__") and m.name.endswith("__")):
            continue
        if m.name in ("__init__",):
            continue
        out.append(m)
    return out


def mutating_effects(es: Set[str]) -> Set[str]:
    return {e for e in es if e.startswith(READ_FORBIDDEN_PREFIX)}


@rule("C15.R1", ["C15", "C06", "C01", "C07"], min_instances=25, design="3.15")
def read_apis_effect_free(ctx):
    """Public methods that are not write/append operations have no mutating file or memory effect."""
    csv = csv_cls(ctx)
    mem = mem_cls(ctx)
    for cls in ("TinyFlux", "Measurement"):
        for m in public_methods(ctx, cls):
            per = {}
            for st in (csv, mem):
                es = ctx.eff.api_summary(m, st)
                per[st] = {e: ch for e, ch in es}
            allfx = set(per[csv]) | set(per[mem])
            mut = mutating_effects(allfx)
            ch0 = ctx.res.decorated_chain(m)
            decos = {d for d in m.decorators}
            # a Measurement method is a mutator iff the TinyFlux method it forwards to is gated
            gated = bool(decos & {"write_op", "append_op"})
            if cls == "Measurement":
                for n in walk_local(m.node):
                    if isinstance(n, ast.Call):
                        for tg in ctx.res.resolve_call(n, m, quiet=True):
                            if isinstance(tg, Func) and tg.cls == "TinyFlux" and set(tg.decorators) & {"write_op", "append_op"}:
                                gated = True
            if m.name == "close" or m.name == "__exit__":
                continue
            if gated:
                continue
            msg = "no mutating effect"
            if mut:
                e = sorted(mut)[0]
                ch = per[csv].get(e) or per[mem].get(e)
                msg = f"read API has effect {sorted(mut)[:4]} via {chain_str(ch)}"
            stor = any(e.startswith(("MEM.", "PRIMARY.write", "PRIMARY.truncate", "FS.")) for e in mut)
            is_read = "read_op" in decos or (cls == "Measurement" and not m.name.startswith(("insert", "remove", "update", "drop")))
            yield Ob("C15.R1", ["C15"] + (["C06", "C01"] if stor else []) + (["C07"] if stor and is_read else []),
                     f"{m.qual} | read API effect set", not mut, msg, m.loc(),
                     {"effects": sorted(e for e in allfx if not e.startswith(("INDEX.", "USER.", "STORED.", "RAISE")))})


@rule("C15.R2", ["C15", "C11"], min_instances=8, design="3.15")
def mutators_are_gated(ctx):
    """Every public method with a mutating effect evaluates the raising access-mode gate before any effect, including creation of the temporary file."""
    csv = csv_cls(ctx)
    # (a) gate wrappers: the assert on the raising property dominates the wrapped call
    for dn, prop in GATES.items():
        dec = ctx.prog.func(dn, "C15.R2")
        ops = ctx.prog.nested(dec)
        if len(ops) != 1:
            raise AnalysisError("C15.R2", f"{dn}: wrapper not found")
        op = ops[0]
        g = ctx.cfg(op, exceptional=False)
        calls = [n for n in g.stmt_nodes() for c in n.calls() if isinstance(c.func, ast.Name) and c.func.id == "method"]

        def is_gate(x, prop=prop) -> bool:
            for e in x.walk():
                if isinstance(e, ast.Attribute) and e.attr == prop and norm(e.value).endswith("_storage"):
                    return True
            return False
        ok = bool(calls) and all(g.dominated(c.id, is_gate) for c in calls)
        yield Ob("C15.R2", ["C15"], f"{op.qual} | gate evaluates {prop} before the wrapped method", ok,
                 f"storage.{prop} is evaluated first" if ok else f"wrapped method can run without evaluating {prop}",
                 op.loc())
    # (b) mode tables
    attr, wm = mode_table(ctx, csv, "can_write")
    _, am = mode_table(ctx, csv, "can_append")
    _, rm = mode_table(ctx, csv, "can_read")
    bad = []
    if "r" in wm | am:
        bad.append("read-only mode 'r' admitted by a write/append gate")
    if not ({"r", "r+"} <= rm):
        bad.append(f"can_read admits {sorted(rm)}")
    if any(m.startswith("a") for m in wm):
        bad.append("append-only modes admitted by can_write (rewrite needs to read and replace)")
    if not wm <= am:
        bad.append(f"modes {sorted(wm - am)} can rewrite but not append")
    yield Ob("C15.R2", ["C15"], f"{csv} | access-mode tables", not bad,
             "; ".join(bad) if bad else f"write {sorted(wm)}, append {sorted(am)}, read {sorted(rm)}",
             ctx.prog.cls(csv).methods["can_write"].loc())
    # (c) every public mutator is gated, and the gate is outside temp_storage_op
    for m in public_methods(ctx, "TinyFlux"):
        es = set()
        for st in (csv, mem_cls(ctx)):
            es |= names(ctx.eff.api_summary(m, st))
        mut = mutating_effects(es) - {"PRIMARY.close"}
        if not mut or m.name in ("close", "__exit__"):
            continue
        decos = [norm(d) for d in m.node.decorator_list]
        bad = []
        rewrite = any(e.startswith(("FS.", "TEMP.", "PRIMARY.open", "MEM.rebind", "TMEM.")) for e in mut) or \
            ("PRIMARY.truncate" in es and "PRIMARY.seek0" in es and "PRIMARY.read" not in es) or \
            ("PRIMARY.truncate" in es and "PRIMARY.seek0" in es and "PRIMARY.seek_end" not in es)
        need = "write_op" if rewrite else "append_op"
        if need not in decos and not (need == "append_op" and "write_op" in decos):
            bad.append(f"mutating method (effects {sorted(mut)[:3]}) is not wrapped by {need}")
        if "temp_storage_op" in decos:
            gi = [decos.index(d) for d in ("write_op",) if d in decos]
            if not gi or gi[0] > decos.index("temp_storage_op"):
                bad.append("temp_storage_op runs before the write gate: a read-only database still creates a "
                           "temporary file before the gate raises")
        if any(e.startswith(("TEMP.", "TMEM.")) for e in mut) and "temp_storage_op" not in decos:
            bad.append("uses temporary storage without acquiring it (temp_storage_op missing)")
        yield Ob("C15.R2", ["C15"], f"{m.qual} | gated mutator | decorators {decos}", not bad,
                 "; ".join(bad) if bad else f"{need} gate precedes every effect", m.loc())


# ------------------------------------------------------------------- C10
SYNONYMS = {"keys": "select_keys"}
REROUTES = {"remove_all": "drop_measurement", "update_all": "update"}
FILTER_PARAMS = ("measurement", "_measurement", "name")


def delegations(ctx) -> List[Tuple[Func, ast.Call, Func]]:
    out = []
    for m in ctx.prog.cls("Measurement").methods.values():
        if m.kind == "getter":
            continue
        for n in walk_local(m.node):
            if isinstance(n, ast.Call) and isinstance(n.func, ast.Attribute) and is_self_attr(n.func.value, "_db"):
                tg = ctx.prog.lookup_method("TinyFlux", n.func.attr)
                if tg is not None:
                    out.append((m, n, tg))
    return out


@rule("C10.R1", ["C10", "C03", "C02"], min_instances=16, design="3.10")
def measurement_forwarding(ctx):
    """Each Measurement method forwards every argument to the same-named parameter of the same-named TinyFlux method and supplies its own name as the measurement filter."""
    ds = delegations(ctx)
    for m, c, tg in ds:
        bad = []
        want = REROUTES.get(m.name, m.name)
        if tg.name != want:
            bad.append(f"delegates to TinyFlux.{tg.name}, expected TinyFlux.{want}")
        bound, problems = bind_args(c, tg)
        bad += problems
        mparams = [p_ for p_ in m.params() if p_ != "self"]
        # filter parameter of the target
        fps = [p_ for p_ in tg.params() if p_ in FILTER_PARAMS]
        fp = None
        if tg.name == "update":
            fp = "_measurement"
        elif tg.name == "drop_measurement":
            fp = "name"
        elif "measurement" in tg.params():
            fp = "measurement"
        if fp is None:
            bad.append(f"TinyFlux.{tg.name} has no measurement-filter parameter")
        else:
            a = bound.get(fp)
            if a is None or norm(a) not in ("self._name", "self.name"):
                bad.append(f"measurement filter `{fp}` receives `{norm(a) if a is not None else 'nothing'}`, "
                           f"expected self._name")
        for p_, a in bound.items():
            if isinstance(a, ast.Name) and a.id in mparams:
                expect = SYNONYMS.get(a.id, a.id)
                if p_ != expect:
                    bad.append(f"argument `{a.id}` lands on parameter `{p_}` of TinyFlux.{tg.name}")
            elif norm(a) in ("self._name", "self.name"):
                if p_ != fp:
                    bad.append(f"self._name lands on parameter `{p_}`, not the filter `{fp}`")
            elif m.name == "update_all" and p_ == "query":
                if isinstance(a, ast.Name):
                    vals_ = assignments_to(m, a.id)
                    if len(vals_) == 1:
                        a = vals_[0]
                if not norm(a).endswith(".noop()"):
                    bad.append(f"update_all passes `{norm(a)}` as the query, expected an all-true noop query")
                elif "MeasurementQuery" not in norm(a):
                    bad.append(f"`{norm(a)}`: only the measurement leaf of the index is total for a noop query")
            else:
                bad.append(f"unexpected argument `{norm(a)}` for parameter `{p_}`")
        for p_ in mparams:
            if not any(isinstance(a, ast.Name) and a.id == p_ for a in bound.values()):
                bad.append(f"parameter `{p_}` of the handle's method is not forwarded")
        st = stmt_of(c)
        if not (isinstance(st, ast.Return) and st.value is c):
            bad.append("result of the database call is not returned unchanged")
        yield Ob("C10.R1", ["C10"] + (["C03"] if "update" in m.name else []) + (["C02"] if "remove" in m.name else []),
                 f"{m.qual} | forwards to TinyFlux.{tg.name}", not bad,
                 "; ".join(bad[:4]) if bad else f"{len(bound)} arguments bound; filter `{fp}` = self._name",
                 ctx.prog.loc(c))


@rule("C10.R3", ["C10", "C07"], min_instances=3, design="3.10")
def handle_filters_by_name(ctx):
    """Non-delegating Measurement methods use a row only when its measurement equals the handle's name."""
    mc = ctx.prog.cls("Measurement")
    for name in ("__iter__", "__len__"):
        m = mc.methods.get(name)
        if m is None:
            raise AnalysisError("C10.R3", f"Measurement.{name} not found")
        loops = storage_loops(ctx, m)
        comps = []
        storages_ = set(ctx.prog.subclasses("Storage"))
        for n in walk_local(m.node):
            if isinstance(n, (ast.GeneratorExp, ast.ListComp)) and len(n.generators) == 1 \
                    and ctx.res.type_of(n.generators[0].iter, m) in storages_:
                comps.append(n)
        for cpr in comps:
            gen = cpr.generators[0]
            item_ = norm(gen.target)
            dm_ = f"self._db._storage._deserialize_measurement({item_})"
            conds = {norm(c) for c in gen.ifs}
            ok_ = any(c in conds for c in (f"{dm_} == self._name", f"{dm_} == self.name", f"self._name == {dm_}",
                                            f"self.name == {dm_}"))
            extra_ = len(conds) > 1
            yield Ob("C10.R3", ["C10", "C07"], f"{m.qual} | scan filter (comprehension)", ok_ and not extra_,
                     "rows used only when their measurement equals the handle's name" if ok_ and not extra_ else
                     f"comprehension conditions {sorted(conds)} are not exactly `row's measurement == self._name`",
                     ctx.prog.loc(cpr))
        if not loops and not comps:
            raise AnalysisError("C10.R3", f"Measurement.{name}: no scan loop")
        for lp in loops:
            pos, item = loop_vars(lp)
            from .rewrite import make_subst
            subst = make_subst(m, scope=lp)
            uses = [n for n in walk_local(lp) if isinstance(n, (ast.Yield, ast.AugAssign))
                    or (isinstance(n, ast.Call) and call_name(n) in ("append", "add"))]
            bad = []
            if not uses:
                bad.append("loop publishes nothing")
            for u in uses:
                cl = guard_clauses(guards(u, stop=lp), subst)
                dm = f"self._db._storage._deserialize_measurement({item})"
                ok = False
                for nm in ("self._name", "self.name"):
                    x, y = sorted([dm, nm])
                    if any(len(c) == 1 and next(iter(c)) == (f"eq({x},{y})", True) for c in cl):
                        ok = True
                if not ok:
                    bad.append(f"`{norm(u, 50)}` is not conditional on the row's measurement == self._name")
                if isinstance(u, ast.Yield) and u.value is not None:
                    if norm(u.value) != f"self._db._storage._deserialize_storage_item({item})":
                        bad.append(f"yields `{norm(u.value, 50)}`, not the point of the same row")
            yield Ob("C10.R3", ["C10", "C07"], f"{m.qual} | scan filter", not bad,
                     "; ".join(bad) if bad else "rows used only when their measurement equals the handle's name",
                     ctx.prog.loc(lp))
        # index branch reads only this measurement's positions
        for n in walk_local(m.node):
            if isinstance(n, ast.Subscript) and norm(n.value).endswith("._measurements"):
                ok = norm(n.slice) in ("self.name", "self._name")
                yield Ob("C10.R3", ["C10", "C07"], f"{m.qual} | index branch key | {norm(n, 70)}", ok,
                         "reads the position list of its own name" if ok else
                         f"reads the positions of `{norm(n.slice)}`", ctx.prog.loc(n))
    al = mc.methods.get("all")
    if al is None:
        raise AnalysisError("C10.R3", "Measurement.all not found")
    src = [n for n in walk_local(al.node) if isinstance(n, ast.Call) and norm(n) in ("list(iter(self))", "list(self)")]
    comp = [n for n in walk_local(al.node) if isinstance(n, ast.ListComp) and norm(n.generators[0].iter) in ("self", "iter(self)")
            and not n.generators[0].ifs and norm(n.elt) == norm(n.generators[0].target)]
    ok = bool(src or comp)
    yield Ob("C10.R3", ["C10", "C07"], f"{al.qual} | built from the filtered iterator", ok,
             "all() collects iter(self)" if ok else "all() does not collect the handle's own iterator", al.loc())


@rule("C10.R4", ["C10", "C14"], min_instances=1, design="3.10")
def handles_are_stateless(ctx):
    """Measurement assigns self.* only in __init__, and only its name and database reference."""
    mc = ctx.prog.cls("Measurement")
    bad = []
    for m in ctx.prog.methods_of("Measurement"):
        for n in walk_local(m.node):
            if isinstance(n, (ast.Assign, ast.AugAssign, ast.AnnAssign)):
                ts = n.targets if isinstance(n, ast.Assign) else [n.target]
                for t in ts:
                    base = t
                    while isinstance(base, ast.Subscript):
                        base = base.value
                    if is_self_attr(base):
                        if m.name != "__init__":
                            bad.append(f"{m.qual} assigns self.{base.attr}")
                        elif not (isinstance(n, ast.Assign) and isinstance(n.value, ast.Name)
                                  and n.value.id in m.params()):
                            bad.append(f"__init__ stores `{norm(n.value, 40)}` in self.{base.attr} (cached state)")
    yield Ob("C10.R4", ["C10", "C14"], "Measurement | no cached state", not bad,
             "; ".join(bad) if bad else "a handle holds only its name and the database reference, so it cannot go stale",
             mc.methods["__init__"].loc())
    # the registry of handles is cleared when a measurement is dropped
    dm = ctx.prog.func("TinyFlux.measurement", "C10.R4")
    names_ok = any(isinstance(n, ast.Call) and isinstance(n.func, ast.Name) and n.func.id == "Measurement" and n.args
                   and norm(n.args[0]) == "name" and len(n.args) > 1 and norm(n.args[1]) == "self"
                   for n in walk_local(dm.node))
    yield Ob("C10.R4", ["C10"], f"{dm.qual} | constructs Measurement(name, self)", names_ok,
             "handle bound to the requested name and this database" if names_ok else
             "handle is not constructed as Measurement(name, self)", dm.loc())


@rule("C10.R5", ["C10"], min_instances=1, design="3.10")
def filter_presence_tests(ctx):
    """The measurement filter is tested for presence with `is None`, not by truthiness ("" is a valid measurement name)."""
    from .scan import filtered_methods
    seen = 0
    fms = [(f, fp) for f, fp in filtered_methods(ctx)]
    for m in ctx.prog.cls("Index").methods.values():
        if "measurement" in m.params():
            ann = m.param_annotation("measurement")
            if ann is not None and "Optional[str]" in norm(ann):
                fms.append((m, "measurement"))
    offenders = []
    n_funcs = 0
    for f, fp in fms:
        sites = []
        for n in walk_local(f.node):
            cond = None
            if isinstance(n, (ast.If, ast.While, ast.IfExp)):
                cond = n.test
            if cond is None:
                continue
            for x in ast.walk(cond):
                if isinstance(x, ast.Name) and x.id == fp:
                    par = getattr(x, "_parent", None)
                    truthy = isinstance(par, (ast.BoolOp, ast.If, ast.While, ast.IfExp)) or (
                        isinstance(par, ast.UnaryOp) and isinstance(par.op, ast.Not))
                    if truthy:
                        sites.append(n)
        n_funcs += 1
        if sites:
            offenders.append(f"{f.qual}({len(sites)})")
    if n_funcs < 12:
        raise AnalysisError("C10.R5", f"expected >=12 functions with a measurement filter, found {n_funcs}")
    # one construct: the failing input is the measurement name "" wherever the filter is tested
    yield Ob("C10.R5", ["C10"], "measurement filter | presence decided by truthiness", not offenders,
             "filter presence is decided by `is None` everywhere" if not offenders else
             f"the filter parameter is tested by truthiness in {len(offenders)} function(s) "
             f"({', '.join(offenders[:6])}{', ...' if len(offenders) > 6 else ''}): the handle for the measurement \"\" "
             f"is treated as `no filter` and sees every point", "tinyflux/database.py:0",
             {"functions": offenders})
