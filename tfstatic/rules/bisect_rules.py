"""C18 (and the C01 off-by-one surface): bisect recipe conformance.

The five helpers are abstractly evaluated over the finite set of boundary
situations {i == 0?} x {i == len(a)?} x {a[i] == x?}; with i defined by
bisect_left (L) or bisect_right (R) the documented result has a closed form
(standard-library contract a[:L] < x <= a[L:], a[:R] <= x < a[R:]).  No
tinyflux code runs: the bodies are interpreted as decision trees over these
three atoms.
"""

from __future__ import annotations

import ast
import itertools
from typing import Dict, List, Optional, Tuple

from ..model import AnalysisError, Func, clone_expr, norm, walk_local
from ..report import Ob, rule

# spec: helper -> (bisect variant, result as function of abstract state)
#   state = (z: i == 0, e: i == n, m: a[i] == x (None if e))
SPEC = {
    "find_eq": ("left", lambda z, e, m: "i" if (not e and m) else "None"),
    "find_lt": ("left", lambda z, e, m: "i-1" if not z else "None"),
    "find_le": ("right", lambda z, e, m: "i-1" if not z else "None"),
    "find_gt": ("right", lambda z, e, m: "i" if not e else "None"),
    "find_ge": ("left", lambda z, e, m: "i" if not e else "None"),
}


class _Outside(Exception):
    pass


class _IndexErr(Exception):
    pass


def _states(variant: str):
    """Consistent abstract states.  With bisect_right, a[i] > x whenever i < n,
    so a[i] == x is impossible; with bisect_left both are possible."""
    for z, e in itertools.product([True, False], repeat=2):
        if e:
            yield (z, e, None)
        else:
            if variant == "left":
                yield (z, e, True)
            yield (z, e, False)


CTX_IMPORTS: Dict[str, Dict[str, str]] = {}
CTX_DEFS: set = set()


class _Deviation(Exception):
    """The body leaves the recipe family in a way that is itself a defect."""


BISECT_NAMES = ("bisect.bisect_left", "bisect_left", "bisect.bisect_right", "bisect_right", "bisect.bisect", "bisect")


# ---------------------------------------------------------------- relational abstract evaluation
# A sorted list and a probe are abstracted by three counts: cl entries below the probe, ce entries
# equal to it, cg entries above it, each in {0, 1, 2, 3, 4, 5+}.  bisect_left = cl, bisect_right = cl + ce,
# len = cl + ce + cg.  Integer values are linear forms over (cl, ce, cg); comparisons are decided by
# interval reasoning inside one abstract situation, list reads by locating the position in the three
# segments.  Nothing is executed: the helper's body is interpreted over these forms.
CLASSES = [(0, 0), (1, 1), (2, 2), (3, 3), (4, 4), (5, None)]      # (lo, hi); hi None = unbounded
LOOP_CAP = 16


class Lin:
    __slots__ = ("c", "k")

    def __init__(self, c=(0, 0, 0), k=0):
        self.c = tuple(c)
        self.k = k

    def __add__(self, o):
        return Lin([a + b for a, b in zip(self.c, o.c)], self.k + o.k)

    def __sub__(self, o):
        return Lin([a - b for a, b in zip(self.c, o.c)], self.k - o.k)

    def scale(self, m):
        return Lin([a * m for a in self.c], self.k * m)

    def is_zero(self):
        return not any(self.c) and self.k == 0

    def text(self):
        names = ("L", "E", "G")
        parts = [f"{'' if a == 1 else a}{n_}" for a, n_ in zip(self.c, names) if a]
        if self.k or not parts:
            parts.append(str(self.k))
        return "+".join(parts).replace("+-", "-")


L_ = Lin((1, 0, 0))
R_ = Lin((1, 1, 0))
N_ = Lin((1, 1, 1))


def _bounds2(v: Lin, sit):
    """(min, max) of the linear form in the situation; None = unbounded."""
    lo, hi = v.k, v.k
    lo_inf = hi_inf = False
    for a, (l, h) in zip(v.c, sit):
        if a == 0:
            continue
        if a > 0:
            lo += a * l
            if h is None:
                hi_inf = True
            else:
                hi += a * h
        else:
            hi += a * l
            if h is None:
                lo_inf = True
            else:
                lo += a * h
    return (None if lo_inf else lo), (None if hi_inf else hi)


class _Undet(Exception):
    pass


def _sign(v: Lin, sit) -> int:
    """-1 / 0 / +1 if the form is negative / zero / positive throughout the situation."""
    lo, hi = _bounds2(v, sit)
    if lo is not None and hi is not None and lo == hi == 0:
        return 0
    if lo is not None and lo > 0:
        return 1
    if hi is not None and hi < 0:
        return -1
    raise _Undet()


def _cmp(op, a: Lin, b: Lin, sit) -> bool:
    d = a - b
    lo, hi = _bounds2(d, sit)

    if isinstance(op, ast.Eq):
        if lo is not None and hi is not None and lo == hi == 0:
            return True
        if (lo is not None and lo > 0) or (hi is not None and hi < 0):
            return False
        raise _Undet()
    if isinstance(op, ast.NotEq):
        return not _cmp(ast.Eq(), a, b, sit)
    if isinstance(op, ast.Lt):
        if hi is not None and hi < 0:
            return True
        if lo is not None and lo >= 0:
            return False
        raise _Undet()
    if isinstance(op, ast.LtE):
        if hi is not None and hi <= 0:
            return True
        if lo is not None and lo > 0:
            return False
        raise _Undet()
    if isinstance(op, ast.Gt):
        return _cmp(ast.Lt(), b, a, sit)
    if isinstance(op, ast.GtE):
        return _cmp(ast.LtE(), b, a, sit)
    raise _Outside("comparison operator outside the normal form")


def _segment(pos: Lin, sit) -> str:
    """'lt' / 'eq' / 'gt' segment of the list position, or IndexError."""
    if not any(pos.c) and pos.k < 0:
        pos = pos + N_            # a[-k]
    if _cmp(ast.Lt(), pos, Lin(), sit) or _cmp(ast.GtE(), pos, N_, sit):
        raise _IndexErr()
    if _cmp(ast.Lt(), pos, L_, sit):
        return "lt"
    if _cmp(ast.Lt(), pos, R_, sit):
        return "eq"
    return "gt"


class _Break(Exception):
    pass


class _NeedAtom(Exception):
    def __init__(self, key):
        self.key = key


def _probe_only(e: ast.Compare, x: str) -> bool:
    parts = [e.left] + list(e.comparators)
    names = {n.id for p_ in parts for n in ast.walk(p_) if isinstance(n, ast.Name)}
    return names == {x} and not any(isinstance(n, (ast.Subscript, ast.Call)) for p_ in parts for n in ast.walk(p_)) \
        and not any(isinstance(o, (ast.Is, ast.IsNot)) for o in e.ops)


def _rel_eval(f: Func, a: str, x: str, body: List[ast.stmt]):
    """{situation: result text} of the helper body under the relational abstraction."""
    def num(e: ast.AST, env, sit) -> Lin:
        if isinstance(e, ast.Constant) and isinstance(e.value, int) and not isinstance(e.value, bool):
            return Lin(k=e.value)
        if isinstance(e, ast.Name) and e.id in env:
            v = env[e.id]
            if not isinstance(v, Lin):
                raise _Outside(f"`{e.id}` is not an integer here")
            return v
        if isinstance(e, ast.UnaryOp) and isinstance(e.op, ast.USub):
            return num(e.operand, env, sit).scale(-1)
        if isinstance(e, ast.BinOp) and isinstance(e.op, (ast.Add, ast.Sub)):
            l, r = num(e.left, env, sit), num(e.right, env, sit)
            return l + r if isinstance(e.op, ast.Add) else l - r
        if isinstance(e, ast.Call):
            fn = norm(e.func)
            if fn == "len" and len(e.args) == 1 and norm(e.args[0]) == a:
                return N_
            if fn in BISECT_NAMES:
                return L_ if fn.endswith("bisect_left") else R_
        raise _Outside(f"integer expression outside the normal form: {norm(e)}")

    def elem(e: ast.AST, env, sit) -> Optional[str]:
        if isinstance(e, ast.Subscript) and norm(e.value) == a:
            return _segment(num(e.slice, env, sit), sit)
        if norm(e) == x:
            return "probe"
        return None

    def cond(e: ast.AST, env, sit, xt) -> bool:
        if isinstance(e, ast.BoolOp):
            if isinstance(e.op, ast.And):
                return all(cond(v, env, sit, xt) for v in e.values)
            return any(cond(v, env, sit, xt) for v in e.values)
        if isinstance(e, ast.UnaryOp) and isinstance(e.op, ast.Not):
            return not cond(e.operand, env, sit, xt)
        if isinstance(e, ast.Name) and e.id == a:
            return _cmp(ast.Gt(), N_, Lin(), sit)
        if isinstance(e, ast.Name) and e.id == x:
            return xt["truthy"]
        if isinstance(e, ast.Compare) and len(e.ops) == 1 and _probe_only(e, x):
            # a test of the probe's own value (x < 0, x == 0, ...): nothing the list/probe situation
            # decides, so both outcomes are explored
            key = norm(e)
            if key == f"{x} == 0" or key == f"0 == {x}":
                return not xt["truthy"]
            if key == f"{x} != 0" or key == f"0 != {x}":
                return xt["truthy"]
            if key not in xt:
                raise _NeedAtom(key)
            return xt[key]
        if isinstance(e, ast.Compare) and len(e.ops) == 1:
            op, l, r = e.ops[0], e.left, e.comparators[0]
            if isinstance(op, (ast.Is, ast.IsNot)) and isinstance(r, ast.Constant) and r.value is None:
                if isinstance(l, ast.Name) and l.id in env:
                    isnone = env[l.id] is None
                    return isnone if isinstance(op, ast.Is) else not isnone
                if norm(l) == x:
                    return isinstance(op, ast.IsNot)
            le, re_ = elem(l, env, sit), elem(r, env, sit)
            if le is not None and re_ is not None and {le, re_} != {"probe"}:
                # element vs probe (or element vs element): order of the segments
                rank = {"lt": 0, "eq": 1, "probe": 1, "gt": 2}
                return _cmp(op, Lin(k=rank[le]), Lin(k=rank[re_]), sit) if le != re_ or le in ("eq", "probe") else _same_seg(op)
            if le is None and re_ is None:
                if isinstance(l, ast.Name) and l.id in env and env[l.id] is None or isinstance(r, ast.Name) and r.id in env and env[r.id] is None:
                    raise _Outside("comparison with a None-valued local")
                return _cmp(op, num(l, env, sit), num(r, env, sit), sit)
        if isinstance(e, ast.Name) and e.id in env and isinstance(env[e.id], Lin):
            return _cmp(ast.NotEq(), env[e.id], Lin(), sit)
        calls_ = [c_ for c_ in ast.walk(e) if isinstance(c_, ast.Call) and norm(c_.func) != "len"
                  and norm(c_.func) not in BISECT_NAMES]
        if calls_ and any(isinstance(s_, ast.Subscript) for s_ in ast.walk(e)):
            raise _Deviation(f"the boundary test `{norm(e)}` hands a list element to `{norm(calls_[0].func)}` instead of "
                             f"comparing it with the probe exactly: positions whose value is not equal to the probe can be "
                             f"reported as matches")
        raise _Outside(f"condition outside the normal form: {norm(e)}")

    def _same_seg(op) -> bool:
        # two elements of the same strict segment: their order is unknown
        raise _Undet()

    def value(e: Optional[ast.AST], env, sit, xt):
        if e is None or (isinstance(e, ast.Constant) and e.value is None):
            return None
        if isinstance(e, ast.IfExp):
            return value(e.body, env, sit, xt) if cond(e.test, env, sit, xt) else value(e.orelse, env, sit, xt)
        if isinstance(e, ast.Name) and e.id in env and env[e.id] is None:
            return None
        if isinstance(e, ast.Call) and isinstance(e.func, ast.Name) and e.func.id in SPEC and e.func.id != f.name \
                and len(e.args) == 2 and norm(e.args[0]) == a and norm(e.args[1]) == x and not e.keywords:
            return _spec_value(e.func.id, sit)   # the sibling is judged by its own obligation
        return num(e, env, sit)

    class _Ret(Exception):
        def __init__(self, v):
            self.v = v

    def run(stmts, env, sit, xt):
        for s in stmts:
            if isinstance(s, ast.If):
                run(s.body if cond(s.test, env, sit, xt) else s.orelse, env, sit, xt)
            elif isinstance(s, ast.Return):
                raise _Ret(value(s.value, env, sit, xt))
            elif isinstance(s, (ast.Pass,)) or (isinstance(s, ast.Expr) and isinstance(s.value, ast.Constant)):
                continue
            elif isinstance(s, ast.Assign) and len(s.targets) == 1 and isinstance(s.targets[0], ast.Name):
                env[s.targets[0].id] = value(s.value, env, sit, xt)
            elif isinstance(s, ast.AnnAssign) and isinstance(s.target, ast.Name) and s.value is not None:
                env[s.target.id] = value(s.value, env, sit, xt)
            elif isinstance(s, ast.AugAssign) and isinstance(s.target, ast.Name) and isinstance(s.op, ast.Mult) \
                    and isinstance(s.value, ast.Constant) and isinstance(s.value.value, int) \
                    and isinstance(env.get(s.target.id), Lin):
                env[s.target.id] = env[s.target.id].scale(s.value.value)
            elif isinstance(s, ast.AugAssign) and isinstance(s.target, ast.Name) and isinstance(s.op, (ast.Add, ast.Sub)):
                cur = env.get(s.target.id)
                if not isinstance(cur, Lin):
                    raise _Outside(f"`{norm(s)}` on a non-integer")
                d = num(s.value, env, sit)
                env[s.target.id] = cur + d if isinstance(s.op, ast.Add) else cur - d
            elif isinstance(s, ast.Raise):
                raise _Ret("raise")
            elif isinstance(s, ast.While) and not s.orelse:
                n_it = 0
                while cond(s.test, env, sit, xt):
                    n_it += 1
                    if n_it > LOOP_CAP:
                        raise _Undet()
                    try:
                        run(s.body, env, sit, xt)
                    except _Break:
                        break
            elif isinstance(s, ast.Break):
                raise _Break()
            else:
                raise _Outside(f"statement outside the normal form: {norm(s)}")

    results = {}
    for sit in itertools.product(CLASSES, repeat=3):
        outs = []
        pending = [{"truthy": True}, {"truthy": False}]
        while pending:
            xt = pending.pop()
            if len(xt) > 6:
                raise _Outside("too many tests of the probe's own value")
            try:
                run(body, {}, sit, xt)
                r = None
            except _NeedAtom as na:
                for val in (True, False):
                    x2 = dict(xt)
                    x2[na.key] = val
                    pending.append(x2)
                continue
            except _Ret as ret:
                r = ret.v
            except _IndexErr:
                r = "IndexError"
            except _Undet:
                r = "undetermined"
            outs.append(r)
        results[sit] = outs
    return results


def _spec_value(name: str, sit):
    (ll, _), (el, _), (gl, _) = sit
    if name == "find_eq":
        return L_ if el >= 1 else None
    if name == "find_lt":
        return L_ - Lin(k=1) if ll >= 1 else None
    if name == "find_le":
        return R_ - Lin(k=1) if ll + el >= 1 else None
    if name == "find_gt":
        return R_ if gl >= 1 else None
    if name == "find_ge":
        return L_ if el + gl >= 1 else None
    raise KeyError(name)


def _sit_text(sit) -> str:
    def c(t):
        return f"{t[0]}" + ("+" if t[1] is None else "")
    return f"{c(sit[0])} below, {c(sit[1])} equal, {c(sit[2])} above"


def _eval_fn(f: Func, spec_variant: str):
    node = f.node
    params = f.params()
    if len(params) < 2:
        raise _Outside("expects (sorted_list, x)")
    a, x = params[0], params[1]
    body = [s for s in node.body if not (isinstance(s, ast.Expr) and isinstance(s.value, ast.Constant))]
    # every search primitive must be handed the caller's list and the caller's probe, full range
    bis = [n for n in walk_local(node) if isinstance(n, ast.Call) and norm(n.func) in BISECT_NAMES]
    deleg = [n for n in walk_local(node) if isinstance(n, ast.Call) and isinstance(n.func, ast.Name)
             and n.func.id in SPEC and n.func.id != f.name]
    for c in bis + deleg:
        if not c.args or norm(c.args[0]) != a:
            raise _Deviation(f"`{norm(c, 60)}` does not search the caller's list")
        if len(c.args) < 2 or norm(c.args[1]) != x:
            raise _Deviation(f"`{norm(c, 60)}` searches for `{norm(c.args[1]) if len(c.args) > 1 else '?'}`, not for the "
                             f"caller's probe `{x}`: boundaries between adjacent values move")
        if len(c.args) > 2 or c.keywords:
            raise _Deviation(f"`{norm(c, 60)}` restricts the search window (lo/hi/key): the documented boundary is "
                             f"defined over the whole list")
    for c in walk_local(node):
        if isinstance(c, ast.Compare) and any(isinstance(o, (ast.Is, ast.IsNot)) for o in c.ops) \
                and not any(isinstance(x, ast.Constant) and x.value is None for x in [c.left] + c.comparators):
            raise _Deviation(f"`{norm(c)}` compares integers by identity: equal positions are distinct objects beyond "
                             f"the small-int cache (lists longer than 256 entries)")
        if isinstance(c, (ast.Global, ast.Nonlocal)):
            raise _Deviation(f"`{norm(c)}`: the result depends on state outside (list, probe)")
    local_names = set(params) | {n_.id for n_ in walk_local(node) if isinstance(n_, ast.Name) and isinstance(n_.ctx, ast.Store)}
    import builtins as _b
    imported = set(CTX_IMPORTS.get(f.module, {}))
    known_defs = set(CTX_DEFS)
    for st_ in node.body:
        for c in walk_local(st_):
            if isinstance(c, ast.Name) and isinstance(c.ctx, ast.Load) and c.id not in local_names \
                    and not hasattr(_b, c.id) and c.id not in imported and c.id not in known_defs:
                raise _Deviation(f"`{c.id}` is module-level state: the result depends on more than (list, probe)")
    return _rel_eval(f, a, x, body)


@rule("C18.R1", ["C18", "C01"], min_instances=5, design="3.18")
def bisect_recipes(ctx):
    """Each find_* helper equals the closed-form boundary specification on every abstract state."""
    CTX_IMPORTS.clear()
    CTX_IMPORTS.update(ctx.prog.imports)
    CTX_DEFS.clear()
    CTX_DEFS.update(q for q, fn in ctx.prog.funcs.items() if fn.parent is None and fn.cls is None)
    CTX_DEFS.update(ctx.prog.classes)
    for name, (variant, spec) in SPEC.items():
        f = ctx.prog.func(name, "C18.R1")
        key = f"{name} | recipe"
        try:
            results = _eval_fn(f, variant)
        except _Deviation as ex:
            yield Ob("C18.R1", ["C18", "C01"], key, False, f"{name}: {ex}", f.loc())
            continue
        except _Outside as ex:
            raise AnalysisError("C18.R1", f"{name}: {ex}")
        bad = []
        undet = 0
        for sit, outs in results.items():
            want = _spec_value(name, sit)
            for r in outs:
                if isinstance(r, str) and r == "undetermined":
                    undet += 1
                    continue
                same = r is None and want is None
                if isinstance(r, Lin) and isinstance(want, Lin):
                    try:
                        same = _sign(r - want, sit) == 0
                    except _Undet:
                        same = False
                if not same:
                    rt = r.text() if isinstance(r, Lin) else str(r)
                    wt = want.text() if isinstance(want, Lin) else str(want)
                    msg = f"list with {_sit_text(sit)}: returns {rt}, documented {wt}"
                    if len({(o.text() if isinstance(o, Lin) else str(o)) for o in outs}) > 1:
                        msg += " (depending on the probe's own value)"
                    if msg not in bad:
                        bad.append(msg)
        n_states = len(results)
        if undet and not bad:
            raise AnalysisError("C18.R1", f"{name}: {undet} abstract situations are not decided by the (below, equal, above) "
                                          f"counts (unbounded loop or comparison) and no decided situation deviates")
        yield Ob("C18.R1", ["C18", "C01"], key, not bad,
                 f"{name}: " + ("; ".join(bad[:3]) + (f" (+{len(bad) - 3} more situations; L=#below, E=#equal, G=#above)" if len(bad) > 3 else " (L=#below, E=#equal, G=#above)")
                                if bad else f"conforms on all {n_states} abstract list/probe situations"),
                 f.loc(), {"situations": n_states})


@rule("C18.R2", ["C01", "C18"], min_instances=6, design="3.18")
def bisect_call_sites(ctx):
    """Every find_* call passes (sorted container of Index, probe) in that order."""
    from .index_state import sorted_fields
    sf = sorted_fields(ctx)
    for f in ctx.prog.all_funcs():
        for n in walk_local(f.node):
            if isinstance(n, ast.Call) and isinstance(n.func, ast.Name) and n.func.id in SPEC:
                if f.name in SPEC:
                    continue  # a helper delegating to a sibling is judged by C18.R1
                ok = True
                why = []
                if len(n.args) != 2 or n.keywords:
                    ok = False
                    why.append("not called as find(list, probe)")
                else:
                    a0 = n.args[0]
                    if not (isinstance(a0, ast.Attribute) and isinstance(a0.value, ast.Name)
                            and a0.value.id == "self" and a0.attr in sf):
                        ok = False
                        why.append(f"first argument {norm(a0)} is not a container kept sorted "
                                   f"(sorted containers: {sorted(sf)})")
                yield Ob("C18.R2", ["C01"] if ok is False else ["C01", "C18"], f"{f.qual} | call {n.func.id} | {norm(n)}", ok,
                         "; ".join(why) if why else "sorted container passed as the list argument",
                         ctx.prog.loc(n))
