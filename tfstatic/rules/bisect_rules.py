"""C18 (and the C01 off-by-one surface): bisect recipe conformance.

The five helpers are abstractly evaluated over the finite set of boundary
situations {i == 0?} x {i == len(a)?} x {a[i] == x?}; with i defined by
bisect_left (L) or bisect_right (R) the documented result has a closed form
(standard-library contract a[:L] < x <= a[L:], a[:R] <= x < a[R:]).  No
tinyflux code runs: the bodies are interpreted as decision trees over these
three atoms.
"""

from __future__ import annotations

import ast
import itertools
from typing import Dict, List, Optional, Tuple

from ..model import AnalysisError, Func, clone_expr, norm, walk_local
from ..report import Ob, rule

# spec: helper -> (bisect variant, result as function of abstract state)
#   state = (z: i == 0, e: i == n, m: a[i] == x (None if e))
SPEC = {
    "find_eq": ("left", lambda z, e, m: "i" if (not e and m) else "None"),
    "find_lt": ("left", lambda z, e, m: "i-1" if not z else "None"),
    "find_le": ("right", lambda z, e, m: "i-1" if not z else "None"),
    "find_gt": ("right", lambda z, e, m: "i" if not e else "None"),
    "find_ge": ("left", lambda z, e, m: "i" if not e else "None"),
}


class _Outside(Exception):
    pass


class _IndexErr(Exception):
    pass


def _states(variant: str):
    """Consistent abstract states.  With bisect_right, a[i] > x whenever i < n,
    so a[i] == x is impossible; with bisect_left both are possible."""
    for z, e in itertools.product([True, False], repeat=2):
        if e:
            yield (z, e, None)
        else:
            if variant == "left":
                yield (z, e, True)
            yield (z, e, False)


CTX_IMPORTS: Dict[str, Dict[str, str]] = {}
CTX_DEFS: set = set()


class _Deviation(Exception):
    """The body leaves the recipe family in a way that is itself a defect."""


BISECT_NAMES = ("bisect.bisect_left", "bisect_left", "bisect.bisect_right", "bisect_right", "bisect.bisect", "bisect")


def _eval_fn(f: Func, spec_variant: str):
    node = f.node
    params = f.params()
    if len(params) < 2:
        raise _Outside("expects (sorted_list, x)")
    a, x = params[0], params[1]
    body = [s for s in node.body if not (isinstance(s, ast.Expr) and isinstance(s.value, ast.Constant))]
    # every search primitive must be handed the caller's list and the caller's probe, full range
    bis = [n for n in walk_local(node) if isinstance(n, ast.Call) and norm(n.func) in BISECT_NAMES]
    deleg = [n for n in walk_local(node) if isinstance(n, ast.Call) and isinstance(n.func, ast.Name)
             and n.func.id in SPEC and n.func.id != f.name]
    for c in bis + deleg:
        if not c.args or norm(c.args[0]) != a:
            raise _Deviation(f"`{norm(c, 60)}` does not search the caller's list")
        if len(c.args) < 2 or norm(c.args[1]) != x:
            raise _Deviation(f"`{norm(c, 60)}` searches for `{norm(c.args[1]) if len(c.args) > 1 else '?'}`, not for the "
                             f"caller's probe `{x}`: boundaries between adjacent values move")
        if len(c.args) > 2 or c.keywords:
            raise _Deviation(f"`{norm(c, 60)}` restricts the search window (lo/hi/key): the documented boundary is "
                             f"defined over the whole list")
    for c in walk_local(node):
        if isinstance(c, ast.Compare) and any(isinstance(o, (ast.Is, ast.IsNot)) for o in c.ops) \
                and not any(isinstance(x, ast.Constant) and x.value is None for x in [c.left] + c.comparators):
            raise _Deviation(f"`{norm(c)}` compares integers by identity: equal positions are distinct objects beyond "
                             f"the small-int cache (lists longer than 256 entries)")
        if isinstance(c, (ast.Global, ast.Nonlocal)):
            raise _Deviation(f"`{norm(c)}`: the result depends on state outside (list, probe)")
    local_names = set(params) | {n_.id for n_ in walk_local(node) if isinstance(n_, ast.Name) and isinstance(n_.ctx, ast.Store)}
    import builtins as _b
    imported = set(CTX_IMPORTS.get(f.module, {}))
    known_defs = set(CTX_DEFS)
    for st_ in node.body:
        for c in walk_local(st_):
            if isinstance(c, ast.Name) and isinstance(c.ctx, ast.Load) and c.id not in local_names \
                    and not hasattr(_b, c.id) and c.id not in imported and c.id not in known_defs:
                raise _Deviation(f"`{c.id}` is module-level state: the result depends on more than (list, probe)")
    if deleg and not bis:
        raise _Outside("delegates to another helper")
    if len(bis) != 1:
        raise _Outside(f"{len(bis)} bisect calls")
    bcall = bis[0]
    st_b = bcall
    while not isinstance(st_b, ast.stmt):
        st_b = st_b._parent
    if not (isinstance(st_b, ast.Assign) and len(st_b.targets) == 1 and isinstance(st_b.targets[0], ast.Name)
            and st_b.value is bcall):
        raise _Outside("bisect result is not bound to a name")
    ivar = st_b.targets[0].id
    variant = "left" if norm(bcall.func).endswith("bisect_left") else "right"
    alias: Dict[str, str] = {}
    for s_ in walk_local(node):
        if isinstance(s_, ast.Assign) and len(s_.targets) == 1 and isinstance(s_.targets[0], ast.Name) \
                and isinstance(s_.value, ast.Call) and norm(s_.value.func) == "len" and len(s_.value.args) == 1 \
                and norm(s_.value.args[0]) == a:
            alias[s_.targets[0].id] = "len(a)"
    rest = body

    class _Ren(ast.NodeTransformer):
        def visit_Name(self, n: ast.Name) -> ast.AST:
            if n.id == ivar:
                return ast.Name(id="i", ctx=n.ctx)
            if n.id == a:
                return ast.Name(id="a", ctx=n.ctx)
            if n.id == x:
                return ast.Name(id="x", ctx=n.ctx)
            if n.id in alias:
                return ast.parse(alias[n.id], mode="eval").body
            return n

    def canon(e: ast.AST) -> str:
        return norm(ast.fix_missing_locations(_Ren().visit(clone_expr(e))))

    def atom(e: ast.AST, st) -> object:
        z, en, m, xt = st
        t = canon(e)
        empty = z and en
        table_bool = {
            "i": not z, "i > 0": not z, "i != 0": not z, "i >= 1": not z, "0 < i": not z, "0 != i": not z,
            "i == 0": z, "i < 1": z, "i <= 0": z, "not i": z, "0 == i": z,
            "i != len(a)": not en, "i < len(a)": not en, "len(a) > i": not en, "len(a) != i": not en,
            "i == len(a)": en, "i >= len(a)": en, "len(a) == i": en, "len(a) <= i": en,
            "a": not empty, "len(a)": not empty, "len(a) > 0": not empty, "len(a) != 0": not empty,
            "not a": empty, "len(a) == 0": empty, "not len(a)": empty,
            # facts about the probe's own value are independent of the boundary situation
            "x": xt, "not x": not xt, "x is None": not xt and False, "x is not None": True,
            "x == 0": not xt, "x != 0": xt,
        }
        if t in table_bool:
            return table_bool[t]
        if t in ("a[i] == x", "x == a[i]"):
            if en:
                raise _IndexErr()
            return m
        if t in ("a[i] != x", "x != a[i]"):
            if en:
                raise _IndexErr()
            return not m
        raise _Outside(f"condition outside the normal form: {norm(e)}")

    def cond(e: ast.AST, st) -> bool:
        if isinstance(e, ast.BoolOp):
            if isinstance(e.op, ast.And):
                for v in e.values:
                    if not cond(v, st):
                        return False
                return True
            for v in e.values:
                if cond(v, st):
                    return True
            return False
        if isinstance(e, ast.UnaryOp) and isinstance(e.op, ast.Not):
            return not cond(e.operand, st)
        return bool(atom(e, st))

    def value(e: Optional[ast.AST], st) -> str:
        if e is None or (isinstance(e, ast.Constant) and e.value is None):
            return "None"
        if isinstance(e, ast.IfExp):
            return value(e.body, st) if cond(e.test, st) else value(e.orelse, st)
        t = canon(e)
        if t == "i":
            return "i"
        if t in ("i - 1", "i-1", "-1 + i"):
            return "i-1"
        raise _Outside(f"returned expression outside the normal form: {norm(e)}")

    def run(stmts: List[ast.stmt], st) -> Optional[str]:
        for s in stmts:
            if isinstance(s, ast.If):
                r = run(s.body, st) if cond(s.test, st) else run(s.orelse, st)
                if r is not None:
                    return r
            elif isinstance(s, ast.Return):
                return value(s.value, st)
            elif isinstance(s, ast.Pass):
                continue
            elif isinstance(s, ast.Expr) and isinstance(s.value, ast.Constant):
                continue
            elif s is st_b:
                continue
            elif isinstance(s, ast.Assign) and len(s.targets) == 1 and isinstance(s.targets[0], ast.Name) \
                    and s.targets[0].id in alias:
                continue
            else:
                raise _Outside(f"statement outside the normal form: {norm(s)}")
        return None

    results = {}
    for st3 in _states(variant):
        for xt in (True, False):
            st = st3 + (xt,)
            try:
                r = run(rest, st)
                r = r if r is not None else "None"
            except _IndexErr:
                r = "IndexError"
            prev = results.get(st3)
            if prev is None or prev == r:
                results[st3] = r
            else:
                results[st3] = f"{prev} or {r} depending on the probe's truthiness"
    return variant, results


@rule("C18.R1", ["C18", "C01"], min_instances=5, design="3.18")
def bisect_recipes(ctx):
    """Each find_* helper equals the closed-form boundary specification on every abstract state."""
    CTX_IMPORTS.clear()
    CTX_IMPORTS.update(ctx.prog.imports)
    CTX_DEFS.clear()
    CTX_DEFS.update(q for q, fn in ctx.prog.funcs.items() if fn.parent is None and fn.cls is None)
    CTX_DEFS.update(ctx.prog.classes)
    for name, (variant, spec) in SPEC.items():
        f = ctx.prog.func(name, "C18.R1")
        key = f"{name} | recipe"
        try:
            got_variant, results = _eval_fn(f, variant)
        except _Deviation as ex:
            yield Ob("C18.R1", ["C18", "C01"], key, False, f"{name}: {ex}", f.loc())
            continue
        except _Outside as ex:
            raise AnalysisError("C18.R1", f"{name}: {ex}")
        bad = []
        if got_variant != variant:
            # a different bisect variant may still be right if results agree on
            # its own consistent states AND the variant's states subsume; it never is
            bad.append(f"uses bisect_{got_variant}, documented boundary needs bisect_{variant}")
        for st, r in results.items():
            want = spec(*st)
            if r != want:
                z, e, m = st
                bad.append(f"state(i==0:{z}, i==len:{e}, a[i]==x:{m}) returns {r}, documented {want}")
        n_states = len(results)
        yield Ob("C18.R1", ["C18", "C01"], key, not bad,
                 f"{name}: " + ("; ".join(bad) if bad else f"conforms on all {n_states} boundary states"),
                 f.loc(), {"variant": got_variant, "states": {str(k): v for k, v in results.items()}})


@rule("C18.R2", ["C01", "C18"], min_instances=6, design="3.18")
def bisect_call_sites(ctx):
    """Every find_* call passes (sorted container of Index, probe) in that order."""
    from .index_state import sorted_fields
    sf = sorted_fields(ctx)
    for f in ctx.prog.all_funcs():
        for n in walk_local(f.node):
            if isinstance(n, ast.Call) and isinstance(n.func, ast.Name) and n.func.id in SPEC:
                if f.name in SPEC:
                    continue  # a helper delegating to a sibling is judged by C18.R1
                ok = True
                why = []
                if len(n.args) != 2 or n.keywords:
                    ok = False
                    why.append("not called as find(list, probe)")
                else:
                    a0 = n.args[0]
                    if not (isinstance(a0, ast.Attribute) and isinstance(a0.value, ast.Name)
                            and a0.value.id == "self" and a0.attr in sf):
                        ok = False
                        why.append(f"first argument {norm(a0)} is not a container kept sorted "
                                   f"(sorted containers: {sorted(sf)})")
                yield Ob("C18.R2", ["C01"] if ok is False else ["C01", "C18"], f"{f.qual} | call {n.func.id} | {norm(n)}", ok,
                         "; ".join(why) if why else "sorted container passed as the list argument",
                         ctx.prog.loc(n))
