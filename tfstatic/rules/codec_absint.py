"""C05.R5: abstract interpretation of the row decoder on the writer's symbolic output.

The decoder `Point._deserialize_from_list` is interpreted (a small interpreter
for the statement/expression subset it uses -- tinyflux is not imported or run)
on rows whose *keys* are abstract strings `known prefix + opaque user text`.
Every operation whose outcome would depend on the opaque user text (indexing or
comparing beyond the known prefix, startswith on the tail) is an ambiguity: the
decoding of a key would then depend on what the user called it, so two distinct
points can collide or a key can come back changed.  Otherwise the decoded
tag/field keys must be exactly the opaque user texts, in the right dictionary.
"""

from __future__ import annotations

import ast
from typing import Any, Dict, List, Optional

from ..model import AnalysisError, norm, walk_local
from ..report import Ob, rule
from .validate_codec import prefix_consts


class Amb(Exception):
    pass


class Unsup(Exception):
    pass


class AStr:
    """known prefix + opaque tail (tail None: exactly `known`)."""

    def __init__(self, known: str, tail: Optional[str]):
        self.known = known
        self.tail = tail

    def __repr__(self) -> str:
        return f"{self.known!r}+<{self.tail}>" if self.tail else repr(self.known)

    def key(self):
        return (self.known, self.tail)

    def index(self, i: int):
        if i < 0:
            raise Amb(f"negative index {i} into a key that ends with user text")
        if i < len(self.known):
            return self.known[i]
        raise Amb(f"character {i} of the key lies in the user's own key text (known part {self.known!r})")

    def slice(self, lo: Optional[int], hi: Optional[int]):
        if hi is not None:
            raise Unsup("upper-bounded slice of a key")
        lo = lo or 0
        if lo < 0:
            raise Amb("negative slice bound into a key that ends with user text")
        if lo <= len(self.known):
            return AStr(self.known[lo:], self.tail)
        raise Amb(f"slice [{lo}:] cuts into the user's own key text (known part {self.known!r})")

    def startswith(self, p: str) -> bool:
        if len(p) <= len(self.known):
            return self.known.startswith(p)
        if p.startswith(self.known) and self.tail:
            raise Amb(f"startswith({p!r}) depends on the user's own key text (known part {self.known!r})")
        return False

    def eq(self, other) -> bool:
        if isinstance(other, str):
            if not self.tail:
                return self.known == other
            if not other.startswith(self.known):
                return False
            raise Amb(f"comparison with {other!r} depends on the user's own key text")
        if isinstance(other, AStr):
            return self.key() == other.key()
        return False


class _Break(Exception):
    pass


class _Continue(Exception):
    pass


class _Return(Exception):
    def __init__(self, v):
        self.v = v


TIME = object()


class Interp:
    def __init__(self, consts: Dict[str, Any], selfname: str = "self"):
        self.consts = consts
        self.selfname = selfname
        self.stores: Dict[str, Any] = {}
        self.steps = 0

    # ---------------------------------------------------------- expressions
    def ev(self, e: ast.AST, env: Dict[str, Any]) -> Any:
        self.steps += 1
        if self.steps > 20000:
            raise Unsup("decoder does not terminate on a 6-column row")
        if isinstance(e, ast.Constant):
            return e.value
        if isinstance(e, ast.Name):
            if e.id in env:
                return env[e.id]
            if e.id in ("None", "True", "False"):
                return {"None": None, "True": True, "False": False}[e.id]
            raise Unsup(f"unbound name {e.id}")
        if isinstance(e, ast.Attribute):
            if isinstance(e.value, ast.Name) and e.value.id == self.selfname:
                if e.attr in self.consts:
                    return self.consts[e.attr]
                raise Unsup(f"self.{e.attr} is not a literal class constant")
            if norm(e) == "timezone.utc":
                return "UTC"
            raise Unsup(f"attribute {norm(e)}")
        if isinstance(e, (ast.Tuple, ast.List)):
            return [self.ev(x, env) for x in e.elts]
        if isinstance(e, ast.Dict):
            if e.keys:
                raise Unsup("non-empty dict literal")
            return {}
        if isinstance(e, ast.BinOp):
            l, r = self.ev(e.left, env), self.ev(e.right, env)
            if isinstance(l, int) and isinstance(r, int):
                if isinstance(e.op, ast.Add):
                    return l + r
                if isinstance(e.op, ast.Sub):
                    return l - r
            raise Unsup(f"arithmetic {norm(e)}")
        if isinstance(e, ast.UnaryOp):
            v = self.ev(e.operand, env)
            if isinstance(e.op, ast.Not):
                return not self.truth(v)
            if isinstance(e.op, ast.USub) and isinstance(v, int):
                return -v
            raise Unsup(norm(e))
        if isinstance(e, ast.BoolOp):
            if isinstance(e.op, ast.And):
                v: Any = True
                for x in e.values:
                    v = self.ev(x, env)
                    if not self.truth(v):
                        return v
                return v
            v = False
            for x in e.values:
                v = self.ev(x, env)
                if self.truth(v):
                    return v
            return v
        if isinstance(e, ast.IfExp):
            return self.ev(e.body, env) if self.truth(self.ev(e.test, env)) else self.ev(e.orelse, env)
        if isinstance(e, ast.Compare):
            left = self.ev(e.left, env)
            for op, c in zip(e.ops, e.comparators):
                right = self.ev(c, env)
                if not self.cmp(op, left, right):
                    return False
                left = right
            return True
        if isinstance(e, ast.Subscript):
            base = self.ev(e.value, env)
            sl = e.slice
            if isinstance(sl, ast.Slice):
                lo = self.ev(sl.lower, env) if sl.lower is not None else None
                hi = self.ev(sl.upper, env) if sl.upper is not None else None
                if sl.step is not None:
                    raise Unsup("slice step")
                if isinstance(base, AStr):
                    return base.slice(lo, hi)
                if isinstance(base, (str, list)):
                    return base[lo:hi]
                raise Unsup(f"slice of {type(base).__name__}")
            i = self.ev(sl, env)
            if isinstance(base, AStr):
                if not isinstance(i, int):
                    raise Unsup("non-integer index into a key")
                return base.index(i)
            if isinstance(base, (str, list)):
                try:
                    return base[i]
                except IndexError:
                    raise Amb(f"index {i} out of range for {base!r}")
            if isinstance(base, dict):
                return base[self.dkey(i)][1]
            raise Unsup(f"subscript of {type(base).__name__}")
        if isinstance(e, ast.Call):
            return self.call(e, env)
        if isinstance(e, ast.JoinedStr):
            raise Unsup("f-string in the decoder")
        raise Unsup(f"expression {type(e).__name__}")

    def truth(self, v: Any) -> bool:
        if isinstance(v, AStr):
            if v.known:
                return True
            raise Amb("truthiness of a key that is entirely user text")
        return bool(v)

    def cmp(self, op: ast.AST, l: Any, r: Any) -> bool:
        if isinstance(op, (ast.Eq, ast.NotEq)):
            if isinstance(l, AStr):
                res = l.eq(r)
            elif isinstance(r, AStr):
                res = r.eq(l)
            else:
                res = l == r
            return res if isinstance(op, ast.Eq) else not res
        if isinstance(op, (ast.Is, ast.IsNot)):
            res = l is r
            return res if isinstance(op, ast.Is) else not res
        if isinstance(op, (ast.In, ast.NotIn)):
            if isinstance(r, dict):
                res = self.dkey(l) in r
            elif isinstance(l, AStr) or any(isinstance(x, AStr) for x in (r if isinstance(r, (list, tuple)) else [])):
                res = any((x.eq(l) if isinstance(x, AStr) else (l.eq(x) if isinstance(l, AStr) else x == l)) for x in r)
            else:
                res = l in r
            return res if isinstance(op, ast.In) else not res
        if isinstance(l, AStr) or isinstance(r, AStr):
            raise Unsup("ordering comparison on a key")
        if isinstance(op, ast.Lt):
            return l < r
        if isinstance(op, ast.LtE):
            return l <= r
        if isinstance(op, ast.Gt):
            return l > r
        if isinstance(op, ast.GtE):
            return l >= r
        raise Unsup("comparison operator")

    @staticmethod
    def dkey(k: Any):
        return ("A",) + k.key() if isinstance(k, AStr) else ("C", k)

    def call(self, e: ast.Call, env) -> Any:
        fn = e.func
        args = [self.ev(a, env) for a in e.args]
        if isinstance(fn, ast.Name):
            if fn.id == "len" and len(args) == 1:
                a = args[0]
                if isinstance(a, AStr):
                    if a.tail:
                        raise Amb("len() of a key depends on the user's own key text")
                    return len(a.known)
                return len(a)
            if fn.id == "str" and len(args) == 1:
                return args[0] if isinstance(args[0], AStr) else str(args[0])
            if fn.id in ("int", "float") and len(args) == 1 and isinstance(args[0], str):
                return {"int": int, "float": float}[fn.id](args[0])  # ValueError propagates to try/except
            if fn.id == "range":
                return list(range(*args))
            raise Unsup(f"call of {fn.id}")
        if isinstance(fn, ast.Attribute):
            if norm(fn) == "datetime.fromisoformat":
                return TIME
            recv = self.ev(fn.value, env)
            if recv is TIME and fn.attr == "replace":
                return TIME
            if isinstance(recv, AStr):
                if fn.attr == "startswith" and len(args) == 1 and isinstance(args[0], str):
                    return recv.startswith(args[0])
                if fn.attr in ("removeprefix",) and len(args) == 1 and isinstance(args[0], str):
                    return recv.slice(len(args[0]), None) if recv.startswith(args[0]) else recv
                raise Amb(f".{fn.attr}() on a key depends on the user's own key text")
            if isinstance(recv, str) and fn.attr in ("isdigit", "startswith", "lstrip", "strip", "lower", "removeprefix",
                                                     "isnumeric", "isdecimal"):
                return getattr(recv, fn.attr)(*args)
            if isinstance(recv, dict) and fn.attr == "get":
                k = self.dkey(args[0])
                return recv[k][1] if k in recv else (args[1] if len(args) > 1 else None)
            raise Unsup(f"method {norm(fn)}")
        raise Unsup("call")

    # ----------------------------------------------------------- statements
    def run(self, stmts: List[ast.stmt], env: Dict[str, Any]) -> None:
        for s in stmts:
            self.stmt(s, env)

    def assign(self, t: ast.AST, v: Any, env) -> None:
        if isinstance(t, ast.Name):
            env[t.id] = v
        elif isinstance(t, ast.Subscript):
            base = self.ev(t.value, env)
            if not isinstance(base, dict):
                raise Unsup("subscript store into a non-dict")
            k = self.ev(t.slice, env)
            base[self.dkey(k)] = (k, v)
        elif isinstance(t, ast.Attribute) and isinstance(t.value, ast.Name) and t.value.id == self.selfname:
            self.stores[t.attr] = v
        elif isinstance(t, (ast.Tuple, ast.List)) and isinstance(v, (list, tuple)) and len(t.elts) == len(v):
            for a, b in zip(t.elts, v):
                self.assign(a, b, env)
        else:
            raise Unsup(f"assignment target {norm(t)}")

    def stmt(self, s: ast.stmt, env) -> None:
        if isinstance(s, ast.Expr):
            if isinstance(s.value, ast.Constant):
                return
            self.ev(s.value, env)
        elif isinstance(s, ast.Assign):
            v = self.ev(s.value, env)
            for t in s.targets:
                self.assign(t, v, env)
        elif isinstance(s, ast.AnnAssign):
            if s.value is not None:
                self.assign(s.target, self.ev(s.value, env), env)
        elif isinstance(s, ast.AugAssign):
            cur = self.ev(s.target, env)
            inc = self.ev(s.value, env)
            if isinstance(s.op, ast.Add):
                self.assign(s.target, cur + inc, env)
            elif isinstance(s.op, ast.Sub):
                self.assign(s.target, cur - inc, env)
            else:
                raise Unsup("augmented assignment")
        elif isinstance(s, ast.If):
            self.run(s.body if self.truth(self.ev(s.test, env)) else s.orelse, env)
        elif isinstance(s, ast.While):
            n = 0
            while self.truth(self.ev(s.test, env)):
                n += 1
                if n > 64:
                    raise Unsup("decoder loop does not terminate on a 6-column row")
                try:
                    self.run(s.body, env)
                except _Break:
                    break
                except _Continue:
                    continue
            else:
                self.run(s.orelse, env)
        elif isinstance(s, ast.For):
            it = self.ev(s.iter, env)
            if not isinstance(it, (list, tuple)):
                raise Unsup("for over a non-literal iterable")
            for x in it:
                self.assign(s.target, x, env)
                try:
                    self.run(s.body, env)
                except _Break:
                    break
                except _Continue:
                    continue
            else:
                self.run(s.orelse, env)
        elif isinstance(s, ast.Break):
            raise _Break()
        elif isinstance(s, ast.Continue):
            raise _Continue()
        elif isinstance(s, ast.Pass):
            return
        elif isinstance(s, ast.Return):
            raise _Return(self.ev(s.value, env) if s.value is not None else None)
        elif isinstance(s, ast.Try):
            try:
                self.run(s.body, env)
            except (ValueError, TypeError):
                if not s.handlers:
                    raise
                self.run(s.handlers[0].body, env)
            else:
                self.run(s.orelse, env)
            self.run(s.finalbody, env)
        else:
            raise Unsup(f"statement {type(s).__name__}")


def class_consts(ctx) -> Dict[str, Any]:
    out = {}
    for k, v in ctx.prog.cls("Point").consts.items():
        if isinstance(v, ast.Constant) and isinstance(v.value, (str, int)):
            out[k] = v.value
    return out


@rule("C05.R5", ["C05", "C04", "C01", "C07"], min_instances=2, design="3.5")
def abstract_key_round_trip(ctx):
    """Abstractly interpreting the decoder on the writer's symbolic rows returns every tag/field key (opaque user text) unchanged, in its own dictionary, without ever inspecting the user's text."""
    de = ctx.prog.func("Point._deserialize_from_list", "C05.R5")
    consts = class_consts(ctx)
    pcs = prefix_consts(ctx)
    styles = {
        "default": (pcs.get("_default_tag_key_prefix"), pcs.get("_default_field_key_prefix")),
        "compact": (pcs.get("_compact_tag_key_prefix"), pcs.get("_compact_field_key_prefix")),
    }
    rowp = de.params()[1]
    sent = consts.get("_none_str", "_none")
    for style, (tp, fp) in styles.items():
        if tp is None or fp is None:
            raise AnalysisError("C05.R5", "prefix constants not found")
        scenarios = {
            "one tag, one field": [("T", "K1", "v")],
        }
        rows = {
            "tag+field": ["2024-01-01T00:00:00.000001", "m", AStr(tp, "K1"), "v", AStr(fp, "K2"), "1.5"],
            "two tags (one None), two fields": ["2024-01-01T00:00:00", "m", AStr(tp, "K1"), sent, AStr(tp, "K2"), "",
                                                 AStr(fp, "K3"), "-2.0", AStr(fp, "K4"), sent],
            "fields only": ["2024-01-01T00:00:00", "m", AStr(fp, "K1"), "0.0"],
            "tags only": ["2024-01-01T00:00:00", "m", AStr(tp, "K1"), "x"],
            "no tags, no fields": ["2024-01-01T00:00:00", "m"],
        }
        bad: List[str] = []
        for name, row in rows.items():
            it = Interp(consts)
            env = {rowp: row, "self": None}
            try:
                try:
                    it.run(de.node.body, env)
                except _Return:
                    pass
            except Amb as a:
                bad.append(f"{name}: {a}")
                continue
            except Unsup as u:
                raise AnalysisError("C05.R5", f"decoder outside the interpretable fragment: {u}")
            except (_Break, _Continue):
                raise AnalysisError("C05.R5", "break/continue outside a loop")
            tags = it.stores.get("_tags")
            fields = it.stores.get("_fields")
            if not isinstance(tags, dict) or not isinstance(fields, dict):
                bad.append(f"{name}: decoder does not store tag/field dictionaries")
                continue
            exp_t = [(row[i].tail, row[i + 1]) for i in range(2, len(row), 2) if row[i].known == tp]
            exp_f = [(row[i].tail, row[i + 1]) for i in range(2, len(row), 2) if row[i].known == fp and tp != fp]
            got_t = [(k.tail if isinstance(k, AStr) and not k.known else repr(k), v) for (k, v) in tags.values()]
            got_f = [(k.tail if isinstance(k, AStr) and not k.known else repr(k), v) for (k, v) in fields.values()]
            want_t = [(k, None if v == sent else v) for k, v in exp_t]
            if got_t != want_t:
                bad.append(f"{name}: tags decode to {got_t}, written {want_t}")
            want_fk = [k for k, v in exp_f]
            if [k for k, v in got_f] != want_fk:
                bad.append(f"{name}: field keys decode to {[k for k, v in got_f]}, written {want_fk}")
            else:
                for (k, v), (k2, txt) in zip(got_f, exp_f):
                    want_v = None if txt == sent else float(txt)
                    if v != want_v or (v is not None and not isinstance(v, (int, float))):
                        bad.append(f"{name}: field {k} decodes to {v!r}, written {txt!r}")
        yield Ob("C05.R5", ["C05", "C04", "C01", "C07"], f"{de.qual} | abstract key round trip | {style} prefixes", not bad,
                 "; ".join(bad[:2]) if bad else f"{len(rows)} symbolic rows decode to exactly the written keys without "
                 f"inspecting user text", de.loc())
