"""Exceptional-exit disciplines (D5, D9): index maintenance on every exit after a
primary mutation (C06.R4 / C11.R3 / C13.R2), staging and aliasing (C11.R1),
user code before commit (C11.R2), swallowed I/O errors (C13.R1)."""

from __future__ import annotations

import ast
from typing import Dict, FrozenSet, List, Optional, Set, Tuple

from ..astq import call_name, occ, stmt_of, in_subtree
from ..cfg import CFG, Node, TOTAL_CALLS
from ..effects import chain_str, names
from ..logic import formula, negate
from ..model import AnalysisError, Func, first_line, is_self_attr, norm, walk_local
from ..report import Ob, rule
from .storage_io import _node_effects, csv_cls, mem_cls

IO_PREFIX = ("PRIMARY.", "TEMP.", "FS.", "MEM.", "TMEM.")
MUTATING = ("PRIMARY.write", "PRIMARY.truncate", "MEM.append", "MEM.mutate", "MEM.rebind", "FS.copy", "FS.replace",
            "PRIMARY.open")
FULL_MAINT = {"invalidate", "_reset", "build", "insert"}
SAFE_EXT = TOTAL_CALLS | {"sorted", "min", "max", "sum", "any", "all", "str", "int", "float", "abs", "iter",
                          "deepcopy", "copy", "wraps", "now", "super"}


def is_mutating(es: Set[str]) -> bool:
    return any(e.startswith(MUTATING) for e in es)


def precise_may_raise(ctx, f: Func):
    """A node may raise iff it raises explicitly or calls something with I/O,
    user code or an explicit raise in its transitive summary."""
    cache: Dict[int, bool] = {}

    def mr(n: Node) -> bool:
        if n.id in cache and False:
            return cache[n.id]
        if n.kind in ("entry", "exit", "rexit", "join", "dispatch", "handler"):
            return False
        a = n.ast
        if n.kind == "stmt" and isinstance(a, (ast.Raise, ast.Assert)):
            return True
        for x in n.walk():
            if isinstance(x, (ast.Call, ast.For, ast.comprehension, ast.Attribute)):
                for tg, c2, ch2 in ctx.eff.call_targets(x, f, (), None):
                    es = names(ctx.eff.summary(tg, c2, ch2, None))
                    if any(e == "RAISE" or e.startswith(IO_PREFIX) or e.startswith("USER.") or e.startswith("STORED.")
                           for e in es):
                        return True
            if isinstance(x, ast.Call):
                tgs = ctx.res.resolve_call(x, f, quiet=True)
                for tg in tgs:
                    if isinstance(tg, tuple):
                        kind, nm = tg
                        if kind == "param":
                            return True
                        if kind in ("ext", "meth", "attrcall", "dyn"):
                            base = nm.split(".")[-1]
                            if base in SAFE_EXT or base in ("append", "add", "get", "keys", "values", "items", "clear",
                                                            "update", "pop", "union", "intersection", "difference",
                                                            "startswith", "timestamp", "replace"):
                                continue
                            return True
        if n.kind == "iter":
            for tg, c2, ch2 in ctx.eff.call_targets(a, f, (), None):
                es = names(ctx.eff.summary(tg, c2, ch2, None))
                if any(e == "RAISE" or e.startswith(IO_PREFIX) for e in es):
                    return True
            it = a.iter
            if isinstance(it, ast.Name) and it.id in f.params():
                return True  # caller-supplied iterable: next() runs foreign code
        return False
    return mr


ATOMS = {"self._auto_index": "A", "self._index.valid": "V"}


def _eval3(fm, facts: Dict[str, bool]) -> Optional[bool]:
    if fm[0] == "const":
        return fm[1]
    if fm[0] == "lit":
        a = fm[1]
        if a.startswith("truthy(") and a[7:-1] in facts:
            v = facts[a[7:-1]]
            return v if fm[2] else (not v)
        return None
    vals = [_eval3(x, facts) for x in fm[1]]
    if fm[0] == "and":
        if any(v is False for v in vals):
            return False
        if all(v is True for v in vals):
            return True
        return None
    if any(v is True for v in vals):
        return True
    if all(v is False for v in vals):
        return False
    return None


def _atoms_in(fm, acc: Set[str]) -> None:
    if fm[0] == "lit":
        a = fm[1]
        if a.startswith("truthy("):
            acc.add(a[7:-1])
    elif fm[0] in ("and", "or"):
        for x in fm[1]:
            _atoms_in(x, acc)


def _maintenance(ctx, f: Func, nd: Node) -> Set[str]:
    out: Set[str] = set()
    for c in nd.calls():
        for tg in ctx.res.resolve_call(c, f, quiet=True):
            if isinstance(tg, Func) and tg.cls == "Index":
                out.add(tg.name)
            elif isinstance(tg, Func) and tg.cls == "TinyFlux" and tg.name in ("_reset_database", "reindex"):
                out.add("invalidate")  # verified separately: resets storage and index together
    return out


def explore_after_mutation(ctx, f: Func, g: CFG, ne: Dict[int, Set[str]], start: int, own_exc: bool,
                           tracked: Set[str]):
    """Path-sensitive search, from the function entry, for an exit that is
    reachable after the mutation node `start` executed (own_exc: after it failed
    midway) with no index maintenance afterwards and the index possibly valid.

    State = (node, facts over a few boolean atoms, dirty?, maintenance seen since
    dirty).  Returns {exit kind: witness path} (at most one per kind)."""
    wit: Dict[str, List[int]] = {}
    seen: Set[Tuple] = set()
    # (node, facts, dirty, seen maintenance, path since dirty)
    stack: List[Tuple[int, Dict[str, bool], bool, FrozenSet[str], Tuple[int, ...]]] = [
        (g.entry, {}, False, frozenset(), ())]
    budget = 400000
    while stack:
        budget -= 1
        if budget < 0:
            raise AnalysisError("C06.R4", f"state explosion in {f.qual}")
        nid, facts, dirty, seenm, path = stack.pop()
        key = (nid, frozenset(facts.items()), dirty, seenm)
        if key in seen:
            continue
        seen.add(key)
        nd = g.nodes[nid]
        if nid in (g.exit, g.rexit):
            if dirty and facts.get("self._index.valid") is not False:
                kind = "normal" if nid == g.exit else "raise"
                wit.setdefault(kind, list(path) + [nid])
            continue
        facts2 = dict(facts)
        seenm2 = seenm
        dirty2 = dirty
        a = nd.ast
        if nid != start and nd.ast is not None:
            m = _maintenance(ctx, f, nd)
            if m:
                seenm2 = seenm | m
                if m & FULL_MAINT or {"remove", "update"} <= seenm2:
                    dirty2 = False
                    seenm2 = frozenset()
                    if m & {"invalidate"}:
                        facts2["self._index.valid"] = False
                    elif m & {"build", "_reset"}:
                        facts2["self._index.valid"] = True
        if nd.kind == "stmt" and isinstance(a, ast.AugAssign) and isinstance(a.target, ast.Name) \
                and isinstance(a.op, ast.Add):
            facts2[a.target.id] = True
        elif nd.kind == "stmt" and isinstance(a, ast.Assign):
            for t_ in a.targets:
                if isinstance(t_, ast.Name):
                    facts2.pop(t_.id, None)
                    if isinstance(a.value, ast.Constant):
                        facts2[t_.id] = bool(a.value.value)
        path2 = path + (nid,) if dirty2 else ()
        if nd.kind == "test":
            fm = formula(a.test)
            ats: Set[str] = set()
            _atoms_in(fm, ats)
            ats = {x for x in ats if x in tracked and x not in facts2}
            combos = [dict()]
            for at in sorted(ats):
                combos = [dict(c, **{at: v}) for c in combos for v in (True, False)]
            for c in combos:
                fx = dict(facts2, **c)
                val = _eval3(fm, fx)
                for t, lab in g.succ[nid]:
                    if lab == "exc":
                        stack.append((t, fx, dirty2, seenm2, path2))
                    elif val is None or (lab == "true") == val:
                        stack.append((t, fx, dirty2, seenm2, path2))
            continue
        for t, lab in g.succ[nid]:
            if nid == start:
                if lab == "exc":
                    if own_exc:
                        stack.append((t, facts2, True, frozenset(), (nid,)))
                    else:
                        stack.append((t, facts2, dirty2, seenm2, path2))
                else:
                    if own_exc:
                        stack.append((t, facts2, dirty2, seenm2, path2))
                    else:
                        stack.append((t, facts2, True, frozenset(), (nid,)))
            else:
                stack.append((t, facts2, dirty2, seenm2, path2))
    return wit


def _index_updated_after_failure(ctx, f: Func, g: CFG, start: int) -> Optional[str]:
    """An index-content update (anything but invalidate) reachable from the exceptional edge of the
    mutation node, before the exception leaves the function."""
    starts = [t for t, lab in g.succ[start] if lab == "exc"]
    seen: Set[int] = set()
    todo = list(starts)
    while todo:
        x = todo.pop()
        if x in seen or x in (g.exit, g.rexit):
            continue
        seen.add(x)
        nd = g.nodes[x]
        if nd.ast is not None:
            m = _maintenance(ctx, f, nd)
            direct = set()
            for c in nd.calls():
                for tg in ctx.res.resolve_call(c, f, quiet=True):
                    if isinstance(tg, Func) and tg.cls == "Index":
                        direct.add(tg.name)
            bad = direct - {"invalidate", "valid", "empty", "latest_time", "__len__"}
            if bad:
                return f"index.{sorted(bad)[0]}()"
            if "invalidate" in direct:
                continue  # invalidated: nothing after it can leave a valid stale index
        for t, lab in g.succ[x]:
            todo.append(t)
    return None


def _path_lines(g: CFG, path: List[int]) -> str:
    out = []
    for i in path:
        nd = g.nodes[i]
        if nd.ast is not None and nd.kind in ("stmt", "test", "iter"):
            if not out or out[-1] != f"L{nd.lineno}":
                out.append(f"L{nd.lineno}")
        elif i == g.exit:
            out.append("return")
        elif i == g.rexit:
            out.append("RAISE")
    return ">".join(out[:24])


@rule("C06.R4", ["C06", "C11", "C13", "C01", "C07", "C02", "C03"], min_instances=4, design="3.6")
def maintenance_on_every_exit(ctx):
    """After a primary-storage mutation, every exit (normal or exceptional) passes index maintenance or invalidation, unless the index is known invalid."""
    n_mut = 0
    for f in ctx.prog.methods_of("TinyFlux"):
        mr = precise_may_raise(ctx, f)
        g = ctx.cfg(f, exceptional=True, may_raise=mr)
        ne = _node_effects(ctx, g, f, None)
        # storage calls only: calls that land in other TinyFlux methods are analysed there
        muts = []
        for nd in g.stmt_nodes():
            direct: Set[str] = set()
            for c in nd.calls():
                for tg in ctx.res.resolve_call(c, f, quiet=True):
                    if isinstance(tg, Func) and tg.cls in set(ctx.prog.subclasses("Storage")):
                        for tg2, c2, ch2 in ctx.eff.call_targets(c, f, (), None):
                            direct |= names(ctx.eff.summary(tg2, c2, ch2, None))
            if is_mutating(direct):
                muts.append((nd, direct))
        tracked = {"self._auto_index", "self._index.valid"} | {
            n.target.id for n in walk_local(f.node) if isinstance(n, ast.AugAssign) and isinstance(n.target, ast.Name)} | {
            t.id for n in walk_local(f.node) if isinstance(n, ast.Assign) and isinstance(n.value, ast.Constant)
            and isinstance(n.value.value, bool) for t in n.targets if isinstance(t, ast.Name)}
        for nd, es in muts:
            n_mut += 1
            what = first_line(nd.ast, 70)
            wit = explore_after_mutation(ctx, f, g, ne, nd.id, False, tracked)
            for kind in ("normal", "raise"):
                p = wit.get(kind)
                props = ["C06", "C01", "C07"] + (["C11", "C13"] if kind == "raise" else []) + (
                    ["C02"] if f.name in ("_remove_helper", "_reset_database") else []) + (
                    ["C03"] if f.name == "_update_helper" else [])
                yield Ob("C06.R4", props, f"{f.qual} | after {what}{occ(f, nd.ast)} | {kind} exit", p is None,
                         "every such exit passes index maintenance/invalidation (or the index is invalid)"
                         if p is None else
                         f"exit reachable with a possibly valid index and no maintenance: {_path_lines(g, p)}",
                         ctx.prog.loc(nd.ast), {"path": _path_lines(g, p)} if p else {})
            # dual obligation: when the storage call itself raises, the index may be invalidated but must
            # not be updated/reset as if the change had happened
            upd = _index_updated_after_failure(ctx, f, g, nd.id)
            yield Ob("C06.R4", ["C06", "C13", "C01", "C07"] + (["C02"] if f.name in ("_remove_helper", "_reset_database") else []),
                     f"{f.qual} | {what}{occ(f, nd.ast)} fails | index not updated as if it had succeeded", upd is None,
                     "a failing storage call can only be followed by invalidation" if upd is None else
                     f"when the storage call raises, `{upd}` still runs: the index is emptied/updated (and stays valid) "
                     f"although storage was not changed", ctx.prog.loc(nd.ast))
            compound = any(e in es for e in ("PRIMARY.flush", "PRIMARY.fsync", "PRIMARY.open")) or \
                any(e.startswith(("FS.copy", "FS.replace")) for e in es)
            if compound:
                wit = explore_after_mutation(ctx, f, g, ne, nd.id, True, tracked)
                p = wit.get("raise") or wit.get("normal")
                yield Ob("C06.R4", ["C13", "C06", "C01", "C07"], f"{f.qual} | {what}{occ(f, nd.ast)} itself fails midway | raise exit",
                         p is None,
                         "a failing storage call is followed by index invalidation" if p is None else
                         f"the storage call can fail after its first effect (row buffered / file partly replaced) "
                         f"and the still-valid index never hears of it: {_path_lines(g, p)}",
                         ctx.prog.loc(nd.ast))
    if n_mut < 4:
        raise AnalysisError("C06.R4", f"expected >=4 primary mutation sites in TinyFlux, found {n_mut}")


@rule("C11.R1", ["C11", "C12"], min_instances=4, design="3.11")
def staging_before_commit(ctx):
    """temp_storage_op methods touch primary storage only through the swap/reset commit; objects aliased with primary storage are not mutated before it."""
    tf = ctx.prog.cls("TinyFlux")
    staged = [m for m in tf.methods.values() if "temp_storage_op" in m.decorators]
    if len(staged) < 4:
        raise AnalysisError("C11.R1", f"expected >=4 temp_storage_op methods, found {len(staged)}")
    # (a) rewrite helpers: before the commit call, no primary mutation
    for q in ("TinyFlux._remove_helper", "TinyFlux._update_helper"):
        f = ctx.prog.func(q, "C11.R1")
        g = ctx.cfg(f, exceptional=False)
        ne = _node_effects(ctx, g, f, None)
        commits = {nd.id for nd in g.stmt_nodes() for c in nd.calls()
                   if call_name(c) in ("_swap_temp_with_primary", "_reset_database", "reset")}
        if not commits:
            raise AnalysisError("C11.R1", f"{q}: no commit call found")
        pre = g.reachable([g.entry], avoid=lambda x: x.id in commits, enter_starts=True)
        bad = []
        for i in pre:
            es = ne.get(i, set())
            if is_mutating(es):
                bad.append(f"L{g.nodes[i].lineno} `{first_line(g.nodes[i].ast, 50)}` has effects "
                           f"{sorted(e for e in es if e.startswith(MUTATING))}")
        yield Ob("C11.R1", ["C11", "C12"], f"{q} | no primary effect before the commit point", not bad,
                 "; ".join(bad[:3]) if bad else "only temporary storage is written before swap/reset", f.loc())
    # (b) aliasing: which storages hand out the stored object itself?
    for cname in ctx.prog.subclasses("Storage", strict=True):
        m = ctx.prog.classes[cname].methods.get("_deserialize_storage_item")
        if m is None:
            continue
        p0 = m.params()[1] if len(m.params()) > 1 else None
        alias = any(isinstance(r, ast.Return) and isinstance(r.value, ast.Name) and r.value.id == p0
                    for r in walk_local(m.node))
        if not alias:
            yield Ob("C11.R1", ["C11"], f"{cname}._deserialize_storage_item | returns a fresh object", True,
                     "rows are deserialised into new Point objects; mutating them cannot touch primary storage",
                     m.loc())
            continue
        # every mutator of a deserialised item must copy first
        f = ctx.prog.func("TinyFlux._update_helper", "C11.R1")
        copied = True
        sites = []
        for n in walk_local(f.node):
            if isinstance(n, ast.Call) and isinstance(n.func, ast.Name) and n.func.id == "perform_update" and n.args:
                a = n.args[0]
                from ..astq import assignments_to
                vals = assignments_to(f, a.id) if isinstance(a, ast.Name) else [a]
                for v in vals:
                    if in_subtree(v, f.node) and "_deserialize_storage_item" in norm(v) \
                            and not norm(v).startswith(("copy.deepcopy(", "deepcopy(", "copy.copy(")):
                        copied = False
                        sites.append(n)
        yield Ob("C11.R1", ["C11"], f"{cname}._deserialize_storage_item | returns the stored object itself", copied,
                 "the updater works on a copy" if copied else
                 f"{cname} hands out the stored Point itself and _update_helper mutates it in place before the "
                 f"commit: if a later point makes the update raise, earlier points are already changed in primary "
                 f"memory", m.loc())


@rule("C11.R2", ["C11"], min_instances=2, design="3.11")
def user_code_precedes_commit(ctx):
    """No user callable or validation raise can run after the primary mutation within update/remove."""
    for q in ("TinyFlux._remove_helper", "TinyFlux._update_helper"):
        f = ctx.prog.func(q, "C11.R2")
        g = ctx.cfg(f, exceptional=False)
        ne = _node_effects(ctx, g, f, None)
        commits = [nd.id for nd in g.stmt_nodes() for c in nd.calls()
                   if call_name(c) in ("_swap_temp_with_primary", "_reset_database")]
        after = g.reachable(commits)
        bad = []
        for i in after:
            nd = g.nodes[i]
            es = ne.get(i, set())
            user = sorted(e for e in es if e.startswith("USER."))
            if user:
                bad.append(f"L{nd.lineno} runs user code {user} after the commit")
            if nd.kind == "stmt" and isinstance(nd.ast, ast.Raise):
                bad.append(f"L{nd.lineno} raises after the commit")
        yield Ob("C11.R2", ["C11"], f"{q} | nothing user-controlled after the commit", not bad,
                 "; ".join(bad[:3]) if bad else "queries, update callables and validation all run before swap/reset",
                 f.loc())


def _handler_catches_oserror(h: ast.ExceptHandler) -> bool:
    if h.type is None:
        return True
    nm = {x.id for x in ast.walk(h.type) if isinstance(x, ast.Name)} | \
        {x.attr for x in ast.walk(h.type) if isinstance(x, ast.Attribute)}
    return bool(nm & {"OSError", "IOError", "EnvironmentError", "Exception", "BaseException", "PermissionError",
                      "FileNotFoundError", "BlockingIOError", "InterruptedError"})


def swallowed_io_handlers(ctx) -> List[Tuple[Func, ast.ExceptHandler, ast.Try, List[str]]]:
    out = []
    for f in ctx.prog.all_funcs():
        if isinstance(f.node, ast.Lambda):
            continue
        for t in walk_local(f.node):
            if not isinstance(t, ast.Try):
                continue
            # I/O in the try body?
            io: Set[str] = set()
            cls = ctx.res.self_class(f)
            roles = ctx.eff.roles.get(cls) if cls else None
            env = ctx.eff._role_env(f, list(walk_local(f.node)))
            for s in t.body:
                for x in walk_local(s):
                    if isinstance(x, ast.Call):
                        io |= {e for e in ctx.eff.primitive(x, f, roles, env) if e.startswith(IO_PREFIX)}
                        nm = norm(x.func)
                        # the wrapped operation of a database decorator performs storage I/O
                        if isinstance(x.func, ast.Name) and f.parent is not None and x.func.id in f.parent.params() \
                                and f.parent.cls is None and f.parent.module == "database":
                            io.add("PRIMARY.<wrapped operation>")
                        if nm in ("os.fsync", "os.replace", "os.rename", "os.remove", "os.unlink", "shutil.copy",
                                  "shutil.copyfile", "shutil.move", "open"):
                            io.add(f"FS.{nm}")
                    if isinstance(x, (ast.Call, ast.For, ast.comprehension, ast.Attribute)):
                        for tg, c2, ch2 in ctx.eff.call_targets(x, f, (), None):
                            io |= {e for e in names(ctx.eff.summary(tg, c2, ch2, None)) if e.startswith(IO_PREFIX)}
            for h in t.handlers:
                out.append((f, h, t, sorted(io)))
    return out


def handler_reraises(ctx, f: Func, h: ast.ExceptHandler) -> bool:
    g = ctx.cfg(f, exceptional=True)
    ids = [i for i in g.ids_of(h)]
    if not ids:
        return True
    for i in ids:
        # a normal continuation from the handler that reaches exit without raising
        def is_raise(x):
            return x.kind == "stmt" and isinstance(x.ast, ast.Raise)
        body_ids = set()
        for s in h.body:
            for x in walk_local(s):
                body_ids |= set(g.ids_of(x))
        r = g.reachable([i], avoid=is_raise, labels=lambda l: l != "exc")
        # leaves the handler normally if some node outside the handler body is reached
        if any(x not in body_ids and x != i for x in r):
            return False
    return True


@rule("C13.R1", ["C13"], min_instances=5, design="3.13")
def no_swallowed_io_error(ctx):
    """No handler that can catch OSError around an I/O-performing try body completes normally."""
    hs = swallowed_io_handlers(ctx)
    for f, h, t, io in hs:
        catches = _handler_catches_oserror(h)
        rer = handler_reraises(ctx, f, h)
        relevant = bool(io) and catches
        ok = (not relevant) or rer
        yield Ob("C13.R1", ["C13"], f"{f.qual} | except {norm(h.type) if h.type is not None else '<bare>'} "
                 f"| try at {first_line(t.body[0], 50)}{occ(f, t.body[0])}", ok,
                 ("no I/O in the try body" if not io else
                  ("handler cannot catch OSError" if not catches else "handler re-raises on every path"))
                 if ok else f"an OSError from {io[:3]} is caught and the handler completes normally: the caller "
                            f"never sees the I/O error", ctx.prog.loc(h), nontrivial=relevant)
