"""C07.R3-R5: exploration getters, index branch vs scan branch."""

from __future__ import annotations

import ast
from typing import Dict, List, Optional, Set, Tuple

from ..astq import assignments_to, call_name, names_in, occ, stmt_of, in_subtree
from ..logic import guard_clauses, guards
from ..model import AnalysisError, Func, ancestors, first_line, is_self_attr, norm, walk_local
from ..report import Ob, rule
from .index_state import fields_of

ROW_VALUED = ("get_field_values", "get_timestamps")
SET_VALUED = ("get_field_keys", "get_tag_keys", "get_tag_values")


def _measurement_given(node: ast.AST, fp: str = "measurement") -> bool:
    cl = guard_clauses(guards(node))
    return any(len(c) == 1 and next(iter(c)) in ((f"truthy({fp})", True), (f"is(None,{fp})", False)) for c in cl)


@rule("C07.R3", ["C07", "C10"], min_instances=5, design="3.7")
def per_row_filtering_in_index_getters(ctx):
    """Index getters that return one element per row filter per element by the measurement's position set; set-valued ones may test intersection."""
    for name in ROW_VALUED + SET_VALUED:
        f = ctx.prog.func(f"Index.{name}", "C07.R3")
        if "measurement" not in f.params():
            raise AnalysisError("C07.R3", f"Index.{name} has no measurement parameter")
        # name(s) holding the measurement's positions
        msets = set()
        for n in walk_local(f.node):
            if isinstance(n, ast.Assign) and isinstance(n.targets[0], ast.Name) and "_measurements[measurement]" in norm(n.value):
                msets.add(n.targets[0].id)
        inline = any("_measurements[measurement]" in norm(n) for n in walk_local(f.node) if isinstance(n, ast.Compare))
        bad = []
        n_sites = 0
        if name in ROW_VALUED:
            # every element-producing comprehension / append reachable with a measurement must test the
            # element's own position
            for n in walk_local(f.node):
                if isinstance(n, (ast.ListComp, ast.GeneratorExp)) and _measurement_given(n):
                    gen = n.generators[0]
                    src = norm(gen.iter)
                    if not ("self._fields" in src or "zip(" in src or any(
                            src == v for v in _item_vars(f))):
                        continue
                    tnames = names_in(gen.target)
                    if norm(n.elt).endswith("[0]"):
                        continue  # list of positions (used for the container-level test), not output values
                    # projection of an already filtered list is fine
                    if isinstance(gen.iter, ast.Name) and _is_filtered(f, gen.iter.id, msets):
                        continue
                    if isinstance(gen.iter, ast.Call) and call_name(gen.iter) == "sorted" and gen.iter.args \
                            and isinstance(gen.iter.args[0], ast.Name) and _is_filtered(f, gen.iter.args[0].id, msets):
                        continue
                    n_sites += 1
                    per_elem = False
                    for c in gen.ifs:
                        for x in ast.walk(c):
                            if isinstance(x, ast.Compare) and isinstance(x.ops[0], ast.In) and (names_in(x.left) & tnames):
                                rhs = norm(x.comparators[0])
                                if any(m in rhs for m in msets) or "_measurements[measurement]" in rhs:
                                    per_elem = True
                    # or an enclosing per-element loop guard
                    if not per_elem:
                        bad.append(f"`{norm(n, 60)}` yields every element of the container without testing the "
                                   f"element's own position against the measurement's positions")
            for n in walk_local(f.node):
                if isinstance(n, ast.Call) and call_name(n) in ("append",) and _measurement_given(n):
                    n_sites += 1
                    cl = guard_clauses(guards(n))
                    if not any(len(c) == 1 and next(iter(c))[0].startswith("in(") and next(iter(c))[1]
                               and any(m in next(iter(c))[0] for m in msets | {"_measurements[measurement]"})
                               for c in cl):
                        bad.append(f"`{norm(n, 60)}` is not conditional on the element's position being in the "
                                   f"measurement")
            if n_sites == 0:
                bad.append("no per-row output construct found under the measurement branch")
        else:
            tests = [n for n in walk_local(f.node) if isinstance(n, ast.Call) and call_name(n) == "intersection"
                     and isinstance(n.func.value, ast.Name) and n.func.value.id in msets]
            n_sites = len(tests)
            if not tests:
                bad.append("no intersection with the measurement's positions")
            for t in tests:
                st = stmt_of(t)
                in_comp_if = any(isinstance(a_, ast.comprehension) and any(in_subtree(t, c_) for c_ in a_.ifs)
                                 for a_ in ancestors(t))
                if not ((isinstance(st, ast.If) and in_subtree(t, st.test)) or in_comp_if):
                    bad.append(f"`{norm(t, 50)}` is not used as the condition for adding the key/value")
        # every condition that consults the measurement's position set asks `does this entry have a position in it`:
        # membership, (non-)empty intersection, disjointness -- never containment or equality of whole sets
        tests_ = []
        for n in walk_local(f.node):
            if isinstance(n, (ast.If, ast.IfExp, ast.While)):
                tests_.append(n.test)
            elif isinstance(n, ast.comprehension):
                tests_.extend(n.ifs)
        OKM = ("intersection", "isdisjoint", "__contains__", "__and__", "__rand__")
        BADM = ("issuperset", "issubset", "__eq__", "__ne__", "__le__", "__ge__", "__lt__", "__gt__", "difference",
                "symmetric_difference", "union")

        def _use_ok(x: ast.AST, top: ast.AST) -> Optional[str]:
            p_ = getattr(x, "_parent", None)
            if p_ is None or x is top:
                return None
            if isinstance(p_, ast.Attribute) and p_.value is x:
                if p_.attr in BADM:
                    return f"`.{p_.attr}(...)`"
                return None
            if isinstance(p_, ast.Call) and x in p_.args:
                if isinstance(p_.func, ast.Attribute) and p_.func.attr in BADM:
                    return f"`.{p_.func.attr}({norm(x)})`"
                if isinstance(p_.func, ast.Name) and p_.func.id in ("set", "frozenset", "list", "tuple", "sorted"):
                    return _use_ok(p_, top)
                return None
            if isinstance(p_, ast.BinOp):
                if isinstance(p_.op, ast.BitAnd):
                    return None
                return f"`{norm(p_, 40)}`"
            if isinstance(p_, ast.Compare):
                ops = p_.ops
                if all(isinstance(o_, (ast.In, ast.NotIn, ast.Is, ast.IsNot)) for o_ in ops):
                    return None
                return f"`{norm(p_, 40)}`"
            return None
        for t_ in tests_:
            for x in ast.walk(t_):
                if isinstance(x, ast.Name) and x.id in msets:
                    why_ = _use_ok(x, t_)
                    if why_:
                        bad.append(f"condition `{norm(t_, 60)}` compares the measurement's position set as a whole ({why_}) instead of "
                                   f"asking whether the entry has a position in it: entries shared with another measurement, or partly "
                                   f"outside it, are mis-reported")
        yield Ob("C07.R3", ["C07", "C10"], f"{f.qual} | measurement filtering", not bad,
                 "; ".join(bad[:2]) if bad else
                 (f"{n_sites} per-element filter(s)" if name in ROW_VALUED else f"{n_sites} container-level test(s)"),
                 f.loc())


def _item_vars(f: Func) -> Set[str]:
    out = set()
    for n in walk_local(f.node):
        if isinstance(n, ast.For) and "self._fields" in norm(n.iter) and isinstance(n.target, ast.Tuple):
            for e in n.target.elts:
                if isinstance(e, ast.Name):
                    out.add(e.id)
    return out


def _is_filtered(f: Func, name: str, msets: Set[str]) -> bool:
    for v in assignments_to(f, name):
        if isinstance(v, ast.ListComp):
            for c in v.generators[0].ifs:
                t = norm(c)
                if " in " in t and (any(m in t for m in msets) or "_measurements[measurement]" in t):
                    return True
    return False


def _alpha(k: ast.AST) -> str:
    """A sort key, with the parameters of a lambda renamed positionally (x, y, ..)."""
    if isinstance(k, ast.Lambda) and not (k.args.vararg or k.args.kwarg or k.args.kwonlyargs or k.args.defaults):
        names = [a.arg for a in k.args.posonlyargs + k.args.args]
        canon = dict(zip(names, ["x", "y", "z", "w"]))
        if len(canon) == len(names):
            k = ast.parse(ast.unparse(k), mode="eval").body
            for n in ast.walk(k):
                if isinstance(n, ast.Name) and n.id in canon:
                    n.id = canon[n.id]
                elif isinstance(n, ast.arg) and n.arg in canon:
                    n.arg = canon[n.arg]
    return norm(k)


def _shape(e: Optional[ast.AST], f: Func, depth: int = 0) -> str:
    if e is None:
        return "none"
    if isinstance(e, ast.Name) and depth < 3:
        vals = assignments_to(f, e.id)
        shapes = {_shape(v, f, depth + 1) for v in vals if not (isinstance(v, (ast.List, ast.Dict)) and not (
            getattr(v, "elts", None) or getattr(v, "keys", None)))}
        shapes.discard("none")
        if len(shapes) == 1:
            return shapes.pop()
        return "list" if not shapes else "mixed:" + ",".join(sorted(shapes))
    if isinstance(e, ast.Call) and isinstance(e.func, ast.Name) and e.func.id == "sorted":
        key = [k.value for k in e.keywords if k.arg == "key"]
        rev = any(k.arg == "reverse" for k in e.keywords)
        return "sorted" + (f"[key={_alpha(key[0])}]" if key else "") + ("[reverse]" if rev else "")
    if isinstance(e, ast.DictComp):
        return "dict{" + _shape(e.value, f, depth + 1) + "}"
    if isinstance(e, ast.ListComp):
        src = e.generators[0].iter
        if isinstance(src, ast.Call) and isinstance(src.func, ast.Name) and src.func.id == "sorted":
            return "list<" + _shape(src, f, depth + 1) + ">"
        return "list"
    if isinstance(e, ast.Call):
        return "call:" + call_name(e)
    if isinstance(e, (ast.List, ast.Dict)):
        return "list"
    return "expr"


DOC_ORDER = {
    "get_field_keys": "sorted", "get_tag_keys": "sorted", "get_measurements": "sorted",
    "get_tag_values": "dict{sorted[key=lambda x: (x is None, x)]}",
    "get_field_values": "insertion", "get_timestamps": "insertion",
}


@rule("C07.R4", ["C07"], min_instances=6, design="3.7")
def getter_order_agreement(ctx):
    """For every getter the index branch and the scan branch return the same documented shape (sorted keys; insertion order for values and timestamps)."""
    for name, doc in DOC_ORDER.items():
        f = ctx.prog.func(f"TinyFlux.{name}", "C07.R4")
        rets = [n for n in walk_local(f.node) if isinstance(n, ast.Return) and n.value is not None]
        idx_rets, scan_rets = [], []
        from .index_state import guarded_by_valid
        for r in rets:
            (idx_rets if guarded_by_valid(ctx, f, r) else scan_rets).append(r)
        bad = []
        if not idx_rets or not scan_rets:
            bad.append(f"expected an index branch and a scan branch, found {len(idx_rets)}/{len(scan_rets)} returns")
        shapes_i = {_shape(r.value, f) for r in idx_rets}
        shapes_s = {_shape(r.value, f) for r in scan_rets}
        if doc == "insertion":
            for s_ in shapes_i | shapes_s:
                if "sorted" in s_ and "list<" not in s_:
                    bad.append(f"result is {s_}; documented order is insertion order")
            # scan side: appended in storage iteration order, never reordered
            for n in walk_local(f.node):
                if isinstance(n, ast.Call) and ((isinstance(n.func, ast.Attribute) and n.func.attr in ("sort", "reverse"))
                                                or (isinstance(n.func, ast.Name) and n.func.id == "reversed")):
                    bad.append(f"`{norm(n, 40)}` reorders the result")
        else:
            if shapes_i != {doc}:
                bad.append(f"index branch returns {sorted(shapes_i)}, documented {doc}")
            if shapes_s != {doc}:
                bad.append(f"scan branch returns {sorted(shapes_s)}, documented {doc}")
        # the scan branch's result depends on an iteration over storage (def-use closure of the returned names)
        def _mentions_storage(e: ast.AST, depth: int = 0) -> bool:
            for x in ast.walk(e):
                if isinstance(x, ast.Attribute) and x.attr == "_storage":
                    return True
                # a private helper of the class that itself walks storage (e.g. a generator of decoded points)
                if depth == 0 and isinstance(x, ast.Call) and isinstance(x.func, ast.Attribute) and is_self_attr(x.func) and f.cls:
                    h_ = ctx.prog.lookup_method(f.cls, x.func.attr)
                    if h_ is not None and h_ is not f and any(
                            isinstance(l_, (ast.For, ast.comprehension)) and _mentions_storage(l_.iter, 1) for l_ in walk_local(h_.node)):
                        return True
            return False

        def _fed_by_storage(start: Set[str]) -> bool:
            seen_: Set[str] = set()
            work = list(start)
            while work:
                nm = work.pop()
                if nm in seen_:
                    continue
                seen_.add(nm)
                for st in walk_local(f.node):
                    writes = False
                    if isinstance(st, (ast.Assign, ast.AugAssign, ast.AnnAssign)):
                        for t0 in (st.targets if isinstance(st, ast.Assign) else [st.target]):
                            for y in ast.walk(t0):
                                if isinstance(y, ast.Name) and y.id == nm:
                                    writes = True
                    elif isinstance(st, ast.Expr) and isinstance(st.value, ast.Call) and isinstance(st.value.func, ast.Attribute):
                        b_ = st.value.func.value
                        while isinstance(b_, (ast.Call, ast.Attribute, ast.Subscript)):
                            b_ = b_.func if isinstance(b_, ast.Call) else b_.value
                        writes = isinstance(b_, ast.Name) and b_.id == nm
                    elif isinstance(st, ast.For):
                        writes = any(isinstance(y, ast.Name) and y.id == nm for y in ast.walk(st.target))
                        if writes and _mentions_storage(st.iter):
                            return True
                        if writes:
                            work.extend(y.id for y in ast.walk(st.iter) if isinstance(y, ast.Name))
                        continue
                    if not writes:
                        continue
                    val = getattr(st, "value", None)
                    if val is not None:
                        for y in ast.walk(val):
                            if isinstance(y, ast.comprehension) and _mentions_storage(y.iter):
                                return True
                        work.extend(y.id for y in ast.walk(val) if isinstance(y, ast.Name))
                    for a_ in ancestors(st):
                        if isinstance(a_, ast.For) and in_subtree(a_, f.node):
                            if _mentions_storage(a_.iter):
                                return True
                            work.extend(y.id for y in ast.walk(a_.iter) if isinstance(y, ast.Name))
            return False
        for r in scan_rets:
            if _mentions_storage(r.value):
                continue
            names_ = {x.id for x in ast.walk(r.value) if isinstance(x, ast.Name) and isinstance(x.ctx, ast.Load)}
            names_ -= {"sorted", "list", "set", "dict", "tuple", "len"}
            if names_ and not _fed_by_storage(names_):
                bad.append(f"scan branch returns `{norm(r.value, 40)}`, which no iteration over storage fills")
        yield Ob("C07.R4", ["C07"], f"{f.qual} | order of both branches", not bad,
                 "; ".join(bad) if bad else f"both branches: {doc}", f.loc())
    # index side of the insertion-ordered getters
    fl = fields_of(ctx)
    P = next(iter(fl.pos))
    S = next(iter(fl.sorted))
    f = ctx.prog.func("Index.get_timestamps", "C07.R4")
    bad = []
    rets = [n for n in walk_local(f.node) if isinstance(n, ast.Return) and isinstance(n.value, ast.ListComp)]
    helper_args = {}
    if not rets:
        # the sort may have been extracted into a private helper: return self._h(zipped)
        for n in walk_local(f.node):
            if isinstance(n, ast.Return) and isinstance(n.value, ast.Call) and isinstance(n.value.func, ast.Attribute) \
                    and is_self_attr(n.value.func):
                h = ctx.prog.lookup_method("Index", n.value.func.attr)
                if h is not None and n.value.args:
                    hp = [p_ for p_ in h.params() if p_ not in ("self", "cls")]
                    for r2 in walk_local(h.node):
                        if isinstance(r2, ast.Return) and isinstance(r2.value, ast.ListComp):
                            rets.append(r2)
                            if hp:
                                helper_args[id(r2)] = (hp[0], n.value.args[0])
    if not rets:
        bad.append("no list result")
    # every other return of the getter is the empty answer
    for n in walk_local(f.node):
        if isinstance(n, ast.Return) and n.value is not None and n not in rets and not helper_args \
                and not (isinstance(n.value, ast.List) and not n.value.elts) and norm(n.value) != "list()":
            bad.append(f"`{norm(n, 60)}` is neither the empty answer nor a list of (timestamp, position) pairs sorted by "
                       f"position (a mapping keyed by timestamp or position loses points that share it)")
    for r in rets:
        lc = r.value
        src = lc.generators[0].iter
        if not (isinstance(src, ast.Call) and isinstance(src.func, ast.Name) and src.func.id == "sorted" and src.args):
            bad.append(f"`{norm(r, 60)}` is not re-sorted by storage position")
            continue
        key = [k.value for k in src.keywords if k.arg == "key"]
        # the zipped tuples are (timestamp, position): find the component order
        zname = src.args[0]
        if id(r) in helper_args and isinstance(zname, ast.Name) and zname.id == helper_args[id(r)][0]:
            zname = helper_args[id(r)][1]
        zvals = assignments_to(f, zname.id) if isinstance(zname, ast.Name) else [zname]
        comp_ok = False
        comp_all = []
        for zv in zvals:
            comp_ok = False
            zz = zv
            if isinstance(zz, ast.Call) and isinstance(zz.func, ast.Name) and zz.func.id in ("list", "tuple") and len(zz.args) == 1:
                zz = zz.args[0]
            if isinstance(zz, ast.Call) and call_name(zz) == "zip" and [norm(a) for a in zz.args] == [f"self.{S}", f"self.{P}"]:
                comp_ok = True  # zip(S, P) itself yields (timestamp, position)
            if isinstance(zv, (ast.ListComp, ast.GeneratorExp)) and isinstance(zv.generators[0].iter, ast.Call) \
                    and call_name(zv.generators[0].iter) == "zip":
                zargs = [norm(a) for a in zv.generators[0].iter.args]
                tgt = zv.generators[0].target
                elt = zv.elt
                if zargs == [f"self.{S}", f"self.{P}"] and isinstance(tgt, ast.Tuple) and isinstance(elt, ast.Tuple) \
                        and [norm(x) for x in tgt.elts] == [norm(x) for x in elt.elts]:
                    comp_ok = True
            comp_all.append(comp_ok)
        if not comp_all or not all(comp_all):
            bad.append("zipped pairs are not (timestamp, storage position)")
        if not (key and isinstance(key[0], ast.Lambda) and norm(key[0].body) == f"{key[0].args.args[0].arg}[1]"):
            bad.append("sort key is not the storage position component")
        tg_ = lc.generators[0].target
        proj_ok = norm(lc.elt) == f"{norm(tg_)}[0]" or (
            isinstance(tg_, ast.Tuple) and len(tg_.elts) == 2 and isinstance(lc.elt, ast.Name) and norm(tg_.elts[0]) == lc.elt.id)
        if not proj_ok:
            bad.append("projected component is not the timestamp")
    yield Ob("C07.R4", ["C07"], f"{f.qual} | restores storage order", not bad,
             "; ".join(bad) if bad else "pairs (timestamp, position) sorted by position, timestamp projected", f.loc())
    f = ctx.prog.func("Index._insert_fields", "C07.R4")
    apps = [n for n in walk_local(f.node) if isinstance(n, ast.Call) and call_name(n) in ("insert", "appendleft")]
    yield Ob("C07.R4", ["C07"], f"{f.qual} | per-key value lists grow in insertion order", not apps,
             "values are appended" if not apps else f"`{norm(apps[0], 50)}` does not append at the end", f.loc())


@rule("C07.R5", ["C07"], min_instances=5, design="3.7")
def lengths_and_iteration(ctx):
    """len()/iteration/all() enumerate exactly the storage rows (or the index count under a valid index)."""
    f = ctx.prog.func("TinyFlux.__len__", "C07.R5")
    rets = [n for n in walk_local(f.node) if isinstance(n, ast.Return)]
    bad = []
    vals = sorted(norm(r.value) for r in rets)
    if vals != ["len(self._index)", "len(self._storage)"]:
        bad.append(f"returns {vals}, expected the index count (valid index) or the storage row count")
    yield Ob("C07.R5", ["C07"], f"{f.qual} | sources of the length", not bad,
             "; ".join(bad) if bad else "len(index) under a valid index, len(storage) otherwise", f.loc())
    fl = fields_of(ctx)
    cnt = next(iter(fl.count))
    # the count moves by exactly one per indexed point
    for q in ("Index.insert", "Index.build"):
        g = ctx.prog.func(q, "C07.R5")
        incs = [n for n in walk_local(g.node) if isinstance(n, ast.AugAssign) and is_self_attr(n.target, cnt)]
        ok = len(incs) == 1 and isinstance(incs[0].op, ast.Add) and norm(incs[0].value) == "1" and any(
            isinstance(a, ast.For) for a in ancestors(incs[0]))
        yield Ob("C07.R5", ["C07", "C06"], f"{q} | count += 1 per point", ok,
                 "one increment per indexed point" if ok else "the item count is not incremented exactly once per point",
                 g.loc())
    g = ctx.prog.func("Index.remove", "C07.R5")
    decs = [n for n in walk_local(g.node) if isinstance(n, ast.AugAssign) and is_self_attr(n.target, cnt)]
    ok = len(decs) == 1 and isinstance(decs[0].op, ast.Sub) and norm(decs[0].value) == f"len({g.params()[1]})"
    yield Ob("C07.R5", ["C07", "C06", "C02"], "Index.remove | count -= number removed", ok,
             "count decremented by the size of the removal set" if ok else
             "count is not decremented by len(removed positions)", g.loc())
    from .storage_io import mem_cls
    mc = mem_cls(ctx)
    mlen = ctx.prog.func(f"{mc}.__len__", "C07.R5")
    pm = next(iter(ctx.eff.roles[mc].primary_mem))
    ok = any(isinstance(r, ast.Return) and norm(r.value) == f"len(self.{pm})" for r in walk_local(mlen.node))
    yield Ob("C07.R5", ["C07"], f"{mlen.qual} | counts primary memory", ok,
             "len of the primary list" if ok else "does not return len of the primary list", mlen.loc())
    it = ctx.prog.func("TinyFlux.__iter__", "C07.R5")
    ys = [n for n in walk_local(it.node) if isinstance(n, ast.Yield)]
    ok = len(ys) == 1 and not guards(ys[0], stop=None)[1:] and any(
        isinstance(a, ast.For) and norm(a.iter) == "self._storage"
        and norm(ys[0].value) == f"self._storage._deserialize_storage_item({norm(a.target)})" for a in ancestors(ys[0]))
    yield Ob("C07.R5", ["C07"], f"{it.qual} | yields every row's point", ok,
             "one deserialised point per storage row, unconditionally" if ok else
             "iteration does not yield exactly the deserialised point of every row", it.loc())
    rd = ctx.prog.func("Storage.read", "C07.R5")
    ok = any(isinstance(r, ast.Return) and norm(r.value) in (
        "list((self._deserialize_storage_item(i) for i in iter(self)))",
        "list((self._deserialize_storage_item(i) for i in self))",
        "[self._deserialize_storage_item(i) for i in self]",
        "[self._deserialize_storage_item(i) for i in iter(self)]") for r in walk_local(rd.node))
    yield Ob("C07.R5", ["C07"], f"{rd.qual} | reads every row", ok,
             "all rows deserialised in iteration order" if ok else "read() is not the list of all deserialised rows",
             rd.loc())
    al = ctx.prog.func("TinyFlux.all", "C07.R5")
    ok = any(isinstance(n, ast.Assign) and norm(n.value) == "self._storage.read()" for n in walk_local(al.node)) and \
        any(isinstance(r, ast.Return) and isinstance(r.value, ast.Name) for r in walk_local(al.node))
    yield Ob("C07.R5", ["C07"], f"{al.qual} | returns storage.read()", ok,
             "all() is storage.read() (optionally time-sorted)" if ok else "all() does not return storage.read()",
             al.loc())
