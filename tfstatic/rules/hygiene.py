"""Small whole-package disciplines found missing by the fourth round of independent changes:
container aliasing, cheap row projections, None-safe ordering of tag values, control flow that
discards an exception in flight, the constructor's file creation gate, unconditional delegation of
the Measurement facade, and the single insertion path."""

from __future__ import annotations

import ast
from typing import Dict, List, Optional, Set

from ..astq import assignments_to, call_name, kw, occ
from ..logic import guard_clauses, guards
from ..model import AnalysisError, Func, ancestors, const_value, NOCONST, is_self_attr, norm, walk_local
from ..report import Ob, rule

MUTABLE_CTORS = ("list", "dict", "set", "defaultdict", "OrderedDict", "deque")
CLASS_PROPS = {
    "Index": ["C06", "C01", "C07", "C02"],
    "IndexResult": ["C06", "C01"],
    "Point": ["C14", "C03", "C05"],
    "CSVStorage": ["C04", "C15"],
    "MemoryStorage": ["C04", "C02", "C03"],
    "TinyFlux": ["C06", "C10"],
}


def _is_mutable_literal(e: ast.AST) -> bool:
    if isinstance(e, (ast.List, ast.Dict, ast.Set, ast.ListComp, ast.DictComp, ast.SetComp)):
        return True
    return isinstance(e, ast.Call) and isinstance(e.func, ast.Name) and e.func.id in MUTABLE_CTORS


@rule("C06.R11", ["C06", "C01", "C07", "C02", "C14", "C03", "C05", "C04", "C15", "C10"], min_instances=10, design="3.6")
def one_container_per_slot(ctx):
    """Every attribute that holds a container gets its own object: no chained assignment `self.a = self.b = []` and no second attribute bound to another attribute's container."""
    n = 0
    for f in ctx.prog.all_funcs():
        if f.cls is None:
            continue
        props = CLASS_PROPS.get(f.cls)
        if props is None:
            continue
        for st in walk_local(f.node):
            if not isinstance(st, ast.Assign):
                continue
            tg = [t for t in st.targets if is_self_attr(t)]
            if not tg:
                continue
            if _is_mutable_literal(st.value):
                n += 1
                ok = len(tg) == 1 and len(st.targets) == 1
                yield Ob("C06.R11", props, f"{f.qual} | fresh container | {norm(st, 80)}{occ(f, st)}", ok,
                         "one new container for one attribute" if ok else
                         f"{[norm(t) for t in st.targets]} are bound to ONE container object: an entry written through one "
                         f"attribute appears in the other", ctx.prog.loc(st))
            elif is_self_attr(st.value) and f.name in ("__init__", "_reset") and st.value.attr != tg[0].attr:
                # self._a = self._b  (aliasing an existing container of the same object)
                src = st.value.attr
                inits = [x for m in ctx.prog.methods_of(f.cls) for x in walk_local(m.node)
                         if isinstance(x, ast.Assign) and any(is_self_attr(t, src) for t in x.targets)
                         and _is_mutable_literal(x.value)]
                if inits:
                    n += 1
                    yield Ob("C06.R11", props, f"{f.qual} | fresh container | {norm(st, 80)}{occ(f, st)}", False,
                             f"`{norm(tg[0])}` shares the container of `self.{src}`", ctx.prog.loc(st))
    if n < 10:
        raise AnalysisError("C06.R11", f"expected >=10 container initialisations in the package, found {n}")


@rule("C10.R6", ["C10", "C01", "C07", "C02", "C03"], min_instances=2, design="3.10")
def cheap_projections_agree_with_decode(ctx):
    """The storages' `_deserialize_measurement(row)` (used by every scan to apply the measurement filter) returns exactly what the full decoder stores as the point's measurement: the same column, untransformed."""
    from .storage_io import csv_cls, mem_cls
    cls = csv_cls(ctx)
    f = ctx.prog.func(f"{cls}._deserialize_measurement", "C10.R6")
    row = f.params()[1]
    rets = [r.value for r in walk_local(f.node) if isinstance(r, ast.Return) and r.value is not None]
    de = ctx.prog.func("Point._deserialize_from_list", "C10.R6")
    drow = de.params()[1]
    # which column does the decoder take the measurement from?
    col = None
    for n in walk_local(de.node):
        if isinstance(n, ast.Assign) and any(is_self_attr(t, "_measurement") for t in n.targets):
            v = n.value
            if isinstance(v, ast.Name):
                vs = assignments_to(de, v.id)
                v = vs[0] if len(vs) == 1 else v
            if isinstance(v, ast.Subscript) and norm(v.value) == drow:
                col = const_value(v.slice)
    bad = []
    if col is None or col is NOCONST:
        raise AnalysisError("C10.R6", "decoder's measurement column not recognised")
    if len(rets) != 1:
        bad.append("not a single return")
    else:
        r = rets[0]
        idx = None
        if isinstance(r, ast.Subscript) and norm(r.value) == row:
            idx = const_value(r.slice)
            if idx is NOCONST and is_self_attr(r.slice):
                c = ctx.prog.cls(cls).consts.get(r.slice.attr)
                idx = const_value(c) if c is not None else NOCONST
        if idx is None:
            bad.append(f"returns `{norm(r, 60)}`, not the raw cell of the row: scans filter on a transformed name while the "
                       f"index and the decoded points keep the stored one")
        elif idx != col:
            bad.append(f"reads column {idx!r}, the decoder takes the measurement from column {col!r}")
    yield Ob("C10.R6", ["C10", "C01", "C07", "C02", "C03"], f"{f.qual} | same cell as the decoder, untransformed", not bad,
             "; ".join(bad) if bad else f"row[{col}] verbatim", f.loc())
    m = ctx.prog.func(f"{mem_cls(ctx)}._deserialize_measurement", "C10.R6")
    it = m.params()[1]
    rets = [norm(r.value) for r in walk_local(m.node) if isinstance(r, ast.Return) and r.value is not None]
    ok = rets in ([f"{it}.measurement"], [f"{it}._measurement"])
    yield Ob("C10.R6", ["C10", "C01", "C07"], f"{m.qual} | the stored point's own measurement", ok,
             "item.measurement" if ok else f"returns {rets}", m.loc())


@rule("C11.R6", ["C11", "C07", "C06", "C02", "C13"], min_instances=1, design="3.11")
def tag_values_are_ordered_none_safely(ctx):
    """Tag values are Optional[str]: any ordering of them (sorted / sort / min / max) inside the index or the database needs a key that separates None, otherwise valid data raises TypeError -- inside Index.remove that is after the removal was committed."""
    fl_tags = "_tags"
    n = 0
    for f in ctx.prog.all_funcs():
        if f.cls not in ("Index", "TinyFlux", "Measurement"):
            continue
        # names bound to the inner {value: positions} dict or to sets of tag values
        inner: Set[str] = set()
        for x in walk_local(f.node):
            gens = []
            if isinstance(x, ast.For):
                gens = [(x.target, x.iter)]
            elif isinstance(x, (ast.ListComp, ast.SetComp, ast.DictComp, ast.GeneratorExp)):
                gens = [(g.target, g.iter) for g in x.generators]
            for tgt, it in gens:
                if isinstance(it, ast.Call) and isinstance(it.func, ast.Attribute) and it.func.attr == "items" \
                        and (is_self_attr(it.func.value, fl_tags) or (isinstance(it.func.value, ast.Attribute)
                                                                      and it.func.value.attr == fl_tags)) \
                        and isinstance(tgt, ast.Tuple) and len(tgt.elts) == 2 and isinstance(tgt.elts[1], ast.Name):
                    inner.add(tgt.elts[1].id)
        for c in walk_local(f.node):
            if not isinstance(c, ast.Call):
                continue
            fn = norm(c.func)
            arg = None
            if fn in ("sorted", "min", "max") and c.args:
                arg = c.args[0]
            elif isinstance(c.func, ast.Attribute) and c.func.attr == "sort":
                arg = c.func.value
            if arg is None:
                continue
            names = {x.id for x in ast.walk(arg) if isinstance(x, ast.Name)}
            direct = any(isinstance(x, ast.Subscript) and (is_self_attr(x.value, fl_tags) or (
                isinstance(x.value, ast.Attribute) and x.value.attr == fl_tags)) for x in ast.walk(arg))
            if not (names & inner or direct):
                continue
            # ordering the positions of one value (ints) is fine: arg is inner[<value>]
            if isinstance(arg, ast.Subscript) and isinstance(arg.value, ast.Name) and arg.value.id in inner:
                continue
            n += 1
            ok = kw(c, "key") is not None
            yield Ob("C11.R6", ["C11", "C07", "C06", "C02", "C13"], f"{f.qual} | ordering of tag values | {norm(c, 70)}{occ(f, c)}", ok,
                     "ordered with a key" if ok else
                     f"`{norm(c, 60)}` compares tag values directly: None and str are not ordered, so a key holding both "
                     f"raises TypeError" + (" after the storage swap" if f.cls == "Index" else ""), ctx.prog.loc(c))
    if n == 0:
        yield Ob("C11.R6", ["C11"], "package | ordering of tag values", True,
                 "the index never orders tag values (the database orders them with a None-safe key, C07.R4)",
                 "tinyflux/index.py:0", nontrivial=False)


@rule("C13.R4", ["C13", "C11", "C15"], min_instances=1, design="3.13")
def no_exception_discarding_control_flow(ctx):
    """No `return` / `break` / `continue` inside a `finally` block (it silently discards the exception in flight), and `__exit__` never returns a truthy value."""
    n_finally = 0
    for f in ctx.prog.all_funcs():
        for t in walk_local(f.node):
            if isinstance(t, ast.Try) and t.finalbody:
                n_finally += 1
                bad = []
                for st in t.finalbody:
                    for x in ast.walk(st):
                        if isinstance(x, (ast.FunctionDef, ast.Lambda)):
                            break
                        if isinstance(x, ast.Return):
                            bad.append(x)
                        if isinstance(x, (ast.Break, ast.Continue)) and not any(
                                isinstance(a, (ast.For, ast.While)) and any(a is y for y in ast.walk(st)) for a in ancestors(x)):
                            bad.append(x)
                yield Ob("C13.R4", ["C13", "C11", "C15"], f"{f.qual} | finally block keeps the exception | line-independent{occ(f, t)}",
                         not bad, "no return/break/continue in the finally block" if not bad else
                         f"`{norm(bad[0], 40)}` inside `finally` discards the exception in flight: an I/O error raised by the "
                         f"protected block never reaches the caller", ctx.prog.loc(t))
    for cls in ("TinyFlux",):
        ex = ctx.prog.classes[cls].methods.get("__exit__")
        if ex is not None:
            rets = [r for r in walk_local(ex.node) if isinstance(r, ast.Return) and r.value is not None
                    and const_value(r.value) not in (None, False)]
            yield Ob("C13.R4", ["C13", "C11"], f"{ex.qual} | never suppresses exceptions", not rets,
                     "returns None" if not rets else f"`{norm(rets[0], 40)}` may suppress the exception of the with-body",
                     ex.loc())


@rule("C15.R5", ["C15"], min_instances=1, design="3.15")
def constructor_creates_files_only_when_writable(ctx):
    """CSVStorage.__init__ creates the file (and directories) only under a test of the access mode that admits writing; opening read-only never creates anything."""
    from .storage_io import csv_cls
    cls = csv_cls(ctx)
    init = ctx.prog.func(f"{cls}.__init__", "C15.R5")
    mode_param = None
    for p_ in init.params():
        if "mode" in p_:
            mode_param = p_
    calls = [c for c in walk_local(init.node) if isinstance(c, ast.Call) and (
        norm(c.func) in ("create_file", "os.makedirs", "os.mkdir") or norm(c.func).endswith(".touch")
        or norm(c.func).endswith(".mkdir"))]
    if not calls:
        yield Ob("C15.R5", ["C15"], f"{init.qual} | file creation gate", True, "the constructor creates nothing itself",
                 init.loc(), nontrivial=False)
    for c in calls:
        cl = guard_clauses(guards(c))
        atoms = {a for cc in cl for a, _ in cc}
        ok = any("_mode" in a or (mode_param and mode_param in a) for a in atoms)
        yield Ob("C15.R5", ["C15"], f"{init.qual} | file creation gate | {norm(c, 60)}{occ(init, c)}", ok,
                 "guarded by a test of the access mode" if ok else
                 f"`{norm(c, 50)}` runs for every access mode: opening a missing path read-only creates an empty database "
                 f"file instead of raising", ctx.prog.loc(c))


@rule("C10.R7", ["C10", "C15"], min_instances=5, design="3.10")
def facade_delegates_unconditionally(ctx):
    """Every Measurement method that forwards to a gated TinyFlux mutator does so on every path (no early return before the call): the access-mode gate lives in the TinyFlux method only."""
    n = 0
    for m in ctx.prog.methods_of("Measurement"):
        if m.name.startswith("__") and m.name not in ("__len__", "__iter__"):
            continue
        g = None
        for c in walk_local(m.node):
            if not isinstance(c, ast.Call):
                continue
            for tg in ctx.res.resolve_call(c, m, quiet=True):
                if isinstance(tg, Func) and tg.cls == "TinyFlux" and set(tg.decorators) & {"write_op", "append_op"}:
                    n += 1
                    if g is None:
                        g = ctx.cfg(m, exceptional=False)
                    ids = g.ids_of(c) or [i for nd in g.stmt_nodes() if c in nd.calls() for i in [nd.id]]
                    ok = bool(ids) and g.postdominated(g.entry, lambda x, ids=ids: x.id in ids, [g.exit])
                    yield Ob("C10.R7", ["C10", "C15"], f"{m.qual} | reaches {tg.name} on every path", ok,
                             "the gated call post-dominates the entry" if ok else
                             f"a path returns without calling {tg.name}: on a read-only database that path does not raise, "
                             f"unlike the database method", ctx.prog.loc(c))
    if n < 5:
        raise AnalysisError("C10.R7", f"expected >=5 forwarding mutators in Measurement, found {n}")


@rule("C14.R4", ["C14", "C08", "C16", "C06"], min_instances=1, design="3.14")
def single_insertion_path(ctx):
    """Only `_insert_helper` appends serialised points to primary storage: it is where a missing time is stamped, times are normalised, non-Points are rejected and the index is maintained."""
    n = 0
    for f in ctx.prog.all_funcs():
        if f.module not in ("database", "measurement"):
            continue
        for c in walk_local(f.node):
            if isinstance(c, ast.Call) and isinstance(c.func, ast.Attribute) and c.func.attr == "append" \
                    and "_storage" in norm(c.func.value):
                tmp = kw(c, "temporary")
                if tmp is not None and const_value(tmp) is True:
                    continue
                if len(c.args) > 1 and const_value(c.args[1]) is True:
                    continue
                a0 = c.args[0] if c.args else None
                if isinstance(a0, ast.List) and not a0.elts:
                    continue  # append([]) only flushes
                n += 1
                owner = f
                while owner.parent is not None:
                    owner = owner.parent
                ok = owner.name == "_insert_helper"
                yield Ob("C14.R4", ["C14", "C08", "C16", "C06"], f"{f.qual} | append to primary storage | {norm(c, 70)}{occ(f, c)}", ok,
                         "the insertion helper" if ok else
                         f"`{norm(c, 60)}` stores points outside _insert_helper: they skip its type check, time stamping / UTC "
                         f"normalisation and index maintenance", ctx.prog.loc(c))
    if n == 0:
        raise AnalysisError("C14.R4", "no append to primary storage found in database.py")


@rule("C04.R8", ["C04", "C11", "C12", "C13"], min_instances=1, design="3.4")
def storage_configuration_is_private(ctx):
    """Nothing outside the storage classes writes a storage object's attributes (flush policy, handles, mode): a temporary override that is not restored on an exception changes the durability of every later operation."""
    n_funcs = 0
    bad_sites = []
    storages = set(ctx.prog.subclasses("Storage"))
    for f in ctx.prog.all_funcs():
        if f.cls in storages or (f.parent is not None and f.parent.cls in storages):
            continue
        n_funcs += 1
        for st in walk_local(f.node):
            if isinstance(st, (ast.Assign, ast.AugAssign, ast.AnnAssign, ast.Delete)):
                ts = st.targets if isinstance(st, (ast.Assign, ast.Delete)) else [st.target]
                for t in ts:
                    if isinstance(t, ast.Attribute) and (
                            "_storage" in norm(t.value) or ctx.res.type_of(t.value, f) in storages):
                        bad_sites.append((f, st))
            if isinstance(st, ast.Call) and isinstance(st.func, ast.Name) and st.func.id == "setattr" and st.args \
                    and ("_storage" in norm(st.args[0]) or ctx.res.type_of(st.args[0], f) in storages):
                bad_sites.append((f, st))
    if not bad_sites:
        yield Ob("C04.R8", ["C04", "C11", "C12", "C13"], "package | storage attributes written only by the storage classes", True,
                 f"{n_funcs} functions outside the storage classes, none writes a storage attribute", "tinyflux/:0")
    for f, st in bad_sites:
        yield Ob("C04.R8", ["C04", "C11", "C12", "C13"], f"{f.qual} | writes a storage attribute | {norm(st, 70)}{occ(f, st)}", False,
                 f"`{norm(st, 60)}` changes the storage's own configuration from outside: if the operation raises before it "
                 f"is restored, every later insert runs with the overridden setting", ctx.prog.loc(st))
