"""C01 (and C02/C03 through their consumers): exactness of index answers (D1, D2).

R1  abstract interpretation of Index._search_helper over {EXACT, OVER, UNDER, TOP}
    and consumer discipline in database.py
R2  leaf/scan agreement: leaves evaluate _test(_path_resolver(stored value))
R3  leaf domain precondition: keyless tag/field queries cannot be built
R4  query algebra <-> set algebra homomorphism and leaf dispatch table
R7  time-range dispatch in _search_timestamps
"""

from __future__ import annotations

import ast
from typing import Dict, List, Optional, Set, Tuple

from ..astq import assignments_to, call_name, names_in, occ, stmt_of, in_subtree
from ..logic import consistent_with, guard_clauses, guards
from ..model import AnalysisError, Func, const_value, ancestors, first_line, is_self_attr, norm, walk_local, parent
from ..report import Ob, rule
from .index_state import fields_of

EXACT, OVER, UNDER, TOP = "EXACT", "OVER", "UNDER", "TOP"


def join(a: str, b: str) -> str:
    if a == b:
        return a
    if a == EXACT:
        return b
    if b == EXACT:
        return a
    return TOP


def combine(a: str, b: str) -> str:
    """Abstract `&` / `|` (both are monotone in each argument)."""
    if a == EXACT and b == EXACT:
        return EXACT
    if {a, b} <= {EXACT, OVER}:
        return OVER
    if {a, b} <= {EXACT, UNDER}:
        return UNDER
    return TOP


def invert(a: str) -> str:
    return {EXACT: EXACT, OVER: UNDER, UNDER: OVER, TOP: TOP}[a]


def _search_helper(ctx) -> Func:
    # the recursive function Index.search delegates to
    srch = ctx.prog.func("Index.search", "C01.R1")
    for n in walk_local(srch.node):
        if isinstance(n, ast.Return) and isinstance(n.value, ast.Call) and isinstance(n.value.func, ast.Attribute) \
                and is_self_attr(n.value.func):
            m = ctx.prog.lookup_method("Index", n.value.func.attr)
            if m is not None:
                return m
    # search may implement the recursion itself
    return srch


def _is_universe(e: ast.AST) -> bool:
    t = norm(e)
    return t.startswith("set(range(") or t.startswith("set(self._storage_pos")


def analyse_search_helper(ctx):
    """Returns (summary, [(return stmt, value, reason)])."""
    f = _search_helper(ctx)
    rets = [n for n in walk_local(f.node) if isinstance(n, ast.Return) and n.value is not None]
    if not rets:
        raise AnalysisError("C01.R1", f"{f.qual} has no return statements")

    def rec_call(e: ast.AST) -> bool:
        return isinstance(e, ast.Call) and isinstance(e.func, ast.Attribute) and is_self_attr(e.func) \
            and e.func.attr == f.name

    def value_of(e: ast.AST, S: str, ret: ast.Return) -> Tuple[str, str]:
        if rec_call(e):
            return S, "recursive result"
        if isinstance(e, ast.Call) and isinstance(e.func, ast.Name) and e.func.id == "IndexResult":
            a0 = e.args[0] if e.args else next((k.value for k in e.keywords if k.arg == "items"), None)
            if a0 is not None and isinstance(a0, ast.Call) and isinstance(a0.func, ast.Attribute) \
                    and is_self_attr(a0.func):
                return EXACT, f"leaf {a0.func.attr} (exact iff C01.R2/R3 hold for it)"
            if a0 is not None and _is_universe(a0):
                return OVER, "universe"
            return TOP, f"IndexResult built from {norm(a0) if a0 is not None else '?'}"
        if isinstance(e, ast.BinOp) and isinstance(e.op, (ast.BitAnd, ast.BitOr)):
            l, _ = value_of(e.left, S, ret)
            r, _ = value_of(e.right, S, ret)
            return combine(l, r), "combination"
        if isinstance(e, ast.UnaryOp) and isinstance(e.op, ast.Invert):
            v, _ = value_of(e.operand, S, ret)
            return invert(v), "complement"
        if isinstance(e, ast.Name):
            # attribute stores on the name that dominate this return within the same block
            stores = []
            for n in walk_local(f.node):
                if isinstance(n, ast.Assign) and any(isinstance(t, ast.Attribute) and isinstance(t.value, ast.Name)
                                                     and t.value.id == e.id for t in n.targets):
                    # the store must dominate the return
                    g_ = ctx.cfg(f, exceptional=False)
                    sid = set(g_.ids_of(n))
                    rid = g_.ids_of(ret)
                    if sid and rid and all(g_.dominated(i, lambda x: x.id in sid) for i in rid):
                        stores.append(n)
            if stores:
                st = stores[-1]
                if e.id not in names_in(st.value):
                    if _is_universe(st.value):
                        return OVER, f"items replaced by the universe ({norm(st)})"
                    return TOP, f"items replaced by {norm(st.value)}"
            vals = [v for v in assignments_to(f, e.id)]
            # pick assignments in the same branch as the return
            local = [v for v in vals if any(in_subtree(ret, a) for a in ancestors(v) if isinstance(a, ast.If))]
            vals = local or vals
            out = None
            for v in vals:
                x, _ = value_of(v, S, ret)
                out = x if out is None else join(out, x)
            return (out or TOP), "local"
        return TOP, f"unrecognised result expression {norm(e, 60)}"

    S = EXACT
    details = []
    for _ in range(6):
        details = []
        new = EXACT
        for r in rets:
            v, why = value_of(r.value, S, r)
            details.append((r, v, why))
            new = join(new, v)
        if new == S:
            break
        S = new
    # root causes: returns that are inexact even when recursive results are exact
    roots = []
    for r in rets:
        v, why = value_of(r.value, EXACT, r)
        roots.append((r, v, why))
    return f, S, roots


def index_consumers(ctx) -> List[Tuple[Func, ast.Call]]:
    """(function that uses an index search result, the call that produced it).  A private helper
    that merely returns the result of Index.search is looked through: its callers are the consumers."""
    out = []
    direct = []
    for f in ctx.prog.all_funcs():
        if f.cls == "Index":
            continue
        for n in walk_local(f.node):
            if isinstance(n, ast.Call) and isinstance(n.func, ast.Attribute) and n.func.attr == "search" \
                    and ctx.res.type_of(n.func.value, f) == "Index":
                direct.append((f, n))
    todo = list(direct)
    seen = set()
    while todo:
        f, n = todo.pop()
        if (f.qual, id(n)) in seen:
            continue
        seen.add((f.qual, id(n)))
        st = stmt_of(n)
        passthrough = isinstance(st, ast.Return) and st.value is n and f.name.startswith("_") \
            and not f.name.startswith("__") and f.cls is not None
        if passthrough:
            callers = []
            for g in ctx.prog.all_funcs():
                for c in walk_local(g.node):
                    if isinstance(c, ast.Call) and isinstance(c.func, ast.Attribute) and c.func.attr == f.name \
                            and is_self_attr(c.func) and ctx.res.self_class(g) == f.cls:
                        callers.append((g, c))
            if callers:
                todo.extend(callers)
                continue
        out.append((f, n))
    return out


def _sanitises(ctx, f: Func) -> bool:
    """On the index path, is every selected row re-evaluated by the query?"""
    qparam = "query" if "query" in f.params() else None
    if qparam is None:
        return False
    from ..astq import storage_loops, loop_vars
    idx_loops = []
    for lp in storage_loops(ctx, f):
        pos, item = loop_vars(lp)
        if pos is None:
            continue
        if any(isinstance(n, ast.Compare) and isinstance(n.ops[0], (ast.In, ast.NotIn)) and isinstance(n.left, ast.Name)
               and n.left.id == pos for n in walk_local(lp)):
            idx_loops.append(lp)
    if not idx_loops:
        return False
    for lp in idx_loops:
        if not any(isinstance(n, ast.Call) and isinstance(n.func, ast.Name) and n.func.id == qparam
                   for n in walk_local(lp)):
            return False
    return True


PROP_OF_CONSUMER = {"_remove_helper": "C02", "_update_helper": "C03"}


@rule("C01.R1", ["C01", "C02", "C03"], min_instances=8, design="3.1")
def exact_index_answers(ctx):
    """Position sets handed out by Index.search are exact, or every consumer re-evaluates the query."""
    f, S, details = analyse_search_helper(ctx)
    cons = index_consumers(ctx)
    by_func: Dict[str, Func] = {}
    for cf, _ in cons:
        by_func[cf.qual] = cf
    if len(by_func) < 7:
        raise AnalysisError("C01.R1", f"expected >=7 consumers of Index.search, found {sorted(by_func)}")
    all_sanitise = all(_sanitises(ctx, cf) for cf in by_func.values())
    kinds_seen: Dict[str, int] = {}
    for r, v, why in details:
        ok = v == EXACT or all_sanitise
        # construct key by role (no local variable names): what kind of result this return hands out
        kind = why.split(" (")[0] if why.startswith("leaf") else (
            "items replaced by the universe" if "universe" in why else why.split(" (")[0])
        kinds_seen[kind] = kinds_seen.get(kind, 0) + 1
        kkey = kind + (f" #{kinds_seen[kind]}" if kinds_seen[kind] > 1 else "")
        yield Ob("C01.R1", ["C01", "C02", "C03"], f"{f.qual} | result exactness | {kkey}",
                 ok, f"{v}: {why}" if v == EXACT else
                 f"returns a {v} position set ({why}) that consumers use as the exact match set",
                 ctx.prog.loc(r), {"abstract_value": v, "summary": S})
    for q, cf in sorted(by_func.items()):
        san = _sanitises(ctx, cf)
        ok = S == EXACT or san
        prop = PROP_OF_CONSUMER.get(cf.name, "C01")
        yield Ob("C01.R1", [prop], f"{q} | consumes index result as exact", ok,
                 ("index summary is EXACT" if S == EXACT else "consumer re-evaluates the query on selected rows")
                 if ok else f"index summary is {S} and the selected rows are used without re-evaluating the query",
                 cf.loc(), {"summary": S, "sanitises": san})


@rule("C01.R10", ["C01", "C02", "C03"], min_instances=1, design="3.1")
def whole_index_shortcut_only_picks_the_path(ctx):
    """The `every indexed position is a candidate` shortcut of a consumer only switches to the scan path (which evaluates the query on every row); it sets no other flag -- candidates are not matches."""
    cons = index_consumers(ctx)
    seen = set()
    n = 0
    for cf, _ in cons:
        if cf.qual in seen:
            continue
        seen.add(cf.qual)
        prop = PROP_OF_CONSUMER.get(cf.name, "C01")
        for t in walk_local(cf.node):
            if not (isinstance(t, ast.If) and isinstance(t.test, ast.Compare) and len(t.test.ops) == 1
                    and isinstance(t.test.ops[0], ast.Eq)):
                continue
            a, b = norm(t.test.left), norm(t.test.comparators[0])
            if not (a.startswith("len(") and b.startswith("len(") and ("_index" in a + b) and ("items" in a + b)):
                continue
            n += 1
            flags = []
            other = []
            for st in t.body:
                if isinstance(st, ast.Assign) and len(st.targets) == 1 and isinstance(st.targets[0], ast.Name) \
                        and const_value(st.value) is False:
                    flags.append(st.targets[0].id)
                elif isinstance(st, (ast.Return, ast.Pass)) or (isinstance(st, ast.Expr) and isinstance(st.value, ast.Call)):
                    continue  # answering from the candidates is judged by `consumes index result as exact`
                else:
                    other.append(st)
            # the cleared flag must be the one that gates the index loop
            gate_ok = all(any(isinstance(i, ast.If) and norm(i.test) == fl_ for i in walk_local(cf.node)) for fl_ in flags)
            ok = not other and gate_ok
            yield Ob("C01.R10", [prop], f"{cf.qual} | whole-index shortcut{occ(cf, t)}", ok,
                     "only selects the scan path" if ok else
                     (f"`{norm(other[0], 60)}` inside the shortcut: the scan that follows no longer evaluates the query, although the "
                      f"index hands out candidates, not matches (e.g. for a negated field query)" if other else
                      f"flag(s) {flags} do not gate the index loop"), ctx.prog.loc(t))
    # the same decision written as an assignment of the gating flag: `use_index = len(items) != len(index)`
    for cf in {c_.qual: c_ for c_, _ in cons}.values():
        for st in walk_local(cf.node):
            if isinstance(st, ast.Assign) and len(st.targets) == 1 and isinstance(st.targets[0], ast.Name) \
                    and isinstance(st.value, ast.Compare) and len(st.value.ops) == 1 and isinstance(st.value.ops[0], (ast.NotEq, ast.Eq)):
                a, b = norm(st.value.left), norm(st.value.comparators[0])
                if a.startswith("len(") and b.startswith("len(") and ("_index" in a + b) and ("items" in a + b):
                    n += 1
                    fl_ = st.targets[0].id
                    gate_ok = isinstance(st.value.ops[0], ast.NotEq) and any(
                        isinstance(i, ast.If) and norm(i.test) == fl_ for i in walk_local(cf.node))
                    yield Ob("C01.R10", [PROP_OF_CONSUMER.get(cf.name, "C01")], f"{cf.qual} | whole-index shortcut{occ(cf, st)}", gate_ok,
                             "only selects the scan path" if gate_ok else
                             f"`{norm(st, 60)}` does not clear the flag that gates the index loop when every position is a candidate",
                             ctx.prog.loc(st))
    if n < 1:
        raise AnalysisError("C01.R10", f"no whole-index shortcut found in the consumers of Index.search")


@rule("C01.R11", ["C01"], min_instances=1, design="3.1")
def get_answers_none_when_nothing_matches(ctx):
    """`TinyFlux.get` returns its result variable, which is None when nothing matched: after the search loops no attribute of it is read except under a test that it is set."""
    f = ctx.prog.func("TinyFlux.get", "C01.R11")
    rets = [r for r in walk_local(f.node) if isinstance(r, ast.Return) and isinstance(r.value, ast.Name)]
    if not rets:
        raise AnalysisError("C01.R11", "TinyFlux.get does not return a result variable")
    rv = rets[-1].value.id
    if not any(const_value(v) is None for v in assignments_to(f, rv)):
        raise AnalysisError("C01.R11", f"result variable `{rv}` of TinyFlux.get is not initialised to None")
    bad = []
    n = 0
    for x in walk_local(f.node):
        if isinstance(x, ast.Attribute) and isinstance(x.value, ast.Name) and x.value.id == rv \
                and not any(isinstance(a_, (ast.For, ast.While)) for a_ in ancestors(x)):
            n += 1
            cl = guard_clauses(guards(x))
            if not any(len(c) == 1 and next(iter(c)) in ((f"truthy({rv})", True), (f"is(None,{rv})", False)) for c in cl):
                bad.append(f"`{norm(x)}` (line {x.lineno}) is read although `{rv}` is None when no point matched: get() raises "
                           f"AttributeError instead of answering None")
    yield Ob("C01.R11", ["C01"], f"{f.qual} | result is only dereferenced when set", not bad,
             "; ".join(bad[:2]) if bad else f"{n} attribute read(s) of `{rv}` after the search, each under `if {rv}`", f.loc())


def leaves(ctx) -> Dict[str, Func]:
    """point_attr literal -> leaf search function, from the dispatch in _search_helper."""
    f = _search_helper(ctx)
    out: Dict[str, Func] = {}
    for n in walk_local(f.node):
        if isinstance(n, ast.If) and isinstance(n.test, ast.Compare) and isinstance(n.test.ops[0], ast.Eq) \
                and isinstance(n.test.comparators[0], ast.Constant) and "point_attr" in norm(n.test.left):
            lit = n.test.comparators[0].value
            for x in n.body:
                for c in ast.walk(x):
                    if isinstance(c, ast.Call) and isinstance(c.func, ast.Attribute) and is_self_attr(c.func):
                        m = ctx.prog.lookup_method("Index", c.func.attr)
                        if m is not None and m is not f:
                            out[lit] = m
    return out


@rule("C01.R2", ["C01", "C06", "C02", "C03", "C10"], min_instances=4, design="3.1")
def leaf_scan_agreement(ctx):
    """Index leaves evaluate the same function as the scan path: _test(_path_resolver(stored value))."""
    lv = leaves(ctx)
    if len(lv) < 4:
        raise AnalysisError("C01.R2", f"expected 4 index leaves, found {sorted(lv)}")
    fl = fields_of(ctx)
    for attr, f in sorted(lv.items()):
        qp = f.params()[1] if len(f.params()) > 1 else "query"
        tests = [n for n in walk_local(f.node) if isinstance(n, ast.Call) and isinstance(n.func, ast.Attribute)
                 and n.func.attr == "_test" and isinstance(n.func.value, ast.Name) and n.func.value.id == qp]
        direct = [n for n in walk_local(f.node) if isinstance(n, ast.Call) and isinstance(n.func, ast.Name)
                  and n.func.id == qp]
        if not tests and not direct:
            yield Ob("C01.R2", ["C01", "C02", "C03"], f"{f.qual} | evaluates the query test", False,
                     "leaf never evaluates query._test or query(...)", f.loc())
            continue
        for t in tests:
            arg = t.args[0] if t.args else None
            ok = False
            why = ""
            if arg is not None:
                srcs = [arg]
                if isinstance(arg, ast.Name):
                    srcs = assignments_to(f, arg.id) or [arg]
                ok = any(isinstance(s, ast.Call) and isinstance(s.func, ast.Attribute) and s.func.attr == "_path_resolver"
                         for s in srcs)
                if not ok:
                    why = (f"_test is applied to `{norm(arg)}`, which is not the result of query._path_resolver(...) "
                           f"(a mapped path, e.g. .map(f), is ignored by this leaf)")
                else:
                    # the resolver must be fed the stored value bound by the enclosing loop
                    loop = None
                    for a_ in ancestors(t):
                        if isinstance(a_, ast.For):
                            loop = a_
                            break
                    rcalls = [s for s in srcs if isinstance(s, ast.Call) and isinstance(s.func, ast.Attribute)
                              and s.func.attr == "_path_resolver"]
                    if loop is not None and rcalls:
                        tn = names_in(loop.target)
                        for rc in rcalls:
                            an = set()
                            for a_ in rc.args:
                                an |= names_in(a_)
                            if not (an & tn):
                                ok = False
                                why = (f"the resolver is applied to `{norm(rc.args[0]) if rc.args else '?'}`, which does "
                                       f"not contain the stored value bound by the loop ({sorted(tn)})")
            yield Ob("C01.R2", ["C01", "C02", "C03"], f"{f.qual} | _test argument | {norm(t)}{occ(f, t)}", ok,
                     why or "tested value is the resolver's result", ctx.prog.loc(t))
            # the add must be control-dependent on the test being true and bound by the same loop
            loop = None
            for a in ancestors(t):
                if isinstance(a, ast.For):
                    loop = a
                    break
            if loop is not None:
                tt = norm(t)
                adds = [c for c in walk_local(loop) if (isinstance(c, ast.Call) and call_name(c) in ("add", "update")
                                                        and isinstance(c.func, ast.Attribute))
                        or (isinstance(c, ast.Assign) and isinstance(c.value, ast.Call)
                            and call_name(c.value) in ("union",))
                        or (isinstance(c, ast.Assign) and isinstance(c.value, ast.BinOp) and isinstance(c.value.op, ast.BitOr))
                        or (isinstance(c, ast.AugAssign) and isinstance(c.op, ast.BitOr))]
                adds = [c for c in adds if not any(isinstance(a_, (ast.For,)) and a_ is not loop and in_subtree(a_, loop)
                                                   and in_subtree(c, a_) and not in_subtree(t, a_) for a_ in ancestors(c))]
                good = []
                wrong = []
                for c in adds:
                    cl = guard_clauses(guards(c, stop=loop))
                    pos = any(len(x) == 1 and next(iter(x)) == (f"truthy({tt})", True) for x in cl)
                    neg = any(len(x) == 1 and next(iter(x)) == (f"truthy({tt})", False) for x in cl)
                    if pos:
                        good.append(c)
                    elif neg:
                        wrong.append(c)
                ok2 = bool(good) and not wrong
                msg = "positions are added exactly when the test is true"
                if wrong:
                    msg = "positions are added when the test is FALSE"
                elif not good:
                    msg = "no position is added under the true outcome of the test"
                else:
                    tn = names_in(loop.target)
                    added = set()
                    for c in good:
                        cc = c if isinstance(c, ast.Call) else c.value
                        for a_ in cc.args:
                            added |= names_in(a_)
                    if not (added & tn):
                        ok2 = False
                        msg = (f"added positions {sorted(added)} are not bound by the loop that binds the "
                               f"tested value ({sorted(tn)})")
                yield Ob("C01.R2", ["C01", "C02", "C03"], f"{f.qual} | add under test | {norm(t, 80)}{occ(f, t)}", ok2, msg,
                         ctx.prog.loc(t))
        # every stored value is examined: no break/return inside a loop that evaluates the test
        for lp in walk_local(f.node):
            if isinstance(lp, (ast.For, ast.While)) and any(t in list(ast.walk(lp)) for t in tests):
                exits = [x for x in walk_local(lp) if isinstance(x, (ast.Break, ast.Return))]
                yield Ob("C01.R2", ["C01", "C02", "C03", "C10"], f"{f.qual} | leaf loop examines every stored value | {first_line(lp, 70)}",
                         not exits, "no early exit from the loop" if not exits else
                         f"`{norm(exits[0])}` at line {exits[0].lineno} leaves the loop early: one value for which the "
                         f"path cannot be resolved (or the first hit) hides all later values", ctx.prog.loc(lp))
        # branches that answer without evaluating _test must not be reachable for queries with a path
        fast = []
        for n in walk_local(f.node):
            if isinstance(n, ast.Return) and n.value is not None:
                g_ = guards(n)
                keyed = [c for c, pol in g_ if not hasattr(c, "stmt") and pol and "operator." in norm(c)]
                if keyed:
                    fast.append(n)
        if fast:
            # is there any guard on the query's path being empty?
            guarded = all(any(not hasattr(c, "stmt") and "_path" in norm(c) and "_path_resolver" not in norm(c)
                              for c, pol in guards(n)) for n in fast)
            yield Ob("C01.R2", ["C01"], f"{f.qual} | fast paths ignore the query path", guarded,
                     "operator-keyed fast paths are guarded by an empty-path test" if guarded else
                     f"{len(fast)} operator-keyed returns answer from the raw stored value without applying "
                     f"_path_resolver; a query with a mapped path gets a different answer than on the scan path",
                     f.loc(), {"fast_returns": len(fast)})


@rule("C01.R3", ["C01"], min_instances=2, design="3.1")
def keyless_queries(ctx):
    """Every SimpleQuery construction is dominated by the `path required and empty -> raise` guard."""
    for f in ctx.prog.all_funcs():
        if f.module != "queries":
            continue
        for n in walk_local(f.node):
            if isinstance(n, ast.Call) and isinstance(n.func, ast.Name) and n.func.id == "SimpleQuery":
                g = ctx.cfg(f, exceptional=False)
                ids = g.ids_of(stmt_of(n))

                def is_guard(x) -> bool:
                    if x.kind != "test":
                        return False
                    t = norm(x.ast.test)
                    if "_path_required" in t and "not self._path" in t.replace("(", "").replace(")", ""):
                        return any(isinstance(s, ast.Raise) for s in x.ast.body)
                    return False
                ok = bool(ids) and all(g.dominated(i, is_guard) for i in ids)
                yield Ob("C01.R3", ["C01"], f"{f.qual} | SimpleQuery construction | path-required guard", ok,
                         "construction is dominated by the path-required guard" if ok else
                         "a tag/field query without a key can be built here; the tag/field index leaves only "
                         "enumerate points that carry at least one tag/field, so it under-matches on the index path",
                         ctx.prog.loc(n))


SETOP = {"__and__": ("intersection", ast.BitAnd), "__or__": ("union", ast.BitOr)}


@rule("C01.R4", ["C01", "C09"], min_instances=10, design="3.1")
def algebra_homomorphism(ctx):
    """operator.and_/or_/not_ branches use &,|,~ on both operands; IndexResult dunders do the matching set operation; leaf dispatch keys match the query classes."""
    f = _search_helper(ctx)
    # (a) IndexResult dunders
    for dn, (meth, opc) in SETOP.items():
        m = ctx.prog.func(f"IndexResult.{dn}", "C01.R4")
        other = m.params()[1]
        rets = [n for n in walk_local(m.node) if isinstance(n, ast.Return)]
        ok = False
        for r in rets:
            for c in ast.walk(r):
                if isinstance(c, ast.Call) and isinstance(c.func, ast.Attribute) and c.func.attr == meth \
                        and norm(c.func.value) in ("self._items", "self.items") and c.args \
                        and norm(c.args[0]) in (f"{other}._items", f"{other}.items"):
                    ok = True
                if isinstance(c, ast.BinOp) and isinstance(c.op, opc) and {norm(c.left), norm(c.right)} <= {
                        "self._items", "self.items", f"{other}._items", f"{other}.items"} \
                        and norm(c.left) != norm(c.right):
                    ok = True
        yield Ob("C01.R4", ["C01"], f"{m.qual} | set operation", ok,
                 f"computes the {meth} of both item sets" if ok else f"does not compute self._items.{meth}(other._items)",
                 m.loc())
    m = ctx.prog.func("IndexResult.__invert__", "C01.R4")
    ok = False
    for c in walk_local(m.node):
        if isinstance(c, ast.Call) and isinstance(c.func, ast.Attribute) and c.func.attr == "difference" \
                and norm(c.func.value) == "set(range(self._index_count))" and c.args \
                and norm(c.args[0]) in ("self._items", "self.items"):
            ok = True
        if isinstance(c, ast.BinOp) and isinstance(c.op, ast.Sub) and norm(c.left) == "set(range(self._index_count))" \
                and norm(c.right) in ("self._items", "self.items"):
            ok = True
    yield Ob("C01.R4", ["C01"], f"{m.qual} | set operation", ok,
             "complement with respect to range(index_count)" if ok else
             "does not compute set(range(index_count)) - items", m.loc())
    # index_count must be the index size at every IndexResult construction in Index
    fl = fields_of(ctx)
    cnt = next(iter(fl.count))
    for g in ctx.prog.methods_of("Index"):
        for c in walk_local(g.node):
            if isinstance(c, ast.Call) and isinstance(c.func, ast.Name) and c.func.id == "IndexResult":
                a1 = c.args[1] if len(c.args) > 1 else None
                for k in c.keywords:
                    if k.arg == "index_count":
                        a1 = k.value
                ok = a1 is not None and norm(a1) in (f"self.{cnt}", "len(self)")
                yield Ob("C01.R4", ["C01"], f"{g.qual} | IndexResult universe size | {norm(c, 70)}{occ(g, c)}", ok,
                         "universe is the number of indexed items" if ok else
                         f"universe size is {norm(a1) if a1 is not None else 'missing'}, not the item count",
                         ctx.prog.loc(c))
    # (b) operator branches
    want = {"operator.and_": (ast.BitAnd, 2), "operator.or_": (ast.BitOr, 2), "operator.not_": (ast.Invert, 1)}
    qp = f.params()[1]
    # guard-based: which returns can execute when query.operator is X (and is none of the others)?
    rets_all = [r for r in walk_local(f.node) if isinstance(r, ast.Return)]
    atoms = {opn: "eq(" + ",".join(sorted([opn, f"{qp}.operator"])) + ")" for opn in want}
    rcl = {}
    for r in rets_all:
        cl = guard_clauses(guards(r))
        if any(a_ in {l[0] for c in cl for l in c} for a_ in atoms.values()):
            rcl[r] = cl

    def under(cl, opn):
        facts = [(atoms[o], o == opn) for o in want] + [(f"truthy(isinstance({qp}, CompoundQuery))", True)]
        return consistent_with(cl, facts)
    missing = set()
    for opn, (opc, arity) in want.items():
        rets = [r for r, cl in rcl.items() if under(cl, opn)]
        if not rets:
            missing.add(opn)
            continue
        exp = [f"{qp}.query1", f"{qp}.query2"][:arity]
        bad = []
        for r in rets:
            v = r.value
            if arity == 2 and not (isinstance(v, ast.BinOp) and isinstance(v.op, opc)):
                bad.append(f"return `{norm(v, 40)}` does not combine with the matching operator")
                continue
            if arity == 1 and not (isinstance(v, ast.UnaryOp) and isinstance(v.op, opc)):
                # the negation branch may also answer through an explicit (conservative) construction; R1 judges that
                continue
            parts = [v.left, v.right] if arity == 2 else [v.operand]
            visited = []
            for part in parts:
                if isinstance(part, ast.Name):
                    vals = [x for x in assignments_to(f, part.id) if under(guard_clauses(guards(x)), opn)]
                else:
                    vals = [part]
                if not vals or not all(isinstance(x, ast.Call) and call_name(x) == f.name and x.args for x in vals):
                    bad.append(f"operand {norm(part, 30)} is not a recursive search result")
                    continue
                visited.append(sorted({norm(x.args[0]) for x in vals}))
            if not bad and sorted(sum(visited, [])) != exp:
                bad.append(f"recursive calls visit {sorted(sum(visited, []))}, expected {exp}")
        if arity == 1 and not any(isinstance(r.value, ast.UnaryOp) and isinstance(r.value.op, opc) for r in rets):
            bad.append(f"no return applies the IndexResult operator for {opn}")
        anchor = rets[0]
        yield Ob("C01.R4", ["C01", "C09"], f"{f.qual} | branch {opn}", not bad,
                 "; ".join(bad) if bad else f"{opn} maps to the matching IndexResult operator on {exp}",
                 ctx.prog.loc(anchor))
    if missing:
        raise AnalysisError("C01.R4", f"compound branches not found in {f.qual}: {sorted(missing)}")
    # (c) leaf dispatch keys == _point_attr literals of the query classes, and each leaf reads its own map
    lits = {}
    for cname in ctx.prog.subclasses("BaseQuery", strict=True):
        init = ctx.prog.classes[cname].methods.get("__init__")
        if init is None:
            continue
        for n in walk_local(init.node):
            if isinstance(n, ast.Assign) and any(is_self_attr(t, "_point_attr") for t in n.targets) \
                    and isinstance(n.value, ast.Constant):
                lits[cname] = n.value.value
    lv = leaves(ctx)
    ok = set(lits.values()) == set(lv.keys()) and len(lits) >= 4
    yield Ob("C01.R4", ["C01"], f"{f.qual} | leaf dispatch keys agree with query classes", ok,
             f"dispatch keys {sorted(lv)} == query attrs {sorted(lits.values())}" if ok else
             f"dispatch keys {sorted(lv)} differ from the _point_attr literals {lits}", f.loc())
    expect_reads = {"_time": fl.sorted | fl.pos, "_measurement": {"_measurements"}, "_tags": {"_tags"},
                    "_fields": {"_fields"}}
    for attr, leaf in sorted(lv.items()):
        reads = {n.attr for n in walk_local(leaf.node) if is_self_attr(n)} & set(fl.all)
        exp = expect_reads.get(attr)
        ok = exp is not None and reads <= set(exp) and bool(reads)
        yield Ob("C01.R4", ["C01"], f"{f.qual} | leaf for {attr} reads its own container", ok,
                 f"{leaf.name} reads {sorted(reads)}" if ok else
                 f"{leaf.name} reads {sorted(reads)}, expected a subset of {sorted(exp or [])}", leaf.loc())


TIME_SPEC = {
    "operator.lt": ("find_lt", "prefix"), "operator.le": ("find_le", "prefix"),
    "operator.gt": ("find_gt", "suffix"), "operator.ge": ("find_ge", "suffix"),
    "operator.eq": ("find_eq", "run"), "operator.ne": ("find_eq", "corun"),
}


@rule("C01.R7", ["C01", "C08"], min_instances=6, design="3.1")
def time_range_dispatch(ctx):
    """Each `op == operator.N` branch of the time leaf calls find_N and slices the position array on N's side."""
    lv = leaves(ctx)
    f = lv.get("_time")
    if f is None:
        raise AnalysisError("C01.R7", "time leaf not found")
    fl = fields_of(ctx)
    S = next(iter(fl.sorted))
    P = next(iter(fl.pos))
    seen = set()
    for n in walk_local(f.node):
        if not (isinstance(n, ast.If) and isinstance(n.test, ast.Compare) and isinstance(n.test.ops[0], ast.Eq)
                and norm(n.test.comparators[0]) in TIME_SPEC):
            continue
        opn = norm(n.test.comparators[0])
        # `op` must be the query's operator
        lhs = n.test.left
        lhs_ok = (isinstance(lhs, ast.Name) and any("_operator" in norm(v) for v in assignments_to(f, lhs.id))) \
            or "_operator" in norm(lhs)
        seen.add(opn)
        helper, shape = TIME_SPEC[opn]
        bad = []
        if not lhs_ok:
            bad.append("branch is not keyed on the query's operator")
        body = n.body
        finds = [c for s in body for c in ast.walk(s) if isinstance(c, ast.Call) and isinstance(c.func, ast.Name)
                 and c.func.id.startswith("find_")]
        if [c.func.id for c in finds] != [helper]:
            bad.append(f"calls {[c.func.id for c in finds]}, expected [{helper}]")
        for c in finds:
            if len(c.args) == 2 and not norm(c.args[1]).endswith(".timestamp()"):
                bad.append(f"probe {norm(c.args[1])} is not a POSIX timestamp")
        mvar = None
        for s in body:
            if isinstance(s, ast.Assign) and isinstance(s.value, ast.Call) and s.value in finds \
                    and isinstance(s.targets[0], ast.Name):
                mvar = s.targets[0].id
        if mvar is None:
            bad.append("find_* result is not bound to a name")
        else:
            none_ret = None
            for s in body:
                if isinstance(s, ast.If) and norm(s.test) in (f"{mvar} is None", f"None is {mvar}"):
                    for r in s.body:
                        if isinstance(r, ast.Return):
                            none_ret = norm(r.value)
            empty = ("set([])", "set()", "set({})")
            if shape == "corun":
                if none_ret != f"set(self.{P})":
                    bad.append(f"`no equal timestamp` returns {none_ret}, expected every position")
            elif none_ret not in empty:
                bad.append(f"`no boundary` returns {none_ret}, expected the empty set")
            rets = [r for s in body if not isinstance(s, ast.If) for r in ast.walk(s) if isinstance(r, ast.Return)]
            final = norm(rets[-1].value) if rets else None
            if shape == "prefix" and final != f"set(self.{P}[:{mvar} + 1])":
                bad.append(f"returns {final}, expected set(self.{P}[:{mvar} + 1]) (positions up to and including the boundary)")
            if shape == "suffix" and final != f"set(self.{P}[{mvar}:])":
                bad.append(f"returns {final}, expected set(self.{P}[{mvar}:]) (positions from the boundary on)")
            if shape in ("run", "corun"):
                bad += _equal_run_problems(ctx, f, body, mvar, S, P, shape, final)
        yield Ob("C01.R7", ["C01", "C08"], f"{f.qual} | branch {opn}", not bad,
                 "; ".join(bad) if bad else f"{opn}: {helper} + {shape} of the position array", ctx.prog.loc(n))
    missing = set(TIME_SPEC) - seen
    if missing:
        raise AnalysisError("C01.R7", f"time branches not found: {sorted(missing)}")


def _equal_run_problems(ctx, f: Func, body, mvar: str, S: str, P: str, shape: str, final) -> list:
    """Structural check of the scan over the run of equal timestamps (name-agnostic; the scan may
    live in the branch itself or in a private helper the branch calls)."""
    bad = []
    # candidate statement lists: the branch body, and bodies of helpers of Index called from it
    places = [(body, mvar)]
    for st in body:
        for c in ast.walk(st):
            if isinstance(c, ast.Call) and isinstance(c.func, ast.Attribute) and is_self_attr(c.func):
                h = ctx.prog.lookup_method("Index", c.func.attr)
                if h is not None and h is not f and h.name not in ("_search_helper",):
                    # which helper parameter receives the boundary rank?
                    hp = None
                    for i_, a_ in enumerate(c.args):
                        if isinstance(a_, ast.Name) and a_.id == mvar and i_ + 1 < len(h.params()):
                            hp = h.params()[i_ + 1]
                    for k_ in c.keywords:
                        if isinstance(k_.value, ast.Name) and k_.value.id == mvar:
                            hp = k_.arg
                    if hp is not None:
                        places.append((h.node.body, hp))
    # a plain copy of the boundary rank (k = match) is the same cursor
    for st in body:
        if isinstance(st, ast.Assign) and len(st.targets) == 1 and isinstance(st.targets[0], ast.Name) \
                and isinstance(st.value, ast.Name) and st.value.id == mvar:
            places.append((body, st.targets[0].id))
    best = None
    for place in places:
        got = _equal_run_at(place, S, P, shape, final)
        if best is None or len(got) < len(best):
            best = got
    return best or []


def _equal_run_at(place, S: str, P: str, shape: str, final) -> list:
    bad = []
    found = None
    for stmts, var in [place]:
        for st in stmts:
            if not isinstance(st, (ast.While, ast.For)):
                continue
            cmps = [x for x in ast.walk(st) if isinstance(x, ast.Compare) and len(x.ops) == 1
                    and isinstance(x.ops[0], (ast.NotEq, ast.Eq))
                    and any(isinstance(y, ast.Subscript) and is_self_attr(y.value, S) for y in ast.walk(x))]
            adds = [x for x in ast.walk(st) if isinstance(x, ast.Call) and call_name(x) == "add" and x.args
                    and isinstance(x.args[0], ast.Subscript) and is_self_attr(x.args[0].value, P)]
            if cmps and adds:
                found = (stmts, var, st, cmps, adds)
    if found is None:
        return ["no scan over the run of equal timestamps (compare S[k] with the probe, collect P[k])"]
    stmts, var, loop, cmps, adds = found
    seed = [x for st in stmts if st is not loop for x in ast.walk(st)
            if isinstance(x, ast.Subscript) and is_self_attr(x.value, P) and norm(x.slice) == var]
    if not seed:
        bad.append(f"the boundary position self.{P}[{var}] itself is not collected")
    fresh_cursor = None
    if isinstance(loop, ast.While):
        # a separate cursor initialised to <boundary> + 1 is the same scan
        t_ = loop.test
        if isinstance(t_, ast.Compare) and len(t_.ops) == 1 and isinstance(t_.ops[0], ast.Lt) and isinstance(t_.left, ast.Name) \
                and t_.left.id != var:
            inits = [x for x in stmts[:stmts.index(loop)] if isinstance(x, ast.Assign) and len(x.targets) == 1
                     and norm(x.targets[0]) == t_.left.id]
            if len(inits) == 1 and norm(inits[0].value) in (f"{var} + 1", f"1 + {var}"):
                fresh_cursor = t_.left.id
        cur = fresh_cursor or var
        if norm(loop.test) not in (f"{cur} < len(self.{S})", f"len(self.{S}) > {cur}"):
            bad.append(f"scan condition is `{norm(loop.test)}`, expected `{cur} < len(self.{S})` (the last entry must be inspected)")
        idx = cur
    else:
        idx = norm(loop.target)
    for c_ in cmps:
        sub = [y for y in ast.walk(c_) if isinstance(y, ast.Subscript) and is_self_attr(y.value, S)]
        if any(norm(y.slice) != idx for y in sub):
            bad.append(f"comparison `{norm(c_)}` does not look at the scanned position `{idx}`")
        if not any(norm(y).endswith(".timestamp()") for y in [c_.left] + c_.comparators):
            bad.append(f"comparison `{norm(c_)}` is not against the probe's timestamp")
    for a_ in adds:
        if norm(a_.args[0].slice) != idx:
            bad.append(f"`{norm(a_)}` collects a position other than the scanned one")
    if isinstance(loop, ast.While):
        kinds = []
        for x in loop.body:
            if isinstance(x, ast.If):
                kinds.append("cmp")
                if isinstance(cmps[0].ops[0], ast.NotEq) and not any(isinstance(y, ast.Break) for y in x.body):
                    bad.append("the scan does not stop at the first different timestamp")
            elif isinstance(x, ast.Expr) and any(x.value is a_ for a_ in adds):
                kinds.append("add")
            elif isinstance(x, ast.AugAssign) and norm(x.target) == idx:
                kinds.append("adv")
                if not (isinstance(x.op, ast.Add) and norm(x.value) == "1"):
                    bad.append(f"the scan advances by `{norm(x)}`")
        if kinds != ["cmp", "add", "adv"]:
            bad.append(f"scan body order is {kinds}, expected compare, collect, advance")
        pre = [x for x in stmts[:stmts.index(loop)] if isinstance(x, ast.AugAssign) and norm(x.target) == idx]
        if fresh_cursor is not None:
            if pre:
                bad.append("the scan does not start at the entry after the boundary")
        elif len(pre) != 1 or norm(pre[0].value) != "1":
            bad.append("the scan does not start at the entry after the boundary")
    # what the branch finally returns
    if shape == "run":
        ok = final is not None and ("_items" not in final) and (not final.startswith("set(self."))
        if not ok:
            bad.append(f"returns {final}, expected the collected run")
    else:
        if final is None or not (final.startswith(f"set(self.{P}).difference(") or final.startswith(f"set(self.{P}) - ")):
            bad.append(f"returns {final}, expected set(self.{P}).difference(<equal run>)")
    return bad
