"""C06: structural invariants of the Index state record (D4, D5 typestate part).

Field roles are discovered from use, not from names:
  sorted container S  = Index attribute passed as the list argument of find_*;
  position array  P   = Index attribute zipped with S / subscripted next to S;
  count               = attribute returned by Index.__len__;
  flag                = attribute returned by the `valid` property;
  inverted maps       = the remaining annotated Dict attributes.
"""

from __future__ import annotations

import ast
from typing import Dict, List, Optional, Set, Tuple

from ..astq import assignments_to, call_name, in_subtree, names_in, occ, self_attrs_in, stmt_of
from ..logic import guard_clauses, guards, entails
from ..model import (AnalysisError, Func, first_line, is_self_attr, norm, parent,
                     walk_local, ancestors)
from ..report import Ob, rule

FIND = {"find_eq", "find_lt", "find_le", "find_gt", "find_ge"}
MUTATORS = {"append", "extend", "insert", "clear", "pop", "remove", "sort", "reverse",
            "update", "setdefault", "popitem", "add", "discard"}


class IndexFields:
    def __init__(self, ctx):
        p = ctx.prog
        ci = p.cls("Index", "C06")
        self.all: List[str] = [a for a in ci.annotations]
        if len(self.all) < 5:
            raise AnalysisError("C06", "Index declares fewer than 5 annotated state fields")
        self.sorted: Set[str] = set()
        self.pos: Set[str] = set()
        self.count: Set[str] = set()
        self.flag: Set[str] = set()
        for f in p.methods_of("Index"):
            for n in walk_local(f.node):
                if isinstance(n, ast.Call) and isinstance(n.func, ast.Name) and n.func.id in FIND and n.args:
                    if is_self_attr(n.args[0]):
                        self.sorted.add(n.args[0].attr)
        for f in p.methods_of("Index"):
            for n in walk_local(f.node):
                if isinstance(n, ast.Call) and isinstance(n.func, ast.Name) and n.func.id == "zip":
                    attrs = [a.attr for a in n.args if is_self_attr(a)]
                    if any(a in self.sorted for a in attrs):
                        self.pos |= {a for a in attrs if a not in self.sorted}
        ln = ci.methods.get("__len__")
        if ln is not None:
            for n in walk_local(ln.node):
                if isinstance(n, ast.Return) and n.value is not None and is_self_attr(n.value):
                    self.count.add(n.value.attr)
        if not self.count:
            # __len__ may compute the size from a container; the counter is then the int-typed field
            # that IndexResult constructions receive as the universe size
            for f in p.methods_of("Index"):
                for n in walk_local(f.node):
                    if isinstance(n, ast.Call) and isinstance(n.func, ast.Name) and n.func.id == "IndexResult":
                        cand = [a for a in list(n.args[1:2]) + [k.value for k in n.keywords if k.arg == "index_count"]
                                if is_self_attr(a)]
                        for a in cand:
                            if a.attr in self.all and norm(ci.annotations.get(a.attr)) == "int":
                                self.count.add(a.attr)
        vg = ci.methods.get("valid")
        if vg is not None:
            for n in walk_local(vg.node):
                if isinstance(n, ast.Return) and n.value is not None and is_self_attr(n.value):
                    self.flag.add(n.value.attr)
        self.maps = [a for a in self.all if a not in self.sorted | self.pos | self.count | self.flag]
        if not (self.sorted and self.pos and self.count and self.flag and len(self.maps) >= 3):
            raise AnalysisError(
                "C06", f"cannot classify Index fields: sorted={self.sorted} pos={self.pos} "
                       f"count={self.count} flag={self.flag} maps={self.maps}")

    @property
    def position_bearing(self) -> List[str]:
        return sorted(self.pos) + list(self.maps)


def fields_of(ctx) -> IndexFields:
    c = getattr(ctx, "_index_fields", None)
    if c is None:
        c = IndexFields(ctx)
        ctx._index_fields = c
    return c


def sorted_fields(ctx) -> Set[str]:
    return set(fields_of(ctx).sorted)


def _is_elementwise_map(n: ast.AST) -> bool:
    """`self.X = [g(v) for v in self.X]` -- same length, values renumbered."""
    if not (isinstance(n, ast.Assign) and len(n.targets) == 1 and is_self_attr(n.targets[0])):
        return False
    v = n.value
    return isinstance(v, ast.ListComp) and len(v.generators) == 1 and not v.generators[0].ifs \
        and is_self_attr(v.generators[0].iter, n.targets[0].attr)


def direct_writes(f: Func, structural_only: bool = False) -> Dict[str, List[ast.AST]]:
    """self.X fields written (assigned or mutated in place) directly in f."""
    out: Dict[str, List[ast.AST]] = {}
    for n in walk_local(f.node):
        if structural_only and _is_elementwise_map(n):
            continue
        if isinstance(n, (ast.Assign, ast.AugAssign, ast.AnnAssign, ast.Delete)):
            ts = n.targets if isinstance(n, (ast.Assign, ast.Delete)) else [n.target]
            for t in ts:
                for el in (t.elts if isinstance(t, (ast.Tuple, ast.List)) else [t]):
                    base = el
                    while isinstance(base, ast.Subscript):
                        base = base.value
                    if is_self_attr(base):
                        out.setdefault(base.attr, []).append(n)
        elif isinstance(n, ast.Call) and isinstance(n.func, ast.Attribute) and n.func.attr in MUTATORS:
            base = n.func.value
            while isinstance(base, ast.Subscript):
                base = base.value
            if is_self_attr(base):
                out.setdefault(base.attr, []).append(n)
    return out


def self_calls(ctx, f: Func) -> List[Func]:
    out = []
    for n in walk_local(f.node):
        if isinstance(n, ast.Call) and isinstance(n.func, ast.Attribute) and is_self_attr(n.func):
            m = ctx.prog.lookup_method(f.cls or "Index", n.func.attr) if f.cls else None
            if m is not None:
                out.append(m)
    return out


def transitive_writes(ctx, f: Func, seen: Optional[Set[str]] = None,
                      structural_only: bool = False) -> Dict[str, str]:
    """field -> qualname of the method that writes it (first found)."""
    seen = seen or set()
    if f.qual in seen:
        return {}
    seen.add(f.qual)
    out: Dict[str, str] = {k: f.qual for k in direct_writes(f, structural_only)}
    for g in self_calls(ctx, f):
        for k, v in transitive_writes(ctx, g, seen, structural_only).items():
            out.setdefault(k, v)
    return out


def external_index_calls(ctx) -> Dict[str, List[Tuple[Func, ast.AST]]]:
    """Index methods used from outside the Index class -> [(caller, node)]."""
    out: Dict[str, List[Tuple[Func, ast.AST]]] = {}
    for f in ctx.prog.all_funcs():
        if f.cls == "Index" or (f.parent is not None and f.parent.cls == "Index"):
            continue
        for n in walk_local(f.node):
            if isinstance(n, ast.Call):
                for tg in ctx.res.resolve_call(n, f, quiet=True):
                    if isinstance(tg, Func) and tg.cls == "Index":
                        out.setdefault(tg.name, []).append((f, n))
            elif isinstance(n, ast.Attribute) and isinstance(n.ctx, ast.Load):
                for tg in ctx.res.property_target(n, f):
                    if tg.cls == "Index":
                        out.setdefault(tg.name, []).append((f, n))
    return out


def operations(ctx) -> List[Func]:
    ext = external_index_calls(ctx)
    ops = []
    for m in ctx.prog.cls("Index").methods.values():
        if m.kind == "getter":
            continue
        if m.name in ext or not m.name.startswith("_") or m.name == "__init__":
            ops.append(m)
    return ops


def reset_like(ctx) -> List[Func]:
    out = []
    for m in ctx.prog.cls("Index").methods.values():
        n_empty = 0
        for n in walk_local(m.node):
            if isinstance(n, ast.Assign) and any(is_self_attr(t) for t in n.targets):
                v = n.value
                if (isinstance(v, (ast.Dict, ast.List)) and not (getattr(v, "keys", None) or getattr(v, "elts", None))) \
                        or (isinstance(v, ast.Constant) and v.value == 0 and not isinstance(v.value, bool)):
                    n_empty += 1
        if n_empty >= 3:
            out.append(m)
    return out


@rule("C06.R1", ["C06", "C01", "C07"], min_instances=4, design="3.6")
def parallel_containers(ctx):
    """Every Index operation writes the sorted timestamps, their position array and the count together or not at all."""
    fl = fields_of(ctx)
    group = fl.sorted | fl.pos | fl.count
    for op in operations(ctx):
        # element-wise renumbering keeps lengths: only structural writes must go together
        w = transitive_writes(ctx, op, structural_only=True)
        touched = {k for k in w if k in group}
        if not touched:
            continue
        missing = sorted(group - touched)
        via = {k: w[k] for k in sorted(touched)}
        props = ["C06", "C01", "C07"] + (["C02"] if "remove" in op.name else [])
        yield Ob("C06.R1", props, f"{op.qual} | co-mutation of {sorted(group)}", not missing,
                 (f"writes {sorted(touched)} but not {missing} (parallel containers drift apart)"
                  if missing else f"writes all of {sorted(group)}"),
                 op.loc(), {"written_via": via})


@rule("C06.R2", ["C06", "C01", "C02", "C07"], min_instances=4, design="3.6")
def whole_state_coverage(ctx):
    """Whole-state operations cover every field; remove/renumber cover every position-bearing container."""
    fl = fields_of(ctx)
    rl = reset_like(ctx)
    if len(rl) < 2:
        raise AnalysisError("C06.R2", f"expected __init__ and a reset operation, found {[m.qual for m in rl]}")
    for m in rl:
        w = transitive_writes(ctx, m)
        missing = [a for a in fl.all if a not in w]
        yield Ob("C06.R2", ["C06", "C01", "C07"], f"{m.qual} | defines every state field", not missing,
                 f"leaves {missing} untouched" if missing else f"defines all {len(fl.all)} fields",
                 m.loc())
    # rebuild: calls a reset-like op and takes the points
    for m in ctx.prog.cls("Index").methods.values():
        if m in rl:
            continue
        callees = self_calls(ctx, m)
        if any(c in rl for c in callees) and len(m.params()) >= 2 and direct_writes(m):
            w = transitive_writes(ctx, m)
            dw = {k for k in direct_writes(m)} | {k for c in callees if c not in rl
                                                  for k in transitive_writes(ctx, c)}
            missing = [a for a in fl.all if a not in w]
            notpop = [a for a in fl.all if a not in dw and a not in fl.flag]
            yield Ob("C06.R2", ["C06", "C01", "C07"], f"{m.qual} | rebuild populates every field",
                     not missing and not notpop,
                     (f"never defines {missing}; " if missing else "") +
                     (f"resets but never repopulates {notpop}" if notpop else
                      f"populates all {len(fl.all) - len(fl.flag)} data fields"), m.loc())
    # renumbering operations used by the remove path of database.py
    ext = external_index_calls(ctx)
    for name, sites in sorted(ext.items()):
        m = ctx.prog.lookup_method("Index", name)
        if m is None or m.kind == "getter" or len(m.params()) != 2:
            continue
        ann = norm(m.param_annotation(m.params()[1])) if m.param_annotation(m.params()[1]) is not None else ""
        if not any(f.qual == "TinyFlux._remove_helper" for f, _ in sites):
            continue
        w = transitive_writes(ctx, m)
        if ann.startswith("Set["):
            need = fl.position_bearing + sorted(fl.sorted) + sorted(fl.count)
            what = "filters every position-bearing container, the sorted timestamps and the count"
        elif ann.startswith("Dict["):
            need = fl.position_bearing
            what = "renumbers every position-bearing container"
        else:
            continue
        missing = [a for a in need if a not in w]
        yield Ob("C06.R2", ["C06", "C01", "C02", "C07"], f"{m.qual} | {what}", not missing,
                 f"does not touch {missing}" if missing else f"covers {need}", m.loc())


def _unit_env(ctx, f: Func, fl: IndexFields) -> Dict[str, str]:
    """name -> RANK | POS | POSSET for locals of an Index method."""
    env: Dict[str, str] = {}
    for p_ in f.params()[1:]:
        ann = f.param_annotation(p_)
        a = norm(ann) if ann is not None else ""
        if a.startswith("Set[int]") or a.startswith("Dict[int, int]"):
            env[p_] = "POSSET"
        elif a == "int" and p_ in ("idx", "new_idx"):
            env[p_] = "POS"
    for n in walk_local(f.node):
        it = tgt = None
        if isinstance(n, ast.For):
            it, tgt = n.iter, n.target
        elif isinstance(n, ast.comprehension):
            it, tgt = n.iter, n.target
        if it is not None:
            if isinstance(it, ast.Call) and isinstance(it.func, ast.Name) and it.func.id == "enumerate" and it.args:
                src = it.args[0]
                if is_self_attr(src) and src.attr in fl.sorted | fl.pos and isinstance(tgt, ast.Tuple):
                    if isinstance(tgt.elts[0], ast.Name):
                        env[tgt.elts[0].id] = "RANK"
                    if src.attr in fl.pos and isinstance(tgt.elts[1], ast.Name):
                        env[tgt.elts[1].id] = "POS"
            elif is_self_attr(it) and it.attr in fl.pos and isinstance(tgt, ast.Name):
                env[tgt.id] = "POS"
            elif isinstance(it, ast.Call) and isinstance(it.func, ast.Name) and it.func.id == "zip" \
                    and isinstance(tgt, ast.Tuple) and len(tgt.elts) == len(it.args):
                for a_, t_ in zip(it.args, tgt.elts):
                    if is_self_attr(a_) and a_.attr in fl.pos and isinstance(t_, ast.Name):
                        env[t_.id] = "POS"
            elif isinstance(it, ast.Call) and isinstance(it.func, ast.Name) and it.func.id == "range" \
                    and it.args and isinstance(tgt, ast.Name):
                a0 = it.args[-1] if len(it.args) <= 2 else it.args[1]
                if isinstance(a0, ast.Call) and isinstance(a0.func, ast.Name) and a0.func.id == "len" \
                        and a0.args and is_self_attr(a0.args[0]) and a0.args[0].attr in fl.sorted | fl.pos:
                    env[tgt.id] = "RANK"
        if isinstance(n, ast.Assign) and len(n.targets) == 1 and isinstance(n.targets[0], ast.Name):
            v = n.value
            if isinstance(v, ast.Call) and isinstance(v.func, ast.Name) and v.func.id in FIND:
                env[n.targets[0].id] = "RANK"
    # containers of (position, value) pairs: the annotated List[Tuple[int, ...]] map (fields)
    pair_maps = set()
    ci = ctx.prog.cls("Index")
    for a_, ann in ci.annotations.items():
        if "List[Tuple[int" in norm(ann):
            pair_maps.add(a_)
    pair_lists = set()
    for n in walk_local(f.node):
        if isinstance(n, ast.For) and isinstance(n.iter, ast.Call) and call_name(n.iter) in ("items", "values") \
                and is_self_attr(n.iter.func.value) and n.iter.func.value.attr in pair_maps:
            t_ = n.target
            if call_name(n.iter) == "items" and isinstance(t_, ast.Tuple) and len(t_.elts) == 2 \
                    and isinstance(t_.elts[1], ast.Name):
                pair_lists.add(t_.elts[1].id)
            elif call_name(n.iter) == "values" and isinstance(t_, ast.Name):
                pair_lists.add(t_.id)
    for n in walk_local(f.node):
        it = tgt = None
        if isinstance(n, (ast.For, ast.comprehension)):
            it, tgt = n.iter, n.target
        if it is not None and isinstance(tgt, ast.Name):
            if (isinstance(it, ast.Name) and it.id in pair_lists) or (
                    isinstance(it, ast.Subscript) and is_self_attr(it.value) and it.value.attr in pair_maps):
                env[tgt.id] = "PAIR"
    return env


@rule("C06.R3", ["C06", "C02", "C01", "C07"], min_instances=1, design="3.6")
def position_vs_rank(ctx):
    """Ranks (indices into the sorted timestamps) and storage positions are never mixed."""
    fl = fields_of(ctx)
    n_sites = 0
    for f in ctx.prog.methods_of("Index"):
        env = _unit_env(ctx, f, fl)
        if not env:
            continue
        for n in walk_local(f.node):
            if isinstance(n, ast.Compare) and len(n.ops) == 1 and isinstance(n.ops[0], (ast.In, ast.NotIn)):
                l, r = n.left, n.comparators[0]
                if isinstance(l, ast.Name) and isinstance(r, ast.Name) and l.id in env and r.id in env:
                    n_sites += 1
                    bad = env[l.id] in ("RANK", "PAIR") and env[r.id] == "POSSET"
                    yield Ob("C06.R3", ["C06", "C02", "C01", "C07"], f"{f.qual} | membership | {norm(n)}", not bad,
                             ((f"`{l.id}` is a rank in the sorted timestamps but `{r.id}` holds storage positions"
                               if env[l.id] == "RANK" else
                               f"`{l.id}` is a (position, value) pair but `{r.id}` holds storage positions: the test "
                               f"is never true, nothing is ever filtered")
                              if bad else f"{env[l.id]} tested against {env[r.id]}"),
                             ctx.prog.loc(n))
            if isinstance(n, ast.Subscript) and is_self_attr(n.value) and isinstance(n.slice, ast.Name) \
                    and n.slice.id in env:
                n_sites += 1
                attr = n.value.attr
                u = env[n.slice.id]
                bad = attr in fl.sorted | fl.pos and u == "POS"
                yield Ob("C06.R3", ["C06", "C02", "C01", "C07"], f"{f.qual} | subscript | {norm(n)}", not bad,
                         (f"self.{attr} is rank-indexed but `{n.slice.id}` is a storage position"
                          if bad else f"self.{attr}[{u}]"), ctx.prog.loc(n))
    if n_sites == 0:
        yield Ob("C06.R3", ["C06", "C02", "C01", "C07"], "Index | no rank/position mixing sites", True,
                 "no membership or subscript site mixes inferred units", nontrivial=False)


def _valid_atoms(ctx, f: Func) -> Dict[str, bool]:
    """Local flag names whose truth implies `index.valid` (e.g. use_index)."""
    flags: Dict[str, bool] = {}
    for n in walk_local(f.node):
        if isinstance(n, ast.Assign) and len(n.targets) == 1 and isinstance(n.targets[0], ast.Name):
            nm = n.targets[0].id
            v = n.value
            ok = _implies_valid(v)
            if isinstance(v, ast.Constant) and v.value is False:
                ok = True
            if not ok and any(pol and isinstance(c, ast.Name) and c.id == nm for c, pol in guards(n)
                              if not hasattr(c, "stmt")):
                ok = True  # re-assigned only where the flag was already true: it can only get weaker
            if nm in flags:
                flags[nm] = flags[nm] and ok
            else:
                flags[nm] = ok
    return {k: v for k, v in flags.items() if v}


def _is_valid_read(e: ast.AST) -> bool:
    return isinstance(e, ast.Attribute) and e.attr == "valid" and (
        norm(e.value).endswith("_index") or norm(e.value).endswith(".index"))


def _implies_valid(e: ast.AST) -> bool:
    if _is_valid_read(e):
        return True
    if isinstance(e, ast.BoolOp) and isinstance(e.op, ast.And):
        return any(_implies_valid(v) for v in e.values)
    return False


def guarded_by_valid(ctx, f: Func, node: ast.AST, depth: int = 0) -> bool:
    flags = _valid_atoms(ctx, f)
    for cond, pol in guards(node):
        if hasattr(cond, "stmt"):
            continue
        if pol and _cond_implies_valid(cond, flags):
            return True
    # a private helper: guarded iff every one of its call sites is
    if depth < 3 and f.cls is not None and f.name.startswith("_") and not f.name.startswith("__"):
        sites = []
        for g in ctx.prog.all_funcs():
            for c in walk_local(g.node):
                if isinstance(c, ast.Call) and isinstance(c.func, ast.Attribute) and c.func.attr == f.name \
                        and is_self_attr(c.func) and ctx.res.self_class(g) == f.cls:
                    sites.append((g, c))
        if sites and all(guarded_by_valid(ctx, g, c, depth + 1) for g, c in sites):
            return True
    return False


def _cond_implies_valid(e: ast.AST, flags: Dict[str, bool]) -> bool:
    if _is_valid_read(e):
        return True
    if isinstance(e, ast.Name) and e.id in flags:
        return True
    if isinstance(e, ast.BoolOp) and isinstance(e.op, ast.And):
        return any(_cond_implies_valid(v, flags) for v in e.values)
    return False


CONTENT_READS = None


@rule("C06.R5", ["C06", "C01", "C07"], min_instances=20, design="3.6")
def answers_only_from_valid_index(ctx):
    """Every read of index content outside Index is control-dependent on index.valid being true."""
    fl = fields_of(ctx)
    safe_names = {"valid", "invalidate", "build", "_reset", "insert", "remove", "update", "__init__"}
    ext = external_index_calls(ctx)
    for name, sites in sorted(ext.items()):
        if name in safe_names:
            continue
        for f, n in sites:
            ok = guarded_by_valid(ctx, f, n)
            # reads whose value only feeds a dependent read already under the guard
            yield Ob("C06.R5", ["C06", "C01", "C07"], f"{f.qual} | index read {name} | {norm(stmt_of(n), 90)}",
                     ok, "guarded by index.valid" if ok else
                     f"Index.{name} consulted without a dominating `valid` test", ctx.prog.loc(n))
    # direct reads of content fields from outside
    for f in ctx.prog.all_funcs():
        if f.cls == "Index" or (f.parent is not None and f.parent.cls == "Index"):
            continue
        for n in walk_local(f.node):
            if isinstance(n, ast.Attribute) and n.attr in fl.all and n.attr not in fl.flag \
                    and isinstance(n.value, ast.Attribute) and ctx.res.type_of(n.value, f) == "Index":
                ok = guarded_by_valid(ctx, f, n)
                yield Ob("C06.R5", ["C06", "C01", "C07"],
                         f"{f.qual} | direct read {n.attr} | {norm(stmt_of(n), 90)}", ok,
                         "guarded by index.valid" if ok else
                         f"index field {n.attr} read without a dominating `valid` test", ctx.prog.loc(n))


@rule("C06.R5b", ["C06"], min_instances=1, design="3.6")
def read_gate_reindexes(ctx):
    """The read gate rebuilds an invalid index (auto-index on) before the wrapped method runs."""
    dec = ctx.prog.func("read_op", "C06.R5b")
    ops = [g for g in ctx.prog.nested(dec)]
    if len(ops) != 1:
        raise AnalysisError("C06.R5b", "read_op wrapper not found")
    op = ops[0]
    g = ctx.cfg(op, exceptional=False)
    calls = [n for n in g.stmt_nodes() for c in n.calls() if isinstance(c.func, ast.Name) and c.func.id == "method"]
    reidx = [c for n in walk_local(op.node) if isinstance(n, ast.Call) for c in [n]
             if isinstance(c.func, ast.Attribute) and c.func.attr == "reindex"]
    ok = bool(calls) and bool(reidx)
    why = []
    if reidx:
        cl = guard_clauses(guards(reidx[0]))
        has_auto = any(len(c) == 1 and next(iter(c))[1] and "_auto_index" in next(iter(c))[0] for c in cl)
        has_inv = any(len(c) == 1 and not next(iter(c))[1] and "valid" in next(iter(c))[0] for c in cl)
        extra = [c for c in cl if not (len(c) == 1 and ("_auto_index" in next(iter(c))[0] or "valid" in next(iter(c))[0]))]
        if not (has_auto and has_inv) or extra:
            ok = False
            why.append(f"reindex is guarded by {sorted(map(sorted, cl))}, expected exactly auto_index and not valid")
        # the reindex branch must come before the method call on every path
        for cn in calls:
            def is_guard(x):
                return x.kind == "test" and any(isinstance(y, ast.Attribute) and y.attr == "valid" for y in x.walk())
            if not g.dominated(cn.id, is_guard):
                ok = False
                why.append("wrapped method can run without passing the validity test")
    else:
        why.append("no reindex call in the read gate")
    yield Ob("C06.R5b", ["C06"], f"{op.qual} | reindex-before-read", ok,
             "; ".join(why) if why else "invalid index is rebuilt (auto-index) before the method runs", op.loc())
    # reindex itself must build when invalid
    rx = ctx.prog.func("TinyFlux.reindex", "C06.R5b")
    builds = [n for n in walk_local(rx.node) if isinstance(n, ast.Call) and isinstance(n.func, ast.Attribute)
              and n.func.attr == "build"]
    ok2 = bool(builds)
    msg = "reindex builds the index from storage when it is invalid"
    if builds:
        cl = guard_clauses(guards(builds[0]))
        bad = [c for c in cl if not (len(c) == 1 and "valid" in next(iter(c))[0] and not next(iter(c))[1])]
        if bad:
            ok2 = False
            msg = f"build is additionally conditioned on {sorted(map(sorted, bad))}"
        src = builds[0].args[0] if builds[0].args else None
        storages = set(ctx.prog.subclasses("Storage"))
        reads_storage = src is not None and any(
            isinstance(x, ast.comprehension) and ctx.res.type_of(x.iter, rx) in storages for x in ast.walk(src))
        deser = src is not None and any(isinstance(x, ast.Call) and call_name(x) == "_deserialize_storage_item"
                                        for x in ast.walk(src))
        if not (reads_storage and deser):
            ok2 = False
            msg = "build is not fed with every deserialised storage row"
    else:
        msg = "reindex never calls Index.build"
    yield Ob("C06.R5b", ["C06"], f"{rx.qual} | build-from-storage", ok2, msg, rx.loc())


def _sorted_source(ctx, f: Func, value: ast.AST, fl: IndexFields, stmt: ast.stmt) -> Tuple[bool, str]:
    """Is `value` (assigned to the sorted container) sorted by construction?"""
    if isinstance(value, ast.List) and not value.elts:
        return True, "empty list"
    if isinstance(value, ast.ListComp) and len(value.generators) == 1:
        gen = value.generators[0]
        src = gen.iter
        elt = value.elt
        tgt = gen.target
        # order-preserving filter of the container itself (optionally via zip/enumerate)
        srcs = [src]
        if isinstance(src, ast.Call) and isinstance(src.func, ast.Name) and src.func.id in ("zip", "enumerate"):
            srcs = list(src.args)
        for k, s in enumerate(srcs):
            if is_self_attr(s) and s.attr in fl.sorted:
                # element must be the component bound to the container
                comp = tgt
                if isinstance(src, ast.Call) and src.func.id == "zip" and isinstance(tgt, ast.Tuple):
                    comp = tgt.elts[k]
                if isinstance(src, ast.Call) and src.func.id == "enumerate" and isinstance(tgt, ast.Tuple):
                    comp = tgt.elts[1]
                if isinstance(comp, ast.Name) and norm(elt) == comp.id:
                    return True, "order-preserving filter of the sorted container"
        # projection of a locally sorted buffer
        if isinstance(src, ast.Name):
            buf = src.id
            bvals = assignments_to(f, buf)
            # the buffer is itself an order-preserving filter of zip(<sorted container>, ...): its
            # component at the sorted container's slot is sorted
            if len(bvals) == 1 and isinstance(bvals[0], ast.ListComp) and len(bvals[0].generators) == 1 \
                    and isinstance(bvals[0].generators[0].iter, ast.Call) and norm(bvals[0].generators[0].iter.func) == "zip":
                zc = bvals[0].generators[0].iter
                slots = [k for k, a_ in enumerate(zc.args) if is_self_attr(a_) and a_.attr in fl.sorted]
                bt, be = bvals[0].generators[0].target, bvals[0].elt
                if slots and isinstance(bt, ast.Tuple) and isinstance(be, ast.Tuple) \
                        and [norm(x) for x in bt.elts] == [norm(x) for x in be.elts] \
                        and isinstance(tgt, ast.Tuple) and len(tgt.elts) == len(bt.elts) \
                        and isinstance(tgt.elts[slots[0]], ast.Name) and norm(elt) == tgt.elts[slots[0]].id:
                    return True, "projection of an order-preserving filter of the sorted container"
            key_ok, why = _buffer_sorted_by(ctx, f, buf, elt, tgt, stmt)
            return key_ok, why
        if isinstance(src, ast.Call) and isinstance(src.func, ast.Name) and src.func.id == "sorted" and src.args:
            key = None
            for k in src.keywords:
                if k.arg == "key":
                    key = k.value
                if k.arg == "reverse":
                    return False, "sorted(..., reverse=...)"
            if _key_matches(key, elt, tgt):
                return True, "projection of sorted(...) by the projected key"
            return False, "sorted() key differs from the projected element"
    if isinstance(value, ast.Name):
        # new list built by an order-preserving loop over the container
        buf = value.id
        inits = assignments_to(f, buf)
        if inits and all(isinstance(v, ast.List) and not v.elts for v in inits):
            ok = True
            n_app = 0
            for n in walk_local(f.node):
                if isinstance(n, ast.Call) and isinstance(n.func, ast.Attribute) and isinstance(n.func.value, ast.Name) \
                        and n.func.value.id == buf:
                    if n.func.attr != "append":
                        return False, f"buffer mutated by .{n.func.attr}()"
                    n_app += 1
                    loop = None
                    for a in ancestors(n):
                        if isinstance(a, ast.For):
                            loop = a
                            break
                    if loop is None:
                        return False, "append outside a loop over the sorted container"
                    it = loop.iter
                    srcs = [it]
                    comp = loop.target
                    if isinstance(it, ast.Call) and isinstance(it.func, ast.Name) and it.func.id in ("zip", "enumerate"):
                        srcs = list(it.args)
                    found = False
                    for k, s in enumerate(srcs):
                        if is_self_attr(s) and s.attr in fl.sorted:
                            c = loop.target
                            if isinstance(it, ast.Call) and it.func.id == "zip" and isinstance(c, ast.Tuple):
                                c = c.elts[k]
                            elif isinstance(it, ast.Call) and it.func.id == "enumerate" and isinstance(c, ast.Tuple):
                                c = c.elts[1]
                            if isinstance(c, ast.Name) and n.args and norm(n.args[0]) == c.id:
                                found = True
                    if not found and isinstance(it, ast.Call) and isinstance(it.func, ast.Name) and it.func.id == "sorted" and it.args \
                            and n.args and not any(k_.arg == "reverse" for k_ in it.keywords):
                        # loop over sorted(buffer, key=...), appending the key component of each entry
                        key_ = next((k_.value for k_ in it.keywords if k_.arg == "key"), None)
                        if _key_matches(key_, n.args[0], loop.target):
                            found = True
                    if not found and isinstance(it, ast.Name) and n.args and isinstance(n.args[0], ast.Name):
                        # loop over a locally sorted buffer, appending one component of each entry
                        okb, whyb = _buffer_sorted_by(ctx, f, it.id, n.args[0], loop.target, loop)
                        if not okb:
                            return False, whyb
                        found = True
                    if not found:
                        return False, "appended value is not the iterated element of the sorted container"
            if n_app:
                return True, "order-preserving filter loop over the sorted container"
    return False, f"cannot show `{norm(value, 60)}` is sorted"


def _key_matches(key: Optional[ast.AST], elt: ast.AST, tgt: ast.AST) -> bool:
    if isinstance(tgt, ast.Tuple) and isinstance(elt, ast.Name) and isinstance(key, ast.Lambda) \
            and len(key.args.args) == 1:
        # [a for a, b in buf] sorted by key=lambda x: x[0]
        kv = key.args.args[0].arg
        for i, comp in enumerate(tgt.elts):
            if isinstance(comp, ast.Name) and comp.id == elt.id:
                return norm(key.body) == f"{kv}[{i}]"
        return False
    if not isinstance(tgt, ast.Name):
        return False
    if key is None:
        return norm(elt) == tgt.id
    if isinstance(key, ast.Lambda) and len(key.args.args) == 1:
        kv = key.args.args[0].arg
        body = norm(key.body)
        import re
        return re.sub(rf"\b{kv}\b", tgt.id, body) == norm(elt)
    return False


def _buffer_sorted_by(ctx, f: Func, buf: str, elt: ast.AST, tgt: ast.AST, stmt: ast.stmt) -> Tuple[bool, str]:
    g = ctx.cfg(f, exceptional=False)
    sorts = []
    for n in walk_local(f.node):
        if isinstance(n, ast.Call) and isinstance(n.func, ast.Attribute) and n.func.attr == "sort" \
                and isinstance(n.func.value, ast.Name) and n.func.value.id == buf:
            sorts.append(n)
    if not sorts:
        return False, f"buffer `{buf}` is never sorted before it is projected"
    ids = g.ids_of(stmt)
    if not ids:
        return False, "statement not in CFG"
    ok_sort = None
    for s in sorts:
        key = None
        rev = False
        for k in s.keywords:
            if k.arg == "key":
                key = k.value
            if k.arg == "reverse":
                rev = True
        if rev or not _key_matches(key, elt, tgt):
            continue
        sid = g.ids_of(stmt_of(s))
        if sid and all(g.dominated(i, lambda x, sid=sid: x.id in sid) for i in ids):
            ok_sort = (s, sid)
    if ok_sort is None:
        return False, f"no dominating `{buf}.sort(key=<projected element>)`"
    # no mutation of the buffer between the sort and the projection
    s, sid = ok_sort
    def mutates(x):
        for c in x.calls():
            if isinstance(c.func, ast.Attribute) and isinstance(c.func.value, ast.Name) \
                    and c.func.value.id == buf and c.func.attr in MUTATORS and c is not s:
                return True
        return False
    reach = g.reachable(sid)
    for x in reach:
        if mutates(g.nodes[x]):
            # is the projection reachable from this mutation?
            if any(i in g.reachable([x]) for i in ids):
                return False, f"`{buf}` is mutated between the sort and the projection"
    return True, f"projection of `{buf}` sorted by the projected key"


@rule("C06.R6", ["C06", "C01", "C02", "C03"], min_instances=3, design="3.6")
def timestamps_stay_sorted(ctx):
    """Every write of the sorted timestamp container keeps it sorted by construction."""
    fl = fields_of(ctx)
    append_funcs: List[Func] = []
    for f in ctx.prog.methods_of("Index"):
        dw = direct_writes(f)
        for attr in fl.sorted:
            for n in dw.get(attr, []):
                if isinstance(n, ast.Assign):
                    ok, why = _sorted_source(ctx, f, n.value, fl, n)
                    yield Ob("C06.R6", ["C06", "C01", "C02", "C03"], f"{f.qual} | write {attr} | {norm(n, 100)}", ok, why,
                             ctx.prog.loc(n))
                elif isinstance(n, ast.Call) and n.func.attr == "append":
                    append_funcs.append(f)
                    yield Ob("C06.R6", ["C06", "C01", "C02", "C03"], f"{f.qual} | append {attr} | {norm(n, 100)}", True,
                             "in-order append; callers must pass the order test (checked at the call sites)",
                             ctx.prog.loc(n), nontrivial=False)
                else:
                    yield Ob("C06.R6", ["C06", "C01", "C02", "C03"], f"{f.qual} | mutate {attr} | {norm(n, 100)}", False,
                             "in-place mutation of the sorted container that is neither an append nor an "
                             "order-preserving rebuild", ctx.prog.loc(n))
    # the order test compares with the *largest* stored timestamp: latest_time reads the last entry of the sorted container
    lt = ctx.prog.lookup_method("Index", "latest_time")
    if lt is None:
        raise AnalysisError("C06.R6", "Index.latest_time not found")
    S_ = next(iter(fl.sorted))
    reads = [n for n in walk_local(lt.node) if isinstance(n, ast.Subscript) and is_self_attr(n.value, S_)]
    maxes = [n for n in walk_local(lt.node) if isinstance(n, ast.Call) and call_name(n) == "max" and n.args
             and is_self_attr(n.args[0], S_)]
    bad_lt = [n for n in reads if norm(n.slice) not in ("-1", f"len(self.{S_}) - 1")]
    ok = bool(reads or maxes) and not bad_lt
    yield Ob("C06.R6", ["C06", "C01", "C02", "C03"], f"{lt.qual} | reads the largest timestamp", ok,
             f"last entry of the sorted container self.{S_}" if ok else
             (f"`{norm(bad_lt[0])}` is not the last entry of the sorted timestamps: an insert older than the newest point passes "
              f"the order test and is appended, leaving a valid index with unsorted timestamps" if bad_lt else
              f"does not read self.{S_}"), lt.loc())
    # the appending operation is reachable from outside only under the order test
    if append_funcs:
        appenders = set()
        for op in operations(ctx):
            w = transitive_writes(ctx, op)
            if any(w.get(a) in {f.qual for f in append_funcs} for a in fl.sorted):
                appenders.add(op.name)
        ext = external_index_calls(ctx)
        for name in sorted(appenders):
            for f, n in ext.get(name, []):
                cl = guard_clauses(guards(n))
                want = None
                for c in cl:
                    lits = sorted(c)
                    if any("latest_time" in a and a.startswith("lt(") and not pol for a, pol in lits):
                        want = c
                ok = False
                why = "call is not guarded by `index empty or not (point.time < latest_time)`"
                if want is not None:
                    lits = dict(want)
                    lt_ok = any(a.startswith("lt(") and a.split(",")[1].rstrip(")").endswith("latest_time")
                                and ".time" in a.split(",")[0] and not pol for a, pol in want)
                    others = [(a, pol) for a, pol in want if not a.startswith("lt(")]
                    emp_ok = all("empty" in a and pol for a, pol in others) and len(others) <= 1
                    if lt_ok and emp_ok:
                        ok = True
                        why = "guarded by the order test (empty or time >= latest_time)"
                    else:
                        why = f"order guard has the wrong shape: {sorted(want)}"
                yield Ob("C06.R6", ["C06", "C01", "C02", "C03"], f"{f.qual} | in-order insert guard | {norm(n, 80)}", ok, why,
                         ctx.prog.loc(n))
        # and the out-of-order branch may only invalidate, exactly when out of order
        for f, n in ext.get("invalidate", []):
            if f.qual != "TinyFlux._insert_helper":
                continue
            cl = guard_clauses(guards(n))
            order = [c for c in cl if any("latest_time" in a for a, _ in c)]
            if not order:
                continue
            ok = any(len(c) == 1 and next(iter(c))[0].startswith("lt(") and next(iter(c))[1]
                     and ".time" in next(iter(c))[0].split(",")[0] for c in order)
            yield Ob("C06.R6", ["C06"], f"{f.qual} | out-of-order invalidate guard | {norm(n, 80)}", ok,
                     "invalidates exactly when the new time is strictly earlier than latest_time" if ok else
                     f"invalidation guard is not `point.time < latest_time`: {sorted(map(sorted, order))}",
                     ctx.prog.loc(n))


@rule("C06.R7", ["C06", "C13", "C01", "C11", "C07", "C02", "C03"], min_instances=1, design="3.6")
def valid_flag_set_last(ctx):
    """In a rebuild, the validity flag is set true only after every statement that may raise."""
    fl = fields_of(ctx)
    rl = reset_like(ctx)
    flag = next(iter(fl.flag))
    for m in ctx.prog.cls("Index").methods.values():
        if m in rl:
            continue
        callees = self_calls(ctx, m)
        if not (any(c in rl for c in callees) and len(m.params()) >= 2):
            continue
        g = ctx.cfg(m, exceptional=True)

        def sets_valid(x) -> bool:
            for e in x.walk():
                if isinstance(e, ast.Assign) and any(is_self_attr(t, flag) for t in e.targets) \
                        and isinstance(e.value, ast.Constant) and e.value.value is True:
                    return True
            for c in x.calls():
                if isinstance(c.func, ast.Attribute) and is_self_attr(c.func):
                    cal = ctx.prog.lookup_method("Index", c.func.attr)
                    if cal is not None:
                        for e in walk_local(cal.node):
                            if isinstance(e, ast.Assign) and any(is_self_attr(t, flag) for t in e.targets) \
                                    and isinstance(e.value, ast.Constant) and e.value.value is True:
                                return True
            return False

        def clears_valid(x) -> bool:
            for e in x.walk():
                if isinstance(e, ast.Assign) and any(is_self_attr(t, flag) for t in e.targets) \
                        and isinstance(e.value, ast.Constant) and e.value.value is False:
                    return True
            for c in x.calls():
                if isinstance(c.func, ast.Attribute) and is_self_attr(c.func) and c.func.attr == "invalidate":
                    return True
            return False

        # the rebuild starts from an empty index on every call (a rebuild that failed half-way leaves entries behind
        # whatever the validity flag says)
        resets = [c for c in walk_local(m.node) if isinstance(c, ast.Call) and isinstance(c.func, ast.Attribute)
                  and is_self_attr(c.func) and any(r_.name == c.func.attr for r_ in rl)]
        cond = [c for c in resets if guard_clauses(guards(c))]
        uncond = [c for c in resets if not guard_clauses(guards(c))]
        yield Ob("C06.R7", ["C06", "C13", "C01", "C07"], f"{m.qual} | rebuild starts from an empty index", bool(uncond),
                 "the containers are reset unconditionally" if uncond else
                 f"`{norm(cond[0], 40) if cond else 'reset'}` is conditional ({sorted(map(sorted, guard_clauses(guards(cond[0]))))[:2] if cond else 'missing'}): "
                 f"after a rebuild that raised half-way the next rebuild indexes on top of the leftovers", m.loc())
        setters = [x for x in g.stmt_nodes() if sets_valid(x)]
        if not setters:
            yield Ob("C06.R7", ["C06", "C13", "C01", "C11", "C07", "C02", "C03"], f"{m.qual} | rebuild sets flag", False,
                     "rebuild never marks the index valid", m.loc())
            continue
        bad = []
        for s in setters:
            # can an exception exit be reached after the flag was set, without clearing it?
            path = g.witness_path(s.id, clears_valid, [g.rexit], first_labels=lambda l: l != 'exc')
            if path:
                raiser = g.nodes[path[-2]] if len(path) >= 2 else None
                bad.append((s, raiser))
        ok = not bad
        if bad:
            s, r = bad[0]
            msg = (f"flag set true at line {s.lineno} ({first_line(s.ast, 60)}) and a later statement may "
                   f"raise (line {r.lineno if r else '?'}: {first_line(r.ast, 60) if r and r.ast is not None else '?'}),"
                   f" leaving a valid partially built index")
        else:
            msg = "flag is set true only after every may-raise statement of the rebuild"
        yield Ob("C06.R7", ["C06", "C13", "C01", "C11", "C07", "C02", "C03"], f"{m.qual} | validity flag set last", ok, msg, m.loc())


@rule("C06.R8", ["C06", "C01", "C07"], min_instances=3, design="3.6")
def position_bookkeeping(ctx):
    """Within one indexing step every container receives the same storage position for the same point."""
    fl = fields_of(ctx)
    S = next(iter(fl.sorted))
    P = next(iter(fl.pos))
    helpers = {}
    for m in ctx.prog.cls("Index").methods.values():
        if m.name.startswith("_insert_") and len(m.params()) >= 2:
            helpers[m.name] = m
    # (a) the per-point loops of insert/build hand one position expression to every helper
    for q in ("Index.insert", "Index.build"):
        f = ctx.prog.func(q, "C06.R8")
        loops = [n for n in walk_local(f.node) if isinstance(n, ast.For) and isinstance(n.iter, ast.Call)
                 and isinstance(n.iter.func, ast.Name) and n.iter.func.id == "enumerate"
                 and n.iter.args and isinstance(n.iter.args[0], ast.Name) and n.iter.args[0].id in f.params()]
        if len(loops) != 1 or not isinstance(loops[0].target, ast.Tuple):
            raise AnalysisError("C06.R8", f"{q}: per-point enumerate loop not recognised")
        lp = loops[0]
        if len(lp.iter.args) > 1 or lp.iter.keywords:
            start_arg = lp.iter.args[1] if len(lp.iter.args) > 1 else lp.iter.keywords[0].value
        else:
            start_arg = None
        ivar = norm(lp.target.elts[0])
        pvar = norm(lp.target.elts[1])
        bad = []
        posargs = {}
        n_time = 0
        for n in walk_local(lp):
            if isinstance(n, ast.Call) and isinstance(n.func, ast.Attribute) and is_self_attr(n.func) \
                    and n.func.attr in helpers:
                h = helpers[n.func.attr]
                ann0 = h.param_annotation(h.params()[1])
                if ann0 is not None and norm(ann0) == "int":
                    posargs[n.func.attr] = norm(n.args[0]) if n.args else "?"
                    if len(n.args) > 1 and not norm(n.args[1]).startswith(pvar + "."):
                        bad.append(f"{n.func.attr} receives `{norm(n.args[1])}`, not an attribute of the loop's point")
                else:
                    n_time += 1
                    if not (n.args and norm(n.args[0]).startswith(pvar + ".")):
                        bad.append(f"{n.func.attr} receives `{norm(n.args[0]) if n.args else '?'}`")
        if len(set(posargs.values())) > 1:
            bad.append(f"helpers receive different positions: {posargs}")
        if len(posargs) < 3:
            bad.append(f"expected tags, fields and measurements to be indexed per point, found {sorted(posargs)}")
        pos = next(iter(posargs.values())) if posargs else None
        if q == "Index.insert":
            # position = <count before the loop> + enumerate index ; the time helper runs once per point
            if n_time != 1:
                bad.append(f"the timestamp helper runs {n_time} times per point")
            vals = assignments_to(f, pos) if pos and pos.isidentifier() else []
            ok_def = False
            for v in vals:
                if isinstance(v, ast.BinOp) and isinstance(v.op, ast.Add):
                    parts = {norm(v.left), norm(v.right)}
                    other = parts - {ivar}
                    if ivar in parts and len(other) == 1:
                        base = other.pop()
                        bvals = assignments_to(f, base) if base.isidentifier() else []
                        if bvals and all(norm(b) in (f"len(self.{S})", f"len(self.{P})", f"self.{next(iter(fl.count))}")
                                         and not in_loop(b, lp) for b in bvals):
                            ok_def = True
            if pos == ivar and start_arg is not None:
                sv = [start_arg]
                if isinstance(start_arg, ast.Name):
                    sv = assignments_to(f, start_arg.id)
                if sv and all(norm(b) in (f"len(self.{S})", f"len(self.{P})", f"self.{next(iter(fl.count))}")
                              and not in_loop(b, lp) for b in sv):
                    ok_def = True
            if not ok_def:
                bad.append(f"position `{pos}` is not <number of indexed items before the loop> + <enumerate index>")
        else:
            if pos != ivar or start_arg is not None:
                bad.append(f"rebuild positions are `{pos}`, expected the enumerate index of the storage rows from 0")
            # the timestamp buffer pairs the same position with the timestamp
            apps = [n for n in walk_local(lp) if isinstance(n, ast.Call) and isinstance(n.func, ast.Attribute)
                    and n.func.attr == "append" and n.args and isinstance(n.args[0], ast.Tuple)]
            if len(apps) != 1 or [norm(e) for e in apps[0].args[0].elts] != [f"{pvar}.time.timestamp()", ivar]:
                bad.append("timestamp buffer does not receive (point.time.timestamp(), position)")
        yield Ob("C06.R8", ["C06", "C01", "C07"], f"{q} | one position per point for every container", not bad,
                 "; ".join(bad[:3]) if bad else f"all containers indexed with `{pos}`", f.loc())
    # (b) the in-order time helper records len(S) as the position *before* S grows
    for h in helpers.values():
        dw = direct_writes(h)
        if S in dw and P in dw:
            g = ctx.cfg(h, exceptional=False)
            pa = [n for n in dw[P] if isinstance(n, ast.Call) and n.func.attr == "append"]
            sa = [n for n in dw[S] if isinstance(n, ast.Call) and n.func.attr == "append"]
            bad = []
            if len(pa) != 1 or len(sa) != 1:
                bad.append("expected one append to each parallel array")
            else:
                a0_ = pa[0].args[0]
                taken_at = stmt_of(pa[0])
                if isinstance(a0_, ast.Name):
                    vs_ = assignments_to(h, a0_.id)
                    if len(vs_) == 1:
                        a0_ = vs_[0]
                        taken_at = stmt_of(a0_)
                if norm(a0_) not in (f"len(self.{S})", f"len(self.{P})"):
                    bad.append(f"position appended is `{norm(pa[0].args[0])}`, expected the current length")
                pid = g.ids_of(taken_at)
                sid = g.ids_of(stmt_of(sa[0]))
                if norm(a0_) == f"len(self.{S})" and pid and sid and pid[0] in g.reachable(sid):
                    bad.append("the timestamp is appended before its position is taken from len(timestamps): "
                               "positions are off by one")
                if not (sa[0].args and norm(sa[0].args[0]).endswith(".timestamp()")):
                    bad.append(f"timestamp appended is `{norm(sa[0].args[0]) if sa[0].args else '?'}`")
            yield Ob("C06.R8", ["C06", "C01", "C07"], f"{h.qual} | position taken before the timestamp is appended", not bad,
                     "; ".join(bad) if bad else "P.append(len(S)) precedes S.append(timestamp)", h.loc())


def in_loop(n: ast.AST, lp: ast.AST) -> bool:
    for a in ancestors(n):
        if a is lp:
            return True
    return False


def _emptiness(h, r_items: str):
    """Two-flag emptiness taint for the map-pruning helpers: 'E' = the value may be an empty
    container, 'V' = the (dict) value may hold an empty container as one of its values."""
    def loop_binding(name: str, at: ast.AST):
        """(iter expr, position of `name` in an items()-style tuple target or None) of the for/comprehension binding `name`."""
        for a in ancestors(at):
            gens = []
            if isinstance(a, ast.For):
                gens = [(a.target, a.iter)]
            elif isinstance(a, (ast.ListComp, ast.DictComp, ast.SetComp, ast.GeneratorExp)):
                gens = [(g.target, g.iter) for g in a.generators]
            for tgt, it in gens:
                if isinstance(tgt, ast.Tuple):
                    for i, e in enumerate(tgt.elts):
                        if isinstance(e, ast.Name) and e.id == name:
                            return it, i
                elif isinstance(tgt, ast.Name) and tgt.id == name:
                    return it, None
        return None

    def taint(e: ast.AST, refine: bool, depth: int = 0) -> Set[str]:
        if depth > 6:
            return set()
        if isinstance(e, ast.ListComp):
            if any(r_items in norm(c) for g in e.generators for c in g.ifs):
                return {"E"}
            return set()
        if isinstance(e, ast.Name):
            out: Set[str] = set()
            lb = loop_binding(e.id, e)
            if lb is not None:
                it, pos = lb
                if pos == 1 and isinstance(it, ast.Call) and isinstance(it.func, ast.Attribute) and it.func.attr == "items":
                    if "V" in taint(it.func.value, refine, depth + 1):
                        out.add("E")
                elif pos is None and isinstance(it, ast.Call) and isinstance(it.func, ast.Attribute) and it.func.attr == "values":
                    if "V" in taint(it.func.value, refine, depth + 1):
                        out.add("E")
            else:
                for v in assignments_to(h, e.id):
                    out |= taint(v, refine, depth + 1)
            if refine and "E" in out:
                cl = guard_clauses(guards(e))
                if any(len(c) == 1 and next(iter(c)) in ((f"truthy({e.id})", True), (f"truthy(len({e.id}))", True))
                       for c in cl):
                    out.discard("E")
            return out
        if isinstance(e, ast.DictComp):
            tv = taint(e.value, refine, depth + 1)
            if refine and any(norm(c) in (norm(e.value), f"len({norm(e.value)})") for g in e.generators for c in g.ifs):
                tv.discard("E")
            out = set()
            if "E" in tv:
                out.add("V")
            if any(g.ifs for g in e.generators) or any("E" in taint(g.iter.func.value, refine, depth + 1)
                                                       for g in e.generators if isinstance(g.iter, ast.Call)
                                                       and isinstance(g.iter.func, ast.Attribute)):
                out.add("E")
            return out
        if isinstance(e, ast.Dict):
            out = set()
            for v in e.values:
                if v is not None and "E" in taint(v, refine, depth + 1):
                    out.add("V")
            return out
        if isinstance(e, ast.Call) and isinstance(e.func, ast.Name) and e.func.id in ("list", "sorted", "dict", "tuple") and e.args:
            return taint(e.args[0], refine, depth + 1)
        return set()
    return taint


@rule("C06.R9", ["C06", "C07", "C02", "C01"], min_instances=3, design="3.6")
def removal_drops_empty_containers(ctx):
    """After Index.remove no key/value of an inverted map is left with an empty position list (a rebuilt index never has one)."""
    fl = fields_of(ctx)
    rm = ctx.prog.func("Index.remove", "C06.R9")
    helpers = [h for h in self_calls(ctx, rm) if any(a in direct_writes(h) for a in fl.maps)]
    if len(helpers) < 3:
        raise AnalysisError("C06.R9", f"expected 3 map-pruning helpers of Index.remove, found {[h.qual for h in helpers]}")
    for h in helpers:
        bad = []
        n_store = 0
        r_items = h.params()[1]
        taint = _emptiness(h, r_items)
        for n in walk_local(h.node):
            # stores of a (possibly filtered) position list / value map into a container
            if not isinstance(n, ast.Assign):
                continue
            t = n.targets[0]
            if not (isinstance(t, ast.Subscript) or (is_self_attr(t) and t.attr in fl.maps)):
                continue
            raw = taint(n.value, False)
            if not raw:
                continue
            n_store += 1
            left = taint(n.value, True)
            if is_self_attr(t):
                left.discard("E")  # the whole map may well end up empty; its *entries* may not
            if left:
                what = "an empty position list" if "E" in left and not isinstance(n.value, (ast.DictComp, ast.Dict)) \
                    else "an emptied entry"
                bad.append(f"`{norm(n, 70)}` keeps the key even when every position was removed ({what} can be stored): "
                           f"getters keep reporting a key/value no stored point has")
        if n_store == 0:
            bad.append("no store of a filtered position list found")
        yield Ob("C06.R9", ["C06", "C07", "C02", "C01"], f"{h.qual} | prunes emptied keys", not bad,
                 "; ".join(bad[:2]) if bad else f"{n_store} store(s) guarded by a non-empty test", h.loc())


@rule("C06.R10", ["C06", "C02", "C10", "C01", "C07", "C03", "C08"], min_instances=3, design="3.6")
def renumbering_is_total(ctx):
    """Index.update maps every stored position of every container through the old->new table, unconditionally."""
    fl = fields_of(ctx)
    up = ctx.prog.func("Index.update", "C06.R10")
    helpers = [h for h in self_calls(ctx, up)]
    if len(helpers) < 3:
        raise AnalysisError("C06.R10", f"expected renumbering helpers of Index.update, found {[h.qual for h in helpers]}")
    for h in helpers:
        u = h.params()[1]
        bad = []
        stores = []
        for n in walk_local(h.node):
            if isinstance(n, ast.Assign) and isinstance(n.value, ast.ListComp):
                t = n.targets[0]
                base = t
                while isinstance(base, ast.Subscript):
                    base = base.value
                if is_self_attr(base) and base.attr in fl.position_bearing:
                    stores.append(n)
        if not stores:
            bad.append("no renumbering store found")
        for n in stores:
            lc = n.value
            gen = lc.generators[0]
            if gen.ifs or len(lc.generators) != 1:
                bad.append(f"`{norm(n, 60)}` filters while renumbering")
            cond = [c for c, pol in guards(n) if not hasattr(c, "stmt")]
            if cond or any(hasattr(c, "stmt") for c, pol in guards(n)):
                bad.append(f"renumbering of a container entry is conditional ({norm(cond[0], 40) if cond else 'skipped by an early continue'}): "
                           f"entries that are skipped keep stale positions")
            e = lc.elt
            tv = norm(gen.target)
            ok_elt = False
            if isinstance(e, ast.IfExp):
                if norm(e.test) == f"{tv} in {u}" and norm(e.body) == f"{u}[{tv}]" and norm(e.orelse) == tv:
                    ok_elt = True
                if norm(e.test) == f"{tv}[0] in {u}" and norm(e.orelse) == tv and isinstance(e.body, ast.Tuple) \
                        and [norm(x) for x in e.body.elts] == [f"{u}[{tv}[0]]", f"{tv}[1]"]:
                    ok_elt = True
            if isinstance(e, ast.Call) and norm(e) == f"{u}.get({tv}, {tv})":
                ok_elt = True
            # unpacked tuple entries: (new-or-same(pos), value) for pos, value in ...
            if isinstance(gen.target, ast.Tuple) and isinstance(e, ast.Tuple) and len(gen.target.elts) == len(e.elts) == 2 \
                    and all(isinstance(x, ast.Name) for x in gen.target.elts):
                a_, b_ = (x.id for x in gen.target.elts)
                if norm(e.elts[1]) == b_ and norm(e.elts[0]) in (f"{u}.get({a_}, {a_})", f"{u}[{a_}] if {a_} in {u} else {a_}"):
                    comp0 = _tuple_position_component(ctx, fl)
                    if any(k_ == 0 for k_ in comp0.values()):
                        ok_elt = True
            if not ok_elt:
                bad.append(f"element `{norm(e, 50)}` is not `new[i] if i in new else i`")
            # iterated list must be the container's own current content
            src = gen.iter
            if isinstance(src, ast.Name):
                if src.id not in _position_list_vars(h, fl):
                    bad.append(f"iterates `{src.id}`, which is not a position list of the container (the value component of "
                               f"its `.items()`)")
            elif not is_self_attr(src) and not (isinstance(src, ast.Subscript) and is_self_attr(src.value)):
                bad.append(f"iterates `{norm(src, 40)}`")
        yield Ob("C06.R10", ["C06", "C02", "C10", "C01", "C07", "C03", "C08"], f"{h.qual} | total renumbering", not bad,
                 "; ".join(bad[:2]) if bad else f"{len(stores)} unconditional element-wise map(s)", h.loc())


def _position_list_vars(h: Func, fl) -> Set[str]:
    """Names that a loop of `h` binds to a *position list* of an inverted map: the value component of
    `.items()` / the target of `.values()` over `self.<map>` or over such a value itself (nested maps), minus the
    ones that are iterated again as mappings (inner dicts)."""
    vals: Dict[str, List[ast.AST]] = {}
    again: Set[str] = set()
    for n in walk_local(h.node):
        if isinstance(n, (ast.For, ast.comprehension)) and isinstance(n.iter, ast.Call) and isinstance(n.iter.func, ast.Attribute) \
                and n.iter.func.attr in ("items", "values") and not n.iter.args:
            root = n.iter.func.value
            if isinstance(root, ast.Name):
                again.add(root.id)
            rooted = (is_self_attr(root) and root.attr in fl.maps) or isinstance(root, ast.Name) or (
                isinstance(root, ast.Subscript) and is_self_attr(root.value) and root.value.attr in fl.maps)
            if not rooted:
                continue
            t_ = n.target
            if n.iter.func.attr == "items" and isinstance(t_, ast.Tuple) and len(t_.elts) == 2 and isinstance(t_.elts[1], ast.Name):
                vals.setdefault(t_.elts[1].id, []).append(root)
            elif n.iter.func.attr == "values" and isinstance(t_, ast.Name):
                vals.setdefault(t_.id, []).append(root)
    # keep only chains rooted at a map attribute
    def rooted_at_map(name: str, seen=()) -> bool:
        if name in seen:
            return False
        for r in vals.get(name, []):
            if is_self_attr(r) or isinstance(r, ast.Subscript):
                return True
            if isinstance(r, ast.Name) and rooted_at_map(r.id, seen + (name,)):
                return True
        return False
    return {v for v in vals if v not in again and rooted_at_map(v)}


def _tuple_position_component(ctx, fl) -> Dict[str, int]:
    """Inverted maps whose entries are tuples -> index of the storage-position component (read off the
    insertion code: the component that is the method's position parameter)."""
    out: Dict[str, int] = {}
    for m in ctx.prog.methods_of("Index"):
        params = set(m.params()[1:])
        for n in walk_local(m.node):
            tup = None
            tgt = None
            if isinstance(n, ast.Call) and isinstance(n.func, ast.Attribute) and n.func.attr == "append" and n.args \
                    and isinstance(n.args[0], ast.Tuple):
                tup, tgt = n.args[0], n.func.value
            elif isinstance(n, ast.Assign) and isinstance(n.value, ast.List) and len(n.value.elts) == 1 \
                    and isinstance(n.value.elts[0], ast.Tuple):
                tup, tgt = n.value.elts[0], n.targets[0]
            if tup is None:
                continue
            base = tgt
            while not is_self_attr(base):
                if isinstance(base, ast.Subscript):
                    base = base.value
                elif isinstance(base, ast.Call) and isinstance(base.func, ast.Attribute) \
                        and base.func.attr in ("setdefault", "get", "__getitem__"):
                    base = base.func.value
                else:
                    break
            if not (is_self_attr(base) and base.attr in fl.maps):
                continue
            for k, e in enumerate(tup.elts):
                if isinstance(e, ast.Name) and e.id in params:
                    out.setdefault(base.attr, k)
    return out


@rule("C06.R13", ["C06", "C02", "C01", "C07", "C10"], min_instances=3, design="3.6")
def removal_filters_exactly(ctx):
    """Each pruning helper of Index.remove keeps exactly the entries whose storage position is not in the removed set: the filter tests the position component with `not in`, keeps the entry unchanged, every non-empty filtered list is stored back, and the pruning loop has no early exit."""
    from ..logic import consistent_with, formula, guard_clauses, guards
    fl = fields_of(ctx)
    rm = ctx.prog.func("Index.remove", "C06.R13")
    helpers = [h for h in self_calls(ctx, rm) if any(a in direct_writes(h) for a in fl.position_bearing)]
    if len(helpers) < 4:
        raise AnalysisError("C06.R13", f"expected 4 pruning helpers of Index.remove, found {[h.qual for h in helpers]}")
    comp_of = _tuple_position_component(ctx, fl)
    for h in helpers:
        r_items = h.params()[1]
        written = [a for a in fl.position_bearing if a in direct_writes(h)]
        tuple_comp = next((comp_of[a] for a in written if a in comp_of), None)
        bad = []
        n_filters = 0

        def pos_text(var: str) -> str:
            return var if tuple_comp is None else f"{var}[{tuple_comp}]"
        # (a) comprehension filters
        for n in walk_local(h.node):
            if isinstance(n, (ast.ListComp, ast.SetComp, ast.GeneratorExp)) and len(n.generators) == 1:
                g = n.generators[0]
                if not any(isinstance(x, ast.Name) and x.id == r_items for c in g.ifs for x in ast.walk(c)):
                    continue
                n_filters += 1
                if not isinstance(g.target, ast.Name):
                    continue
                v = g.target.id
                it_ok = (isinstance(g.iter, ast.Name) and g.iter.id in _position_list_vars(h, fl)) or (
                    isinstance(g.iter, ast.Subscript) and is_self_attr(g.iter.value) and g.iter.value.attr in fl.position_bearing) \
                    or (is_self_attr(g.iter) and g.iter.attr in fl.position_bearing)
                if not it_ok:
                    bad.append(f"`{norm(n, 60)}` filters `{norm(g.iter, 30)}`, which is not a position list of the container")
                if norm(n.elt) != v:
                    bad.append(f"`{norm(n, 60)}` does not keep the surviving entries unchanged")
                f_ = formula(ast.BoolOp(op=ast.And(), values=list(g.ifs))) if len(g.ifs) > 1 else formula(g.ifs[0])
                want = ("lit", f"in({pos_text(v)},{r_items})", False)
                if f_ != want:
                    bad.append(f"`{norm(n, 70)}` filters on `{' and '.join(norm(c) for c in g.ifs)}`, expected "
                               f"`{pos_text(v)} not in {r_items}` (keep exactly the entries whose storage position was not removed)")
        # (b) statement-form filters (parallel arrays): appends under a membership test on r_items
        for lp in [x for x in walk_local(h.node) if isinstance(x, ast.For)]:
            apps = [c for c in walk_local(lp) if isinstance(c, ast.Call) and call_name(c) == "append" and c.args
                    and isinstance(c.func, ast.Attribute) and isinstance(c.func.value, ast.Name)]
            mem = [c for c in walk_local(lp) if isinstance(c, ast.Compare) and isinstance(c.ops[0], (ast.In, ast.NotIn))
                   and norm(c.comparators[0]) == r_items and not any(isinstance(a_, (ast.ListComp, ast.SetComp, ast.GeneratorExp))
                                                                    for a_ in ancestors(c) if in_subtree(a_, lp))]
            if not apps or not mem:
                continue
            n_filters += 1
            tested = {norm(c.left) for c in mem}
            # which loop variable walks which container
            var_of: Dict[str, str] = {}
            if isinstance(lp.iter, ast.Call) and call_name(lp.iter) == "zip" and isinstance(lp.target, ast.Tuple) \
                    and len(lp.target.elts) == len(lp.iter.args):
                for tv_, ar_ in zip(lp.target.elts, lp.iter.args):
                    if isinstance(tv_, ast.Name) and is_self_attr(ar_):
                        var_of[tv_.id] = ar_.attr
            if var_of:
                for t_ in tested:
                    if var_of.get(t_) not in fl.pos:
                        bad.append(f"`{t_} not in {r_items}` tests the component of self.{var_of.get(t_, '?')}, not the storage position")
                # each new list receives the component of the container it replaces
                for a in apps:
                    lst = a.func.value.id
                    dest = [t0.attr for st_ in walk_local(h.node) if isinstance(st_, ast.Assign) and isinstance(st_.value, ast.Name)
                            and st_.value.id == lst for t0 in st_.targets if is_self_attr(t0)]
                    arg = a.args[0]
                    if dest and isinstance(arg, ast.Name) and arg.id in var_of and var_of[arg.id] != dest[0]:
                        bad.append(f"`{norm(a)}` puts the component of self.{var_of[arg.id]} into the list that becomes self.{dest[0]}")
            for a in apps:
                cl = guard_clauses(guards(a, stop=lp))
                oks = [t for t in tested if any(len(c) == 1 and next(iter(c)) == (f"in({t},{r_items})", False) for c in cl)]
                if not oks:
                    bad.append(f"`{norm(a, 50)}` is not under `<position> not in {r_items}`")
        # (c) every non-empty filtered list is stored back; no early exit from the pruning loops
        for lp in [x for x in walk_local(h.node) if isinstance(x, ast.For)]:
            for x in walk_local(lp):
                if isinstance(x, (ast.Break, ast.Return)):
                    bad.append(f"`{type(x).__name__.lower()}` at line {x.lineno} leaves the pruning loop early: the keys/values "
                               f"after it vanish from the index")
        inner = [lp for lp in walk_local(h.node) if isinstance(lp, ast.For)
                 and not any(isinstance(y, ast.For) and y is not lp for y in walk_local(lp))]
        for lp in inner:
            filt = [s for s in lp.body if isinstance(s, ast.Assign) and len(s.targets) == 1 and isinstance(s.targets[0], ast.Name)
                    and isinstance(s.value, (ast.ListComp,)) and any(
                        isinstance(x, ast.Name) and x.id == r_items for x in ast.walk(s.value))]
            if len(filt) != 1:
                continue
            nv = filt[0].targets[0].id
            stores = [s for s in walk_local(lp) if isinstance(s, ast.Assign) and isinstance(s.targets[0], ast.Subscript)
                      and any(isinstance(x, ast.Name) and x.id == nv for x in ast.walk(s.value))]
            if not stores:
                bad.append(f"the filtered list `{nv}` is never stored back")
                continue
            cls = [guard_clauses(guards(s, stop=lp)) for s in stores]
            atoms = sorted({a for cl in cls for c in cl for a, _ in c} | {f"truthy({nv})"})
            if len(atoms) > 6:
                continue
            import itertools
            for bits in itertools.product([True, False], repeat=len(atoms)):
                facts = list(zip(atoms, bits))
                if not dict(facts)[f"truthy({nv})"]:
                    continue
                if not any(consistent_with(cl, facts) for cl in cls):
                    cond = ", ".join(f"{a}={b}" for a, b in facts if a != f"truthy({nv})")
                    bad.append(f"a non-empty `{nv}` is not stored back when {cond or 'it is non-empty'}: surviving positions "
                               f"vanish from the index")
                    break
        if n_filters == 0:
            raise AnalysisError("C06.R13", f"{h.qual}: no filter on `{r_items}` recognised")
        yield Ob("C06.R13", ["C06", "C02", "C01", "C07", "C10"], f"{h.qual} | keeps exactly the surviving positions", not bad,
                 "; ".join(bad[:3]) if bad else f"{n_filters} filter(s): position component `not in {r_items}`, entries unchanged, "
                 f"non-empty lists stored back", h.loc())


@rule("C06.R14", ["C06", "C07", "C10", "C01"], min_instances=1, design="3.6")
def tuple_entries_tested_by_position(ctx):
    """Entries of a tuple-valued inverted map (position, value) are membership-tested through their position component only (a value is never a storage position)."""
    fl = fields_of(ctx)
    comp_of = _tuple_position_component(ctx, fl)
    if not comp_of:
        raise AnalysisError("C06.R14", "no tuple-valued inverted map recognised in Index")
    n_sites = 0
    for m in ctx.prog.methods_of("Index"):
        # names bound to a position list of a tuple map
        lists: Dict[str, str] = {}
        for n in walk_local(m.node):
            if isinstance(n, (ast.For, ast.comprehension)) and isinstance(n.iter, ast.Call) and call_name(n.iter) in ("items", "values") \
                    and isinstance(n.iter.func, ast.Attribute) and is_self_attr(n.iter.func.value) \
                    and n.iter.func.value.attr in comp_of:
                t_ = n.target
                if call_name(n.iter) == "items" and isinstance(t_, ast.Tuple) and len(t_.elts) == 2 and isinstance(t_.elts[1], ast.Name):
                    lists[t_.elts[1].id] = n.iter.func.value.attr
                elif call_name(n.iter) == "values" and isinstance(t_, ast.Name):
                    lists[t_.id] = n.iter.func.value.attr
        elems: Dict[str, str] = {}
        for n in walk_local(m.node):
            if isinstance(n, (ast.For, ast.comprehension)) and isinstance(n.target, ast.Name):
                it = n.iter
                attr = None
                if isinstance(it, ast.Name) and it.id in lists:
                    attr = lists[it.id]
                elif isinstance(it, ast.Subscript) and is_self_attr(it.value) and it.value.attr in comp_of:
                    attr = it.value.attr
                if attr is not None:
                    elems[n.target.id] = attr
        for n in walk_local(m.node):
            if isinstance(n, ast.Compare) and len(n.ops) == 1 and isinstance(n.ops[0], (ast.In, ast.NotIn)) \
                    and isinstance(n.left, ast.Subscript) and isinstance(n.left.value, ast.Name) and n.left.value.id in elems \
                    and isinstance(n.left.slice, ast.Constant) and type(n.left.slice.value) is int:
                n_sites += 1
                want = comp_of[elems[n.left.value.id]]
                ok = n.left.slice.value == want
                yield Ob("C06.R14", ["C06", "C07", "C10", "C01"], f"{m.qual} | membership test on an entry of self.{elems[n.left.value.id]} | "
                         f"{norm(n, 60)}{occ(m, n)}", ok,
                         f"tests the position component [{want}]" if ok else
                         f"`{norm(n)}` tests component [{n.left.slice.value}] (the stored value) against a set of storage positions; "
                         f"the position is component [{want}]", ctx.prog.loc(n))
    if n_sites < 1:
        yield Ob("C06.R14", ["C06", "C07", "C10", "C01"], "Index | membership tests on tuple entries", True,
                 "no entry of a tuple-valued map is membership-tested through a subscript (entries are unpacked)", "tinyflux/index.py:0",
                 nontrivial=False)


@rule("C06.R15", ["C06", "C01", "C07", "C02", "C03"], min_instances=2, design="3.6")
def every_pair_is_indexed(ctx):
    """The helpers that index a point's tags / fields enter every (key, value) pair: their loops have no `continue`/`break`, and the stores are conditional only on membership tests against the container (the create-or-append decision), never on the value or key itself -- a rebuilt and an incrementally maintained index, and the scan path, treat None, empty and falsy values like any other."""
    fl = fields_of(ctx)
    n = 0
    for h in ctx.prog.methods_of("Index"):
        if not h.name.startswith("_insert") and h.name not in ("_index_tags", "_index_fields"):
            continue
        dw = direct_writes(h)
        maps = [a for a in fl.maps if a in dw]
        if not maps:
            continue
        for lp in [x for x in walk_local(h.node) if isinstance(x, ast.For)]:
            if not (isinstance(lp.iter, ast.Call) and call_name(lp.iter) == "items" and isinstance(lp.target, ast.Tuple)):
                continue
            n += 1
            bad = []
            for x in walk_local(lp):
                if isinstance(x, (ast.Continue, ast.Break, ast.Return)):
                    bad.append(f"`{type(x).__name__.lower()}` at line {x.lineno} skips pairs of the point")
            stores = [s_ for s_ in walk_local(lp) if (isinstance(s_, ast.Assign) and isinstance(s_.targets[0], ast.Subscript))
                      or (isinstance(s_, ast.Call) and call_name(s_) in ("append", "add", "setdefault"))]
            for s_ in stores:
                for c in guard_clauses(guards(s_, stop=lp)):
                    for atom, pol in c:
                        if atom.startswith("in(") and "self._" in atom:
                            continue
                        bad.append(f"`{norm(s_, 50)}` is conditional on `{atom}`: pairs failing it are not indexed, so the index answers "
                                   f"differently from a scan of storage")
            yield Ob("C06.R15", ["C06", "C01", "C07", "C02", "C03"], f"{h.qual} | every pair is indexed{occ(h, lp)}", not bad,
                     "; ".join(sorted(set(bad))[:2]) if bad else "stores conditional on container membership only", ctx.prog.loc(lp))
    if n < 2:
        raise AnalysisError("C06.R15", f"expected the tag and field indexing loops in Index, found {n}")


@rule("C06.R16", ["C06", "C13", "C01", "C07", "C11"], min_instances=1, design="3.6")
def fresh_index_not_valid_by_default(ctx):
    """An Index constructed outside the Index class (and attached to the database) states its validity explicitly,
    and not as the constant True: the constructor's default is `valid`, so `self._index = Index()` followed by a
    rebuild that raises (first read of storage fails) leaves an empty index that claims to mirror storage."""
    init = ctx.prog.lookup_method("Index", "__init__")
    if init is None:
        raise AnalysisError("C06.R16", "Index.__init__ not found")
    params = [p for p in init.params() if p != "self"]
    flag = next(iter(fields_of(ctx).flag))
    # which constructor parameter feeds the validity flag
    vparam = None
    for n in walk_local(init.node):
        if isinstance(n, ast.Assign) and any(is_self_attr(t, flag) for t in n.targets) and isinstance(n.value, ast.Name) \
                and n.value.id in params:
            vparam = n.value.id
    if vparam is None:
        raise AnalysisError("C06.R16", "validity flag is not initialised from a constructor parameter")
    pos = params.index(vparam)
    a = init.node.args
    all_args = a.posonlyargs + a.args
    defaults = dict(zip([x.arg for x in all_args[len(all_args) - len(a.defaults):]], a.defaults))
    defaults.update({k.arg: d for k, d in zip(a.kwonlyargs, a.kw_defaults) if d is not None})
    dflt = defaults.get(vparam)
    default_true = isinstance(dflt, ast.Constant) and dflt.value is True
    for f in ctx.prog.all_funcs():
        if f.cls == "Index" or (f.parent is not None and f.parent.cls == "Index"):
            continue
        for n in walk_local(f.node):
            if not isinstance(n, ast.Call):
                continue
            if not any(isinstance(tg, Func) and tg is init for tg in ctx.res.resolve_call(n, f, quiet=True)):
                continue
            arg = None
            for k in n.keywords:
                if k.arg == vparam:
                    arg = k.value
            if arg is None and len(n.args) > pos and not any(isinstance(x, ast.Starred) for x in n.args):
                arg = n.args[pos]
            opaque = any(k.arg is None for k in n.keywords) or any(isinstance(x, ast.Starred) for x in n.args)
            if arg is None and opaque:
                continue
            if arg is None:
                ok = not default_true
                msg = ("constructor default is not `valid`" if ok else
                       f"`{norm(n, 50)}` relies on the default `{vparam}=True`: a fresh, empty index claims to mirror storage "
                       f"before anything was read; if the following rebuild raises, reads answer from the empty index")
            else:
                const_true = isinstance(arg, ast.Constant) and arg.value is True
                ok = not const_true
                msg = (f"validity given explicitly as `{norm(arg, 50)}`" if ok else
                       f"`{norm(n, 50)}` declares a fresh, empty index valid unconditionally")
            yield Ob("C06.R16", ["C06", "C13", "C01", "C07", "C11"], f"{f.qual} | fresh index states its validity{occ(f, n)}",
                     ok, msg, ctx.prog.loc(n))
