"""C09 (query evaluation never raises; operators mean what they say) and C17
(identity tuples: completeness, sibling agreement, unhashable never equal)."""

from __future__ import annotations

import ast
from typing import Dict, List, Optional, Set, Tuple

from ..astq import assignments_to, bind_args, call_name, kw, names_in, occ, stmt_of, in_subtree
from ..logic import guard_clauses, guards
from ..model import AnalysisError, Func, ancestors, const_value, NOCONST, first_line, is_self_attr, norm, walk_local
from ..report import Ob, rule

CMP = {"__eq__": "operator.eq", "__ne__": "operator.ne", "__lt__": "operator.lt", "__le__": "operator.le",
       "__gt__": "operator.gt", "__ge__": "operator.ge"}
BOOL = {"__and__": ("operator.and_", 2), "__or__": ("operator.or_", 2), "__invert__": ("operator.not_", 1)}


def gsq_sites(ctx) -> List[Tuple[Func, ast.Call]]:
    out = []
    for f in ctx.prog.all_funcs():
        if f.module != "queries":
            continue
        for n in walk_local(f.node):
            if isinstance(n, ast.Call) and isinstance(n.func, ast.Attribute) and n.func.attr == "_generate_simple_query":
                out.append((f, n))
    return out


def _in_try_returning_false(n: ast.AST, f: Func) -> bool:
    for a in ancestors(n):
        if isinstance(a, (ast.FunctionDef, ast.Lambda)):
            return False
        if isinstance(a, ast.Try) and any(in_subtree(n, s) for s in a.body):
            for h in a.handlers:
                names_ = {x.id for x in ast.walk(h.type) if isinstance(x, ast.Name)} if h.type is not None else {"Exception"}
                if names_ & {"Exception", "BaseException"}:
                    if any(isinstance(s, ast.Return) and const_value(s.value) is False for s in h.body):
                        return True
    return False


def _type_guarded(n: ast.AST, var: str) -> bool:
    cl = guard_clauses(guards(n))
    for c in cl:
        if len(c) == 1:
            a, pol = next(iter(c))
            if a.startswith(f"truthy(isinstance({var},") and pol:
                return True
    return False


@rule("C09.R1", ["C09"], min_instances=11, design="3.9")
def query_evaluation_cannot_raise(ctx):
    """Every library-supplied partial function applied to a point's value during query evaluation is inside a handler that yields False, or behind a type test; user callables are delegated."""
    gen = ctx.prog.func("BaseQuery._generate_simple_query", "C09.R1")
    inner = {g.name: g for g in ctx.prog.nested(gen)}
    test = inner.get("test")
    if test is None:
        raise AnalysisError("C09.R1", "nested test() of _generate_simple_query not found")
    # where does test() call `operator`?
    guarded_calls = []
    bare_calls = []
    for n in walk_local(test.node):
        if isinstance(n, ast.Call) and isinstance(n.func, ast.Name) and n.func.id == "operator":
            (guarded_calls if _in_try_returning_false(n, test) else bare_calls).append(n)
    rhs_branch_guarded = any(any(norm(a) == "rhs" for a in c.args) for c in guarded_calls)
    bare_under_rhs_flag = False
    for c in bare_calls:
        cl = guard_clauses(guards(c))
        if not any(len(x) == 1 and next(iter(x)) == ("truthy(test_against_rhs)", False) for x in cl):
            bare_under_rhs_flag = True
    sites = gsq_sites(ctx)
    if len(sites) < 11:
        raise AnalysisError("C09.R1", f"expected >=11 _generate_simple_query call sites, found {len(sites)}")
    for f, c in sites:
        b, _ = bind_args(c, gen)
        op = b.get("operator")
        tar = const_value(b.get("test_against_rhs")) if b.get("test_against_rhs") is not None else NOCONST
        key = f"{f.qual} | operator {norm(op, 40) if op is not None else '?'}"
        if tar is True:
            ok = rhs_branch_guarded and not bare_under_rhs_flag
            yield Ob("C09.R1", ["C09"], key, ok,
                     "comparison runs inside test()'s try/except -> False" if ok else
                     "comparison against rhs is not protected by a handler that yields False", ctx.prog.loc(c))
            continue
        if tar is not False:
            yield Ob("C09.R1", ["C09"], key, False, "test_against_rhs is not a literal", ctx.prog.loc(c))
            continue
        # unguarded branch of test(): the operator itself must be total or delegated
        if not bare_calls:
            yield Ob("C09.R1", ["C09"], key, True, "test() guards every operator call", ctx.prog.loc(c))
            continue
        if isinstance(op, ast.Lambda):
            total = not any(isinstance(x, (ast.Call, ast.Subscript, ast.Attribute, ast.BinOp, ast.Compare))
                            for x in ast.walk(op.body))
            yield Ob("C09.R1", ["C09"], key, total,
                     "constant lambda: total" if total else "lambda applies a partial operation to the value",
                     ctx.prog.loc(c))
        elif isinstance(op, ast.Name) and op.id in f.params():
            yield Ob("C09.R1", ["C09"], key, True, "user-supplied callable (delegated to the user)", ctx.prog.loc(c),
                     nontrivial=False)
        elif isinstance(op, ast.Name):
            clo = [g for g in ctx.prog.nested(f) if g.name == op.id]
            if not clo:
                yield Ob("C09.R1", ["C09"], key, False, f"cannot resolve operator `{op.id}`", ctx.prog.loc(c))
                continue
            g = clo[0]
            v = g.params()[0] if g.params() else "value"
            bad = []
            for n in walk_local(g.node):
                if isinstance(n, ast.Call) and any(isinstance(a, ast.Name) and a.id == v for a in n.args):
                    fn = norm(n.func)
                    if fn in ("isinstance", "callable", "type", "repr", "bool"):
                        continue
                    if not (_in_try_returning_false(n, g) or _type_guarded(n, v)):
                        bad.append(f"`{norm(n, 50)}` is applied to the point's value with neither a type test nor a "
                                   f"handler (a None tag value makes it raise TypeError)")
            # the answer for a value the library call cannot take is False (a constant verdict of a library
            # closure is only ever the `not applicable -> False` exit)
            for r_ in walk_local(g.node):
                if isinstance(r_, ast.Return) and r_.value is not None and const_value(r_.value) is not NOCONST \
                        and const_value(r_.value) is not False:
                    bad.append(f"`{norm(r_)}` (line {r_.lineno}): a value the operation does not apply to (None, a non-string) "
                               f"must evaluate to False, not {const_value(r_.value)!r}")
            yield Ob("C09.R1", ["C09"], key + f" ({g.qual})", not bad,
                     "; ".join(bad) if bad else "library call is guarded", g.loc())
        else:
            yield Ob("C09.R1", ["C09"], key, False, f"unrecognised operator expression `{norm(op) if op is not None else '?'}`",
                     ctx.prog.loc(c))
    # noop: total callables, on every path
    noop = ctx.prog.func("BaseQuery.noop", "C09.R1")
    others = [r for r in walk_local(noop.node) if isinstance(r, ast.Return) and not (
        isinstance(r.value, ast.Call) and isinstance(r.value.func, ast.Name) and r.value.func.id == "SimpleQuery")]
    yield Ob("C09.R1", ["C09", "C01"], f"{noop.qual} | every path builds the always-true query", not others,
             "single SimpleQuery(lambda _: True, identity resolver)" if not others else
             f"`{norm(others[0], 60)}`: on that path noop() resolves the query's key first, so it is False on points without the "
             f"key (noop then behaves like exists())", noop.loc())
    for n in walk_local(noop.node):
        if isinstance(n, ast.Call) and isinstance(n.func, ast.Name) and n.func.id == "SimpleQuery":
            bad = []
            for k in ("operator", "test"):
                v = kw(n, k)
                if not (isinstance(v, ast.Lambda) and const_value(v.body) is True):
                    bad.append(f"{k} is `{norm(v) if v is not None else '?'}`, not a constant-true lambda")
            v = kw(n, "path_resolver")
            if not (isinstance(v, ast.Lambda) and len(v.args.args) == 1 and norm(v.body) == v.args.args[0].arg):
                bad.append("path_resolver is not the identity")
            yield Ob("C09.R1", ["C09"], f"{noop.qual} | total components", not bad,
                     "; ".join(bad) if bad else "noop evaluates to True on every point", ctx.prog.loc(n))


@rule("C09.R2", ["C09", "C01", "C17"], min_instances=3, design="3.9")
def path_failure_is_false(ctx):
    """SimpleQuery.__call__ turns a path failure into False and returns the test's verdict uninverted; the resolver walks keys and map functions in order."""
    f = ctx.prog.func("SimpleQuery.__call__", "C09.R2")
    bad = []
    pr = [n for n in walk_local(f.node) if isinstance(n, ast.Call) and norm(n.func) == "self._path_resolver"]
    if not pr:
        bad.append("the path resolver is never applied")
    for n in pr:
        if not _in_try_returning_false(n, f):
            bad.append("path resolution is not inside a handler that returns False")
        if not (n.args and isinstance(n.args[0], ast.Name) and any(
                norm(v) == "getattr(point, self._point_attr)" for v in assignments_to(f, n.args[0].id))):
            bad.append("the resolver is not applied to getattr(point, self._point_attr)")
    rets = [r for r in walk_local(f.node) if isinstance(r, ast.Return) and const_value(r.value) is not False]
    if len(rets) != 1 or not (isinstance(rets[0].value, ast.Call) and norm(rets[0].value.func) == "self._test"):
        bad.append(f"verdict is `{[norm(r.value, 40) for r in rets]}`, expected self._test(<resolved value>)")
    else:
        a = rets[0].value.args[0] if rets[0].value.args else None
        if not (isinstance(a, ast.Name) and any(isinstance(v, ast.Call) and norm(v.func) == "self._path_resolver"
                                                for v in assignments_to(f, a.id))):
            bad.append("the test is not applied to the resolver's result")
    yield Ob("C09.R2", ["C09", "C01"], f"{f.qual} | path failure -> False, verdict uninverted", not bad,
             "; ".join(bad) if bad else "try: resolve except: False; return _test(value)", f.loc())
    gen = ctx.prog.func("BaseQuery._generate_simple_query", "C09.R2")
    res = [g for g in ctx.prog.nested(gen) if g.name == "path_resolver"]
    if not res:
        raise AnalysisError("C09.R2", "path_resolver not found")
    r = res[0]
    v = r.params()[0]
    bad = []
    loops = [n for n in walk_local(r.node) if isinstance(n, ast.For) and norm(n.iter) == "self._path"]
    if len(loops) != 1:
        bad.append("no single loop over self._path")
    else:
        lp = loops[0]
        part = norm(lp.target)
        # the two step expressions, as the value of an assignment to the walked variable or as the
        # arms of a conditional expression assigned to it
        def arms(e):
            if isinstance(e, ast.IfExp):
                return arms(e.body) + arms(e.orelse)
            return [e]
        steps = [a_ for n in walk_local(lp) if isinstance(n, ast.Assign) and norm(n.targets[0]) == v for a_ in arms(n.value)]
        sub = [e for e in steps if norm(e) == f"{v}[{part}]"]
        app = [e for e in steps if norm(e) == f"{part}({v})"]
        if len(steps) != 2:
            sub = []
        if len(sub) != 1 or len(app) != 1:
            bad.append("loop body is not `value = value[part]` for keys / `value = part(value)` for functions")
        else:
            cs = guard_clauses(guards(sub[0], stop=lp))
            ca = guard_clauses(guards(app[0], stop=lp))
            if not any(len(c) == 1 and next(iter(c)) == (f"truthy(isinstance({part}, str))", True) for c in cs):
                bad.append("key traversal is not conditional on the part being a string")
            if not any(len(c) == 1 and next(iter(c)) == (f"truthy(isinstance({part}, str))", False) for c in ca):
                bad.append("function application is not the non-string case")
            extra = [c for c in (cs | ca) if not (len(c) == 1 and next(iter(c))[0] == f"truthy(isinstance({part}, str))")]
            if extra:
                bad.append(f"a path step is additionally conditioned on {sorted(map(sorted, extra))[:1]}: for some values a key "
                           f"or map function of the path is silently skipped")
    rets = [x for x in walk_local(r.node) if isinstance(x, ast.Return)]
    if not any(norm(x.value) == v for x in rets):
        bad.append("resolver does not return the walked value")
    for x in rets:
        if norm(x.value) != v:
            bad.append(f"`{norm(x, 50)}`: the resolver answers something other than the walked value")
    for x in walk_local(r.node):
        if isinstance(x, ast.Raise) and not any(isinstance(a_, ast.ExceptHandler) for a_ in ancestors(x) if in_subtree(a_, r.node)):
            bad.append(f"`{norm(x, 50)}` (line {x.lineno}): the resolver gives up although no step of the path failed "
                       f"(e.g. for an empty tag/field set, on which a map function or test may still be true)")
    swallow = [h for t in walk_local(r.node) if isinstance(t, ast.Try) for h in t.handlers
               if not any(isinstance(s, ast.Raise) for s in h.body)]
    if swallow:
        bad.append("resolver swallows a failure instead of raising (a missing key would be tested as a value)")
    yield Ob("C09.R2", ["C09", "C01"], f"{r.qual} | walks keys and map functions in order", not bad,
             "; ".join(bad) if bad else "value[part] for str parts, part(value) for callables; failures propagate",
             r.loc())
    gi = ctx.prog.func("BaseQuery.__getitem__", "C09.R2")
    rets = [norm(r.value) for r in walk_local(gi.node) if isinstance(r, ast.Return)]
    item = gi.params()[1]
    ok = rets == [f"self.__getattr__({item})"]
    yield Ob("C09.R2", ["C09"], f"{gi.qual} | item syntax is key access", ok,
             "q[key] is q.__getattr__(key): every string is a key" if ok else
             f"q[key] returns `{rets}`: ordinary attribute lookup comes first, so keys that collide with a method or "
             f"attribute name (test, map, search, exists, ...) do not address the point's key", gi.loc())
    # __getattr__ / map extend the path at the end
    for q, expect in (("BaseQuery.__getattr__", "self._path + (item,)"), ("BaseQuery.map", "self._path + (func,)")):
        g = ctx.prog.func(q, "C09.R2")
        # assignments of the method itself, plus those of a module-level helper it calls, with the
        # helper's parameters replaced by the call's arguments
        texts = [(norm(n.targets[0]), norm(n.value)) for n in walk_local(g.node) if isinstance(n, ast.Assign)]
        for c in walk_local(g.node):
            if isinstance(c, ast.Call) and isinstance(c.func, ast.Name):
                tg = ctx.res.resolve_name(c.func.id, g)
                if tg and isinstance(tg[0], Func) and tg[0].module == "queries" and tg[0].cls is None:
                    h = tg[0]
                    b_, _ = bind_args(c, h, skip_self=False)
                    import re as _re
                    for n in walk_local(h.node):
                        if isinstance(n, ast.Assign):
                            v_ = norm(n.value)
                            for k_, a_ in b_.items():
                                v_ = _re.sub(rf"(?<![\w.]){_re.escape(k_)}(?![\w])", norm(a_), v_)
                            texts.append((norm(n.targets[0]), v_))
        ok = any(t_.endswith("._path") and v_ == expect for t_, v_ in texts)
        ok2 = any(t_.endswith("._point_attr") and v_ == "self._point_attr" for t_, v_ in texts)
        # builders are immutable: the method writes no attribute of `self` and never hands `self` back
        inplace = [n for n in walk_local(g.node) if isinstance(n, (ast.Assign, ast.AugAssign, ast.AnnAssign))
                   and any(is_self_attr(t0) for t0 in (n.targets if isinstance(n, ast.Assign) else [n.target]))]
        inplace += [n for n in walk_local(g.node) if isinstance(n, ast.Return) and isinstance(n.value, ast.Name) and n.value.id == "self"]
        if inplace:
            ok = False
        yield Ob("C09.R2", ["C09", "C17"], f"{q} | extends the path at the end and keeps the point attribute", ok and ok2,
                 "path + (part,), same point attribute" if ok and ok2 else
                 (f"`{norm(inplace[0], 50)}` changes or returns the builder itself: a query generated from it earlier reads the path "
                  f"at evaluation time and silently changes its meaning" if inplace else
                  "the new query does not append the part to the path / keep the point attribute"), g.loc())


@rule("C09.R3", ["C09", "C17"], min_instances=8, design="3.9")
def boolean_operators(ctx):
    """&, | and ~ build CompoundQuery with operator.and_/or_/not_ on (self, other); CompoundQuery.__call__ applies the operator to both verdicts on the same point."""
    for cls in ("SimpleQuery", "CompoundQuery"):
        for dn, (opn, arity) in BOOL.items():
            f = ctx.prog.func(f"{cls}.{dn}", "C09.R3")
            cs = [n for n in walk_local(f.node) if isinstance(n, ast.Call) and isinstance(n.func, ast.Name)
                  and n.func.id == "CompoundQuery"]
            bad = []
            if len(cs) != 1:
                bad.append(f"{len(cs)} CompoundQuery constructions")
            else:
                init = ctx.prog.func("CompoundQuery.__init__", "C09.R3")
                b, pr = bind_args(cs[0], init)
                bad += pr
                other = f.params()[1] if arity == 2 else None
                if norm(b.get("query1")) != "self":
                    bad.append(f"query1 is `{norm(b.get('query1'))}`, expected self")
                want2 = other if arity == 2 else "None"
                if norm(b.get("query2")) != want2:
                    bad.append(f"query2 is `{norm(b.get('query2'))}`, expected {want2}")
                if norm(b.get("operator")) != opn:
                    bad.append(f"operator is `{norm(b.get('operator'))}`, expected {opn}")
                st = stmt_of(cs[0])
                if not isinstance(st, ast.Return):
                    bad.append("the CompoundQuery is not returned")
                for r in walk_local(f.node):
                    if isinstance(r, ast.Return) and r is not st:
                        bad.append(f"`{norm(r, 50)}` returns something other than the combination: for some operands "
                                   f"the operator is not applied at all")
            yield Ob("C09.R3", ["C09", "C17"], f"{f.qual} | builds {opn}", not bad,
                     "; ".join(bad) if bad else f"CompoundQuery(self, {'other' if arity == 2 else 'None'}, {opn})",
                     f.loc())
    f = ctx.prog.func("CompoundQuery.__call__", "C09.R3")
    pt = f.params()[1]
    rets = [norm(r.value) for r in walk_local(f.node) if isinstance(r, ast.Return)]
    want = {f"self.operator(self.query1({pt}), self.query2({pt}))", f"self.operator(self.query1({pt}))"}
    bad = []
    if set(rets) != want:
        bad.append(f"returns {rets}, expected operator(q1(p), q2(p)) / operator(q1(p))")
    for r in walk_local(f.node):
        if isinstance(r, ast.Return) and norm(r.value) == f"self.operator(self.query1({pt}), self.query2({pt}))":
            cl = guard_clauses(guards(r))
            if not any(len(c) == 1 and next(iter(c)) in (("truthy(self.query2)", True), ("is(None,self.query2)", False))
                       for c in cl):
                bad.append("binary application is not conditional on query2 being present")
    yield Ob("C09.R3", ["C09", "C17"], f"{f.qual} | applies the operator to both verdicts", not bad,
             "; ".join(bad) if bad else "operator(q1(p), q2(p)) when binary, operator(q1(p)) when unary", f.loc())
    init = ctx.prog.func("CompoundQuery.__init__", "C09.R3")
    st = {norm(n.targets[0]): norm(n.value) for n in walk_local(init.node) if isinstance(n, ast.Assign)}
    ok = st.get("self.query1") == "query1" and st.get("self.query2") == "query2" and st.get("self.operator") == "operator"
    yield Ob("C09.R3", ["C09"], f"{init.qual} | stores operands and operator in their own slots", ok,
             "query1/query2/operator stored as given" if ok else f"constructor stores {st}", init.loc())


@rule("C09.R4", ["C09", "C17"], min_instances=8, design="3.9")
def comparison_table(ctx):
    """Each rich-comparison dunder passes the operator function of the same name, tests against rhs, and forwards rhs; exists() passes a constant-true callable."""
    gen = ctx.prog.func("BaseQuery._generate_simple_query", "C09.R4")
    for dn, opn in CMP.items():
        f = ctx.prog.func(f"BaseQuery.{dn}", "C09.R4")
        cs = [n for n in walk_local(f.node) if isinstance(n, ast.Call) and call_name(n) == "_generate_simple_query"]
        bad = []
        if len(cs) != 1:
            bad.append(f"{len(cs)} query constructions")
        else:
            b, pr = bind_args(cs[0], gen)
            bad += pr
            rhs = f.params()[1]
            if norm(b.get("operator")) != opn:
                bad.append(f"operator is `{norm(b.get('operator'))}`, expected {opn}")
            if const_value(b.get("test_against_rhs")) is not True:
                bad.append("test_against_rhs is not True")
            if norm(b.get("rhs")) != rhs:
                bad.append(f"rhs is `{norm(b.get('rhs'))}`, expected the compared value")
            if not isinstance(stmt_of(cs[0]), ast.Return):
                bad.append("the query is not returned")
        yield Ob("C09.R4", ["C09", "C17"], f"{f.qual} | {opn} against rhs", not bad,
                 "; ".join(bad) if bad else f"{opn}(value, rhs) under the error-swallowing test", f.loc())
    for cls in ("TagQuery", "FieldQuery"):
        f = ctx.prog.func(f"{cls}.exists", "C09.R4")
        cs = [n for n in walk_local(f.node) if isinstance(n, ast.Call) and call_name(n) == "_generate_simple_query"]
        bad = []
        if len(cs) != 1:
            bad.append(f"{len(cs)} query constructions")
        else:
            b, _ = bind_args(cs[0], gen)
            op = b.get("operator")
            if not (isinstance(op, ast.Lambda) and const_value(op.body) is True):
                bad.append(f"operator is `{norm(op)}`, expected a constant-true lambda")
            if const_value(b.get("test_against_rhs")) is not False:
                bad.append("test_against_rhs is not False")
        yield Ob("C09.R4", ["C09"], f"{f.qual} | exists is key presence", not bad,
                 "; ".join(bad) if bad else "true whenever the path resolves", f.loc())
    # test(): the stored test really dispatches on test_against_rhs
    test = [g for g in ctx.prog.nested(gen) if g.name == "test"][0]
    x = test.params()[0]
    texts = {norm(n) for n in walk_local(test.node) if isinstance(n, ast.Call) and isinstance(n.func, ast.Name)
             and n.func.id == "operator"}
    ok = texts == {f"operator({x}, rhs)", f"operator({x}, *args)", f"operator({x})"}
    yield Ob("C09.R4", ["C09"], f"{test.qual} | applies operator(value[, rhs | *args])", ok,
             "operator(x, rhs) / operator(x, *args) / operator(x)" if ok else f"test() calls {sorted(texts)}", test.loc())
    # every verdict of test() is the operator's verdict (or False from the error handler)
    bad_r = []
    for r in walk_local(test.node):
        if not isinstance(r, ast.Return):
            continue
        v = r.value
        while isinstance(v, ast.Call) and isinstance(v.func, ast.Name) and v.func.id == "bool" and len(v.args) == 1:
            v = v.args[0]

        def op_call(e) -> bool:
            return isinstance(e, ast.Call) and isinstance(e.func, ast.Name) and e.func.id == "operator"
        in_handler = any(isinstance(a_, ast.ExceptHandler) for a_ in ancestors(r))
        if op_call(v) or (isinstance(v, ast.IfExp) and op_call(v.body) and op_call(v.orelse)):
            continue
        if in_handler and const_value(v) is False:
            continue
        bad_r.append(f"`{norm(r, 60)}` is a verdict that the operator did not compute")
    for n_ in walk_local(test.node):
        if isinstance(n_, ast.If) and not any(isinstance(a_, ast.ExceptHandler) for a_ in ancestors(n_)):
            t_ = norm(n_.test)
            if t_ not in ("not test_against_rhs", "test_against_rhs", "args"):
                bad_r.append(f"test() branches on `{t_}` before asking the operator")
    yield Ob("C09.R4", ["C09"], f"{test.qual} | every verdict comes from the operator", not bad_r,
             "; ".join(bad_r[:2]) if bad_r else "returns are operator(...) or the handler's False", test.loc())
    sq = [n for n in walk_local(gen.node) if isinstance(n, ast.Call) and isinstance(n.func, ast.Name)
          and n.func.id == "SimpleQuery"]
    init = ctx.prog.func("SimpleQuery.__init__", "C09.R4")
    bad = []
    if len(sq) != 1:
        bad.append("no single SimpleQuery construction")
    else:
        b, _ = bind_args(sq[0], init)
        exp = {"point_attr": "self._point_attr", "operator": "operator", "rhs": "rhs", "test": "test",
               "path_resolver": "path_resolver"}
        def through_copy(e):
            # a local bound exactly once to a plain name/attribute chain stands for that chain
            if isinstance(e, ast.Name) and e.id not in gen.params():
                vals = assignments_to(gen, e.id)
                if len(vals) == 1 and isinstance(vals[0], (ast.Name, ast.Attribute)):
                    return vals[0]
            return e
        for k, v in exp.items():
            if norm(through_copy(b.get(k))) != v:
                bad.append(f"{k}={norm(b.get(k))}, expected {v}")
    st = {norm(n.targets[0]): norm(n.value) for n in walk_local(init.node) if isinstance(n, ast.Assign)}
    for k in ("point_attr", "operator", "rhs", "test", "path_resolver"):
        if st.get(f"self._{k}") != k:
            bad.append(f"SimpleQuery.__init__ stores `{st.get('self._' + k)}` in _{k}")
    yield Ob("C09.R4", ["C09", "C01"], f"{gen.qual} | SimpleQuery components land in their own slots", not bad,
             "; ".join(bad) if bad else "point_attr/operator/rhs/test/path_resolver stored as given", gen.loc())


# ----------------------------------------------------------------------- C17
@rule("C17.R1", ["C17"], min_instances=11, design="3.17")
def identity_completeness(ctx):
    """The identity tuple of every simple query names everything its test closes over; different operators get different heads."""
    gen = ctx.prog.func("BaseQuery._generate_simple_query", "C17.R1")
    heads: Dict[str, List[str]] = {}
    sites = gsq_sites(ctx)
    for f, c in sites:
        b, _ = bind_args(c, gen)
        hv = b.get("hashval")
        params = [p_ for p_ in f.params() if p_ != "self"]
        inputs: Set[str] = set()
        for k in ("operator", "rhs", "args"):
            e = b.get(k)
            if e is None:
                continue
            for nm in names_in(e):
                if nm in params:
                    inputs.add(nm)
                else:
                    for g in ctx.prog.nested(f):
                        if g.name == nm:
                            # free variables of the closure
                            bound = set(g.params())
                            for x in walk_local(g.node):
                                if isinstance(x, ast.Name) and x.id in params and x.id not in bound:
                                    inputs.add(x.id)
        # locals the closure / arguments are computed from count through to the parameters they derive from
        def param_deps(name: str, seen=None) -> Set[str]:
            seen = seen or set()
            if name in params:
                return {name}
            if name in seen:
                return set()
            seen = seen | {name}
            out: Set[str] = set()
            for v in assignments_to(f, name):
                for nm2 in names_in(v):
                    out |= param_deps(nm2, seen)
            return out
        for k in ("operator", "rhs", "args"):
            e = b.get(k)
            if e is None:
                continue
            for nm in names_in(e):
                if nm not in params:
                    inputs |= param_deps(nm)
                    for g in ctx.prog.nested(f):
                        if g.name == nm:
                            bound = set(g.params()) | {x.id for x in walk_local(g.node) if isinstance(x, ast.Name)
                                                       and isinstance(x.ctx, ast.Store)}
                            for x in walk_local(g.node):
                                if isinstance(x, ast.Name) and isinstance(x.ctx, ast.Load) and x.id not in bound \
                                        and x.id not in params:
                                    inputs |= param_deps(x.id)
        def carried(name: str, seen=None) -> Set[str]:
            """Parameters a local carries *whole*: copies and tuple/frozenset/freeze constructions only
            (the result of any other call is an image of its arguments, not the arguments)."""
            seen = seen or set()
            if name in params:
                return {name}
            if name in seen:
                return set()
            seen = seen | {name}
            out: Set[str] = set()
            for v in assignments_to(f, name):
                if isinstance(v, ast.Name):
                    out |= carried(v.id, seen)
                elif isinstance(v, (ast.Tuple, ast.List)) or (isinstance(v, ast.Call) and isinstance(v.func, ast.Name)
                                                               and v.func.id in ("tuple", "frozenset", "freeze")):
                    for nm2 in names_in(v):
                        out |= carried(nm2, seen)
            return out
        # what the identity tuple carries: whole parameters / whole locals (an attribute or item of
        # a local, e.g. compiled.pattern, carries only part of it)
        hv_names = set()
        if hv is not None:
            elts = hv.elts if isinstance(hv, ast.Tuple) else [hv]
            for e_ in elts:
                if isinstance(e_, ast.Name):
                    hv_names |= {e_.id} | carried(e_.id)
                elif isinstance(e_, (ast.Tuple, ast.List)) or (isinstance(e_, ast.Call) and isinstance(e_.func, ast.Name)
                                                                 and e_.func.id in ("tuple", "frozenset", "freeze")):
                    for nm2 in names_in(e_):
                        hv_names |= {nm2} | carried(nm2)
                elif isinstance(e_, ast.Attribute) and isinstance(e_.value, ast.Name) and e_.value.id == "self":
                    pass
                elif isinstance(e_, (ast.Attribute, ast.Subscript)):
                    base = e_
                    while isinstance(base, (ast.Attribute, ast.Subscript)):
                        base = base.value
                    if isinstance(base, ast.Name) and base.id in params:
                        pass  # a projection of a parameter carries only part of it
                elif isinstance(e_, ast.Call):
                    pass  # f(x) (getattr(func, "__qualname__"), str(x), hash(x), ...) carries only an image of x
                else:
                    hv_names |= names_in(e_)
        hv_attrs = {n.attr for n in ast.walk(hv) if isinstance(n, ast.Attribute)} if hv is not None else set()
        bad = []
        missing = sorted(inputs - hv_names)
        if missing:
            bad.append(f"test depends on {missing} but the identity tuple `{norm(hv, 70)}` omits "
                       f"{'it' if len(missing) == 1 else 'them'}: two queries differing only there compare equal")
        for a in ("_point_attr", "_path"):
            if a not in hv_attrs:
                bad.append(f"identity tuple omits self.{a}")
        head = None
        if isinstance(hv, ast.Tuple) and len(hv.elts) >= 2 and isinstance(hv.elts[1], ast.Constant):
            head = hv.elts[1].value
            heads.setdefault(head, []).append(norm(b.get("operator"), 40) + "@" + f.qual)
        else:
            bad.append("identity tuple has no literal head naming the operation")
        yield Ob("C17.R1", ["C17"], f"{f.qual} | identity tuple | head {head!r}", not bad,
                 "; ".join(bad) if bad else f"names {sorted(inputs)} + point attribute + path", ctx.prog.loc(c))
    for h, users in sorted(heads.items()):
        ops = {u.split("@")[0] for u in users}
        ok = len(ops) == 1
        yield Ob("C17.R1", ["C17"], f"queries | head {h!r} names one operation", ok,
                 f"used by {sorted(users)}" if ok else f"head shared by different operators: {sorted(users)}",
                 "tinyflux/queries.py:0")


def identity_cases(ctx, f: Func):
    """[(set of unit guard literals, value AST)] for the identity handed to CompoundQuery in a
    combinator, with a private helper function inlined one level (parameters substituted)."""
    from ..model import clone_expr
    cq = [n for n in walk_local(f.node) if isinstance(n, ast.Call) and isinstance(n.func, ast.Name)
          and n.func.id == "CompoundQuery"]
    if len(cq) != 1:
        return None
    h = cq[0].args[3] if len(cq[0].args) > 3 else kw(cq[0], "hashval")
    if h is None:
        return None

    def lits(node, mapping=None):
        out = set()
        for c in guard_clauses(guards(node)):
            if len(c) == 1:
                a, pol = next(iter(c))
                if mapping:
                    for k, v in mapping.items():
                        a = re.sub(rf"(?<![\w.]){re.escape(k)}(?![\w])", v, a)
                out.add((a, pol))
        return out

    import re
    cases = []

    def expand(value, conds, depth=0):
        if isinstance(value, ast.IfExp):
            from ..logic import cnf, formula, negate

            def units(fm):
                try:
                    return {next(iter(c)) for c in cnf(fm) if len(c) == 1}
                except ValueError:
                    return set()
            fm = formula(value.test)
            expand(value.body, conds | units(fm), depth)
            expand(value.orelse, conds | units(negate(fm)), depth)
            return
        if isinstance(value, ast.Call) and isinstance(value.func, ast.Name) and depth < 2:
            tg = ctx.res.resolve_name(value.func.id, f)
            if tg and isinstance(tg[0], Func) and tg[0].module == "queries" and tg[0].cls is None:
                g = tg[0]
                b, _ = bind_args(value, g, skip_self=False)
                mapping = {k: norm(v) for k, v in b.items()}

                class Sub(ast.NodeTransformer):
                    def visit_Name(self, n):
                        if n.id in b:
                            return clone_expr(b[n.id])
                        return n
                for r in walk_local(g.node):
                    if isinstance(r, ast.Return) and r.value is not None:
                        v2 = ast.fix_missing_locations(Sub().visit(clone_expr(r.value)))
                        # AND of the substituted conditions of the return
                        c2 = set()
                        for a, pol in lits(r, mapping):
                            c2.add((a, pol))
                        # conjunctions like `a and b` appear as separate unit clauses already
                        expand(v2, conds | c2, depth + 1)
                return
        cases.append((conds, value))

    if isinstance(h, ast.Name):
        for n in walk_local(f.node):
            if isinstance(n, ast.Assign) and any(isinstance(t, ast.Name) and t.id == h.id for t in n.targets):
                expand(n.value, lits(n))
    else:
        expand(h, lits(cq[0]))
    return cases


def _combinator_identity(ctx, f: Func) -> Tuple[Optional[str], Optional[str], List[str]]:
    """(head literal, container kind, problems) of the identity built in a combinator."""
    problems: List[str] = []
    cases = identity_cases(ctx, f)
    if cases is None:
        return None, None, ["identity handed to CompoundQuery not found"]
    vals = [v for c, v in cases if not (isinstance(v, ast.Constant) and v.value is None)]
    if len(vals) != 1 or not isinstance(vals[0], ast.Tuple) or len(vals[0].elts) != 2:
        return None, None, ["identity is not a (head, operands) pair"]
    head = const_value(vals[0].elts[0])
    body = vals[0].elts[1]
    kind = None
    if isinstance(body, ast.Call) and norm(body.func) == "frozenset":
        kind = "frozenset"
        inner = body.args[0] if body.args else None
        elts = [norm(e) for e in inner.elts] if isinstance(inner, (ast.List, ast.Tuple, ast.Set)) else []
        other = f.params()[1] if len(f.params()) > 1 else "other"
        if sorted(elts) != sorted(["self._hash", f"{other}._hash"]):
            problems.append(f"operands are {elts}, expected both operand identities")
    elif norm(body) == "self._hash":
        kind = "single"
    else:
        kind = "other:" + norm(body, 40)
    return (head if head is not NOCONST else None), kind, problems


@rule("C17.R2", ["C17"], min_instances=3, design="3.17")
def combinator_identity_agreement(ctx):
    """SimpleQuery and CompoundQuery build identical identities for &, |, ~ (same head, frozenset for the commutative ones)."""
    seen_heads: Dict[str, str] = {}
    for dn, (opn, arity) in BOOL.items():
        a = ctx.prog.func(f"SimpleQuery.{dn}", "C17.R2")
        b = ctx.prog.func(f"CompoundQuery.{dn}", "C17.R2")
        ha, ka, pa = _combinator_identity(ctx, a)
        hb, kb, pb = _combinator_identity(ctx, b)
        bad = pa + pb
        if ha != hb and arity == 2:
            bad.append(f"heads differ: SimpleQuery uses {ha!r}, CompoundQuery uses {hb!r}; `a {dn} (b ..)` and the "
                       f"same expression built from a compound left operand are never equal")
        want = "frozenset" if arity == 2 else "single"
        if ka != want or kb != want:
            bad.append(f"operand container is {ka}/{kb}, expected {want}"
                       + (" (needed for commutativity)" if arity == 2 else ""))
        for h in (ha, hb):
            if h is not None and seen_heads.get(h, dn) != dn:
                bad.append(f"head {h!r} is also used by {seen_heads[h]}")
            if h is not None:
                seen_heads[h] = dn
        yield Ob("C17.R2", ["C17"], f"SimpleQuery/CompoundQuery {dn} | identity shape", not bad,
                 "; ".join(bad) if bad else f"head {ha!r}, {want}", a.loc())


@rule("C17.R3", ["C17"], min_instances=10, design="3.17")
def unhashable_never_equal(ctx):
    """A query containing a map function has identity None, every derived identity stays None, and None identities never compare equal; __hash__ hashes what __eq__ compares."""
    for cls in ("SimpleQuery", "CompoundQuery"):
        for dn, (opn, arity) in BOOL.items():
            f = ctx.prog.func(f"{cls}.{dn}", "C17.R3")
            bad = []
            cases = identity_cases(ctx, f)
            if cases is None:
                bad.append("identity handed to CompoundQuery not found")
                cases = []
            need = ["self.is_hashable()"] + ([f"{f.params()[1]}.is_hashable()"] if arity == 2 else [])
            for conds, v in cases:
                if isinstance(v, ast.Constant) and v.value is None:
                    continue
                for nd in need:
                    if (f"truthy({nd})", True) not in conds:
                        bad.append(f"identity is built without requiring {nd}")
            if not any(isinstance(v, ast.Constant) and v.value is None for c, v in cases):
                bad.append("no `None` identity for unhashable operands")
            yield Ob("C17.R3", ["C17"], f"{f.qual} | identity requires hashable operands", not bad,
                     "; ".join(bad) if bad else "identity only when every operand is hashable, else None", f.loc())
        eq = ctx.prog.func(f"{cls}.__eq__", "C17.R3")
        bad = []
        rets = [r for r in walk_local(eq.node) if isinstance(r, ast.Return)]
        pos = [r for r in rets if const_value(r.value) is not False]
        other = eq.params()[1]
        for r in pos:
            if norm(r.value) not in (f"bool(self._hash == {other}._hash)", f"self._hash == {other}._hash"):
                bad.append(f"equality is `{norm(r.value)}`, not a comparison of the two identities")
            cl = guard_clauses(guards(r))
            for nd in ("self._hash", f"{other}._hash"):
                if not any(len(c) == 1 and next(iter(c)) == (f"truthy({nd})", True) for c in cl):
                    bad.append(f"can return equal although {nd} is None/empty")
        if not pos:
            bad.append("never returns a comparison")
        if not any(const_value(r.value) is False for r in rets):
            bad.append("no False fallback")
        yield Ob("C17.R3", ["C17"], f"{eq.qual} | None identities never equal", not bad,
                 "; ".join(bad) if bad else "compares identities only when both are truthy, else False", eq.loc())
        hs = ctx.prog.func(f"{cls}.__hash__", "C17.R3")
        ok = any(isinstance(r, ast.Return) and norm(r.value) == "hash(self._hash)" for r in walk_local(hs.node))
        yield Ob("C17.R3", ["C17"], f"{hs.qual} | hashes the compared identity", ok,
                 "hash(self._hash)" if ok else "__hash__ does not hash the attribute __eq__ compares", hs.loc())
        init = ctx.prog.func(f"{cls}.__init__", "C17.R3")
        ok = any(isinstance(n, ast.Assign) and norm(n.targets[0]) == "self._hash" and norm(n.value) == "hashval"
                 for n in walk_local(init.node))
        yield Ob("C17.R3", ["C17"], f"{init.qual} | stores the identity it was given", ok,
                 "self._hash = hashval" if ok else "constructor does not store hashval in _hash", init.loc())
    mp = ctx.prog.func("BaseQuery.map", "C17.R3")
    ok = any(isinstance(n, ast.Assign) and norm(n.targets[0]).endswith("._hash") and const_value(n.value) is None
             for n in walk_local(mp.node))
    yield Ob("C17.R3", ["C17"], f"{mp.qual} | kills the identity", ok,
             "map() sets the identity to None" if ok else "map() leaves a hashable identity on a query with a function in its path",
             mp.loc())
    ga = ctx.prog.func("BaseQuery.__getattr__", "C17.R3")
    # every non-None identity stored by __getattr__ is stored only when the parent is hashable
    def _arms(e):
        return _arms(e.body) + _arms(e.orelse) if isinstance(e, ast.IfExp) else [e]
    stores_ = [a_ for n in walk_local(ga.node) if isinstance(n, ast.Assign) and norm(n.targets[0]).endswith("._hash")
               for a_ in _arms(n.value)]
    live = [a_ for a_ in stores_ if const_value(a_) is not None]
    ok = bool(live) and all(
        any(len(c) == 1 and next(iter(c)) == ("truthy(self.is_hashable())", True) for c in guard_clauses(guards(a_)))
        for a_ in live)
    yield Ob("C17.R3", ["C17"], f"{ga.qual} | path extension keeps None identities None", ok,
             "identity only if the parent is hashable" if ok else
             "a key appended after map() resurrects a hashable identity", ga.loc())
    gen = ctx.prog.func("BaseQuery._generate_simple_query", "C17.R3")
    ok = False
    for n in walk_local(gen.node):
        if isinstance(n, ast.Call) and isinstance(n.func, ast.Name) and n.func.id == "SimpleQuery":
            init_ = ctx.prog.func("SimpleQuery.__init__", "C17.R3")
            b_, _ = bind_args(n, init_)
            v = b_.get("hashval")
            if isinstance(v, ast.Name):
                vs_ = assignments_to(gen, v.id)
                v = vs_[0] if len(vs_) == 1 else v
            if isinstance(v, ast.IfExp) and norm(v.test) == "self.is_hashable()" and norm(v.body) == "hashval" \
                    and const_value(v.orelse) is None:
                ok = True
            if isinstance(v, ast.IfExp) and norm(v.test) == "not self.is_hashable()" and norm(v.orelse) == "hashval" \
                    and const_value(v.body) is None:
                ok = True
    rebound = [n for n in walk_local(gen.node) if isinstance(n, (ast.Assign, ast.AugAssign, ast.AnnAssign))
               and any(isinstance(x, ast.Name) and isinstance(x.ctx, ast.Store) and x.id in ("hashval", "rhs", "operator", "args")
                       for x in ast.walk(n))]
    yield Ob("C17.R3", ["C17"], f"{gen.qual} | identity and test are built from the same, unmodified arguments", not rebound,
             "hashval, rhs, operator and args are used as passed" if not rebound else
             f"`{norm(rebound[0], 70)}` rebinds an argument: the identity no longer describes what the test compares "
             f"against, so queries that evaluate differently can compare equal", gen.loc())
    yield Ob("C17.R3", ["C17"], f"{gen.qual} | simple query identity requires a hashable base", ok,
             "hashval if self.is_hashable() else None" if ok else
             "a query built on an unhashable base still gets an identity", gen.loc())
    for cls in ("SimpleQuery", "CompoundQuery", "BaseQuery"):
        ih = ctx.prog.func(f"{cls}.is_hashable", "C17.R3")
        ok = any(isinstance(r, ast.Return) and norm(r.value) == "self._hash is not None" for r in walk_local(ih.node))
        yield Ob("C17.R3", ["C17"], f"{ih.qual} | hashable iff identity is not None", ok,
                 "self._hash is not None" if ok else "is_hashable does not test `self._hash is not None`", ih.loc())


RE_SIGS = {"match": ("pattern", "string", "flags"), "search": ("pattern", "string", "flags"),
           "fullmatch": ("pattern", "string", "flags"), "compile": ("pattern", "flags"),
           "findall": ("pattern", "string", "flags"), "finditer": ("pattern", "string", "flags")}
PAT_SIGS = {"match": ("string", "pos", "endpos"), "search": ("string", "pos", "endpos"),
            "fullmatch": ("string", "pos", "endpos")}


@rule("C09.R5", ["C09", "C01"], min_instances=2, design="3.9")
def regex_argument_binding(ctx):
    """matches()/search() hand (pattern=regex, string=value, flags=flags) to re.match / re.search respectively."""
    for meth, fn in (("matches", "match"), ("search", "search")):
        f = ctx.prog.func(f"BaseQuery.{meth}", "C09.R5")
        params = f.params()
        if len(params) < 3:
            raise AnalysisError("C09.R5", f"BaseQuery.{meth}: expected (self, regex, flags)")
        rx, fl = params[1], params[2]
        clos = [g for g in ctx.prog.nested(f) if not isinstance(g.node, ast.Lambda)]
        if not clos:
            raise AnalysisError("C09.R5", f"BaseQuery.{meth}: test closure not found")
        g = clos[0]
        val = g.params()[0]
        roles = {rx: set(), fl: set(), val: set()}
        fns = []
        scopes = [f.node, g.node]
        compiled = set()
        for sc in scopes:
            for n in walk_local(sc):
                if not isinstance(n, ast.Call) or not isinstance(n.func, ast.Attribute):
                    continue
                recv = n.func.value
                sig = None
                if isinstance(recv, ast.Name) and recv.id == "re" and n.func.attr in RE_SIGS:
                    sig = RE_SIGS[n.func.attr]
                    fns.append(n.func.attr)
                    if n.func.attr == "compile":
                        st = stmt_of(n)
                        if isinstance(st, ast.Assign) and isinstance(st.targets[0], ast.Name):
                            compiled.add(st.targets[0].id)
                elif n.func.attr in PAT_SIGS and (
                        (isinstance(recv, ast.Name) and recv.id in compiled)
                        or (isinstance(recv, ast.Call) and norm(recv.func) == "re.compile")):
                    sig = PAT_SIGS[n.func.attr]
                    fns.append(n.func.attr)
                if sig is None:
                    continue
                for i, a_ in enumerate(n.args):
                    if isinstance(a_, ast.Name) and a_.id in roles and i < len(sig):
                        roles[a_.id].add(sig[i])
                for k in n.keywords:
                    if isinstance(k.value, ast.Name) and k.value.id in roles and k.arg:
                        roles[k.value.id].add(k.arg)
        bad = []
        if roles[rx] != {"pattern"}:
            bad.append(f"`{rx}` reaches the regex engine as {sorted(roles[rx]) or 'nothing'}, expected the pattern")
        if roles[fl] != {"flags"}:
            bad.append(f"`{fl}` reaches the regex engine as {sorted(roles[fl]) or 'nothing'}, expected the flags "
                       f"(a compiled pattern's second positional argument is the start offset)")
        if roles[val] != {"string"}:
            bad.append(f"the point's value reaches the regex engine as {sorted(roles[val]) or 'nothing'}")
        used = [x for x in fns if x != "compile"]
        if used != [fn]:
            bad.append(f"{meth}() uses re functions {used}, documented re.{fn}")
        rets = [r for r in walk_local(g.node) if isinstance(r, ast.Return) and const_value(r.value) is not False]
        if not any(norm(r.value).endswith("is not None") for r in rets):
            bad.append("verdict is not `<match object> is not None`")
        yield Ob("C09.R5", ["C09", "C01"], f"{f.qual} | regex argument binding", not bad,
                 "; ".join(bad[:3]) if bad else f"re.{fn}(pattern={rx}, string=value, flags={fl})", f.loc())
