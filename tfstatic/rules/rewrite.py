"""C02/C03: row conservation in the rewrite loops and the commit protocol (D3).

For each loop of _remove_helper/_update_helper that copies rows to temporary
storage, every acyclic path through one iteration is enumerated on the CFG and
reduced to its events:
  KEEP     temp-append of exactly the untouched row variable
  REWRITE  temp-append of the serialisation of the point deserialised from the row
  DROP     the row's position added to the removal set
Each path must carry exactly one event, under the right guards.
"""

from __future__ import annotations

import ast
import re
from typing import Dict, List, Optional, Set, Tuple

from ..astq import (assignments_to, call_name, kw, loop_vars, names_in, occ, storage_loops, stmt_of,
                    strip_enumerate, in_subtree)
from ..logic import entails, formula, guard_clauses, guards, negate, cnf, simplify
from ..model import AnalysisError, Func, first_line, norm, walk_local, const_value
from ..report import Ob, rule


def make_subst(f: Func, extra: Optional[Dict[str, str]] = None, scope: Optional[ast.AST] = None):
    """Atom substitution: single-assignment locals are replaced by their
    defining expression; `.items` property of an index result == `._items`."""
    defs: Dict[str, str] = {}
    for n in walk_local(scope if scope is not None else f.node):
        if isinstance(n, ast.Assign) and len(n.targets) == 1 and isinstance(n.targets[0], ast.Name):
            nm = n.targets[0].id
            if isinstance(n.value, ast.Call) and any(
                    isinstance(a_, ast.Name) for a_ in list(n.value.args) + [k.value for k in n.value.keywords]):
                if nm in defs:
                    defs[nm] = None  # type: ignore
                else:
                    defs[nm] = norm(n.value)
            else:
                defs[nm] = None  # type: ignore
        elif isinstance(n, (ast.AugAssign,)) and isinstance(n.target, ast.Name):
            defs[n.target.id] = None  # type: ignore
    defs = {k: v for k, v in defs.items() if v}
    if extra:
        defs.update(extra)

    def subst(e: ast.AST) -> Optional[str]:
        t = norm(e)
        for k, v in defs.items():
            t = re.sub(rf"(?<![\w.]){re.escape(k)}(?![\w(])", v, t)
        t = re.sub(r"\.items\b(?!\()", "._items", t)
        return t

    return subst


def is_temp_append(ctx, f: Func, c: ast.Call) -> bool:
    if not (isinstance(c.func, ast.Attribute) and c.func.attr == "append"):
        return False
    t = ctx.res.type_of(c.func.value, f)
    if t not in set(ctx.prog.subclasses("Storage")):
        return False
    v = kw(c, "temporary")
    if v is None and len(c.args) >= 2:
        v = c.args[1]
    return v is not None and const_value(v) is True


def is_primary_append(ctx, f: Func, c: ast.Call) -> bool:
    if not (isinstance(c.func, ast.Attribute) and c.func.attr == "append"):
        return False
    t = ctx.res.type_of(c.func.value, f)
    if t not in set(ctx.prog.subclasses("Storage")):
        return False
    return not is_temp_append(ctx, f, c)


def rewrite_loops(ctx, f: Func) -> List[ast.For]:
    """Loops over storage in a function that stages rows in temporary storage
    (every such loop must conserve rows, also one whose appends were lost)."""
    loops = storage_loops(ctx, f)
    if any(isinstance(n, ast.Call) and is_temp_append(ctx, f, n) for n in walk_local(f.node)):
        return loops
    return []


class Event:
    def __init__(self, kind: str, node: ast.AST, info: str = ""):
        self.kind = kind
        self.node = node
        self.info = info


def classify_stmt_events(ctx, f: Func, lp: ast.For, st_ast: ast.AST, drop_sets: Set[str]) -> List[Event]:
    pos, item = loop_vars(lp)
    evs: List[Event] = []
    for n in walk_local(st_ast) if not isinstance(st_ast, (ast.If, ast.For, ast.While, ast.Try)) else []:
        if isinstance(n, ast.Call):
            if is_temp_append(ctx, f, n):
                a0 = n.args[0] if n.args else kw(n, "items") or kw(n, "points")
                if isinstance(a0, ast.List) and len(a0.elts) == 1:
                    el = a0.elts[0]
                    if isinstance(el, ast.Name) and el.id == item:
                        evs.append(Event("KEEP", n))
                        continue
                    if isinstance(el, ast.Call) and call_name(el) == "_serialize_point" and el.args \
                            and isinstance(el.args[0], ast.Name):
                        pv = el.args[0].id
                        vals = [v for v in assignments_to(f, pv) if in_subtree(v, lp)]
                        if vals and all(isinstance(v, ast.Call) and call_name(v) == "_deserialize_storage_item"
                                        and v.args and isinstance(v.args[0], ast.Name) and v.args[0].id == item
                                        for v in vals):
                            evs.append(Event("REWRITE", n, pv))
                            continue
                evs.append(Event("BAD", n, f"temp-append of something other than the row: {norm(n, 80)}"))
            elif is_primary_append(ctx, f, n):
                evs.append(Event("BAD", n, f"append to PRIMARY storage inside a rewrite loop: {norm(n, 80)}"))
            elif isinstance(n.func, ast.Attribute) and n.func.attr == "add" and isinstance(n.func.value, ast.Name) \
                    and n.func.value.id in drop_sets:
                if n.args and isinstance(n.args[0], ast.Name) and n.args[0].id == pos:
                    evs.append(Event("DROP", n))
                else:
                    evs.append(Event("BAD", n, f"removal set receives {norm(n.args[0]) if n.args else '?'}, "
                                               f"not the row position `{pos}`"))
    return evs


def counters_in(lp: ast.For) -> Dict[str, List[ast.AugAssign]]:
    out: Dict[str, List[ast.AugAssign]] = {}
    for n in walk_local(lp):
        if isinstance(n, ast.AugAssign) and isinstance(n.target, ast.Name) and isinstance(n.op, ast.Add):
            out.setdefault(n.target.id, []).append(n)
    return out


def drop_set_vars(f: Func) -> Set[str]:
    """Local set variables whose len() is returned (the removal set)."""
    out = set()
    for n in walk_local(f.node):
        if isinstance(n, ast.Return) and isinstance(n.value, ast.Call) and call_name(n.value) == "len" \
                and n.value.args and isinstance(n.value.args[0], ast.Name):
            out.add(n.value.args[0].id)
    return out


def _step(a: ast.AugAssign) -> int:
    """Amount a counter statement adds: the literal of `x += k` / `x -= k`; anything else counts as an
    unknown large step (it is never the unit step the counters rules ask for)."""
    v = a.value
    if isinstance(v, ast.Constant) and type(v.value) is int:
        if isinstance(a.op, ast.Add):
            return v.value
        if isinstance(a.op, ast.Sub):
            return -v.value
    return 1000


def path_report(ctx, f: Func, lp: ast.For, drop_sets: Set[str]):
    g = ctx.cfg(f, exceptional=True)
    paths = g.loop_paths(lp)
    cnts = counters_in(lp)
    res = []
    for nodes, end in paths:
        evs: List[Event] = []
        incs: Dict[str, int] = {}
        for nid in nodes:
            nd = g.nodes[nid]
            if nd.kind == "stmt":
                evs.extend(classify_stmt_events(ctx, f, lp, nd.ast, drop_sets))
                if isinstance(nd.ast, ast.AugAssign) and isinstance(nd.ast.target, ast.Name):
                    incs[nd.ast.target.id] = incs.get(nd.ast.target.id, 0) + _step(nd.ast)
        res.append((nodes, end, evs, incs))
    return g, res


def _path_text(g, nodes: List[int]) -> str:
    parts = []
    for nid in nodes:
        nd = g.nodes[nid]
        if nd.ast is not None and nd.kind in ("stmt", "test"):
            parts.append(f"L{nd.lineno}")
    return ">".join(parts)


def _conservation(ctx, fq: str, rule_id: str, props: List[str], allow: Set[str]):
    f = ctx.prog.func(fq, rule_id)
    loops = rewrite_loops(ctx, f)
    if len(loops) < 2:
        raise AnalysisError(rule_id, f"{fq}: expected 2 rewrite loops (index path, scan path), found {len(loops)}")
    drop_sets = drop_set_vars(f)
    for lp in loops:
        pos, item = loop_vars(lp)
        if item is None:
            raise AnalysisError(rule_id, f"{fq}: loop target not recognised at line {lp.lineno}")
        g, res = path_report(ctx, f, lp, drop_sets)
        loop_key = f"{fq} | rewrite loop over {norm(lp.iter)} #{loops.index(lp) + 1}"
        bad: List[str] = []
        n_paths = 0
        kinds: Dict[str, int] = {}
        for nodes, end, evs, incs in res:
            n_paths += 1
            real = [e for e in evs if e.kind in ("KEEP", "REWRITE", "DROP")]
            bads = [e for e in evs if e.kind == "BAD"]
            for e in bads:
                bad.append(f"path {_path_text(g, nodes)}: {e.info}")
            if end == "exc":
                continue  # explicit raise aborts the whole operation before the commit
            if end in ("break", "return"):
                bad.append(f"path {_path_text(g, nodes)} leaves the loop by {end}: the rows after this one "
                           f"never reach temporary storage")
                continue
            if len(real) != 1:
                bad.append(f"path {_path_text(g, nodes)} carries {len(real)} row events "
                           f"({[e.kind for e in real]}); exactly one is required")
                continue
            k = real[0].kind
            kinds[k] = kinds.get(k, 0) + 1
            if k not in allow:
                bad.append(f"path {_path_text(g, nodes)}: event {k} is not allowed in {fq}")
        yield Ob(rule_id, props, loop_key + " | one event per path", not bad,
                 "; ".join(bad[:4]) if bad else f"{n_paths} paths, each with exactly one row event {kinds}",
                 ctx.prog.loc(lp), {"paths": n_paths, "events": kinds})
        yield from _loop_guards(ctx, f, lp, g, res, rule_id, props, loop_key, drop_sets)


def _stmt_guard_clauses(ctx, f: Func, node: ast.AST, subst, lp=None):
    return guard_clauses(guards(node, stop=lp) if lp is not None else guards(node, through_loops=False), subst)


def _filter_param(f: Func) -> Optional[str]:
    for p_ in f.params():
        if p_ in ("measurement", "_measurement"):
            ann = f.param_annotation(p_)
            if ann is not None and "Optional[str]" in norm(ann):
                return p_
    for p_ in f.params():
        if p_ in ("_measurement", "measurement"):
            return p_
    return None


def filter_clause(fp: str, item: str) -> Set[Tuple[str, bool]]:
    """`filter unset or row's measurement equals it` as a clause."""
    # the row's measurement text, as the normaliser prints it
    dm = f"self._storage._deserialize_measurement({item})"
    x, y = sorted([dm, fp])
    return {(f"truthy({fp})", False), (f"eq({x},{y})", True)}


def _loop_guards(ctx, f: Func, lp: ast.For, g, res, rule_id, props, loop_key, drop_sets):
    pos, item = loop_vars(lp)
    subst = make_subst(f, scope=lp)
    fp = _filter_param(f)
    is_index_loop = pos is not None and any(
        isinstance(n, ast.Compare) and isinstance(n.ops[0], (ast.In, ast.NotIn)) and isinstance(n.left, ast.Name)
        and n.left.id == pos for n in walk_local(lp))
    # collect distinct event nodes
    seen: Dict[int, Event] = {}
    for nodes, end, evs, incs in res:
        for e in evs:
            seen.setdefault(id(e.node), e)
    for e in seen.values():
        cl = _stmt_guard_clauses(ctx, f, e.node, subst, lp)
        key = f"{loop_key} | {e.kind} guard | {norm(stmt_of(e.node), 90)}{occ(f, e.node)}"
        if e.kind == "BAD":
            continue
        if is_index_loop:
            member = [(a, p_) for c in cl for (a, p_) in c if a.startswith(f"in({pos},") and "_items" in a]
            if e.kind in ("DROP", "REWRITE"):
                ok = any(len(c) == 1 and next(iter(c))[0].startswith(f"in({pos},") and next(iter(c))[1] for c in cl)
                yield Ob(rule_id, props, key, ok,
                         "selected only when the row position is in the index result" if ok else
                         f"{e.kind} is not control-dependent on `{pos} in <index result>`: {sorted(map(sorted, cl))}",
                         ctx.prog.loc(e.node))
            else:  # KEEP in an index loop: either not a candidate, or candidate left unchanged
                ok = True
                yield Ob(rule_id, props, key, ok, "row kept verbatim", ctx.prog.loc(e.node), nontrivial=False)
        else:
            if fp is None:
                continue
            fc = filter_clause(fp, item)
            if e.kind in ("DROP", "REWRITE"):
                ok_f = entails(cl, fc)
                q_ok = any(len(c) == 1 and next(iter(c))[1] and ("query(" in next(iter(c))[0]
                           or "perform_update(" in next(iter(c))[0]) for c in cl) or \
                    any(next(iter(c))[1] and "query(" in " ".join(a for a, _ in c) for c in cl if len(c) <= 2)
                ok = ok_f and q_ok
                why = []
                if not ok_f:
                    why.append(f"not control-dependent on the measurement filter ({fp} unset or row's measurement == {fp})")
                if not q_ok:
                    why.append("not control-dependent on the query being true for this row")
                yield Ob(rule_id, props, key, ok, "; ".join(why) if why else
                         "selected only under the measurement filter and a true query", ctx.prog.loc(e.node),
                         {"guards": sorted(map(sorted, cl))})
            else:
                yield Ob(rule_id, props, key, True, "row kept verbatim", ctx.prog.loc(e.node), nontrivial=False)
    # a row passing filter and query must not be KEPT by a path that never evaluated them:
    # KEEP guards must be inconsistent with (filter and query true and -- for update -- changed)
    if not is_index_loop and fp is not None:
        for e in seen.values():
            if e.kind != "KEEP":
                continue
            cl = _stmt_guard_clauses(ctx, f, e.node, subst, lp)
            fc = filter_clause(fp, item)
            neg_filter_units = [{(f"truthy({fp})", True)}, {(sorted(fc)[0][0], False)} if False else None]
            # KEEP is legitimate iff guards entail not-filter, or not-query, or not-changed
            lits = {l for c in cl for l in c}
            not_filter = entails(cl, [(a, not p_) for a, p_ in fc if a.startswith("eq(")]) and \
                entails(cl, [(f"truthy({fp})", True)])
            not_query = any(len(c) <= 2 and any(("query(" in a) and not p_ for a, p_ in c) for c in cl)
            not_changed = any(len(c) == 1 and (not next(iter(c))[1]) and "perform_update(" in next(iter(c))[0]
                              for c in cl)
            fallthrough = not cl or all(len(c) > 1 for c in cl)
            ok = not_filter or not_query or not_changed or fallthrough_keep_ok(ctx, f, lp, e, res, g)
            key = f"{loop_key} | KEEP legitimacy | {norm(stmt_of(e.node), 90)}{occ(f, e.node)}"
            yield Ob(rule_id, props, key, ok,
                     "kept only when the row fails the filter, fails the query, or is unchanged" if ok else
                     f"a row can be kept verbatim although it passes filter and query: guards "
                     f"{sorted(map(sorted, cl))}", ctx.prog.loc(e.node))


def fallthrough_keep_ok(ctx, f, lp, e, res, g) -> bool:
    """A KEEP at the end of the body is fine if every path reaching it either
    skipped the update branch (query false) or saw an unchanged result."""
    for nodes, end, evs, incs in res:
        if not any(x.node is e.node for x in evs):
            continue
        ok = False
        for i, nid in enumerate(nodes[:-1]):
            nd = g.nodes[nid]
            if nd.kind == "test":
                t = norm(nd.ast.test)
                nxt = nodes[i + 1]
                lab = [l for (tgt, l) in g.succ[nid] if tgt == nxt]
                if lab and lab[0] == "false" and ("query(" in t or re.fullmatch(r"\w+", t)):
                    ok = True
        if not ok:
            return False
    return True


@rule("C02.R2", ["C02", "C06", "C07", "C01", "C04"], min_instances=4, design="3.2")
def remove_row_conservation(ctx):
    """Each path through a rewrite-loop iteration of _remove_helper keeps or drops the row exactly once."""
    yield from _conservation(ctx, "TinyFlux._remove_helper", "C02.R2", ["C02", "C04"], {"KEEP", "DROP"})
    yield from _remove_counters(ctx)


@rule("C03.R2", ["C03", "C15"], min_instances=4, design="3.3")
def update_row_conservation(ctx):
    """Each path through a rewrite-loop iteration of _update_helper appends exactly one row (verbatim or re-serialised)."""
    yield from _conservation(ctx, "TinyFlux._update_helper", "C03.R2", ["C03"], {"KEEP", "REWRITE"})
    yield from _update_counters(ctx)


def _remove_counters(ctx):
    f = ctx.prog.func("TinyFlux._remove_helper", "C02.R2")
    drop_sets = drop_set_vars(f)
    # keep counter = the counter tested after the loops to decide "nothing kept"
    keep_cnt = None
    for n in walk_local(f.node):
        if isinstance(n, ast.If) and isinstance(n.test, ast.UnaryOp) and isinstance(n.test.op, ast.Not) \
                and isinstance(n.test.operand, ast.Name):
            if any(isinstance(x, ast.Call) and call_name(x) == "_reset_database" for s in n.body for x in ast.walk(s)):
                keep_cnt = n.test.operand.id
    if keep_cnt is None:
        raise AnalysisError("C02.R2", "the `nothing kept -> reset` test was not found in _remove_helper")
    for lp in rewrite_loops(ctx, f):
        pos, item = loop_vars(lp)
        g, res = path_report(ctx, f, lp, drop_sets)
        bad = []
        # position bookkeeping in the index loop: updated_items[i] = new_position iff i != new_position
        renum = [n for n in walk_local(lp) if isinstance(n, ast.Assign) and isinstance(n.targets[0], ast.Subscript)
                 and isinstance(n.targets[0].slice, ast.Name) and n.targets[0].slice.id == pos]
        newpos = renum[0].value.id if renum and isinstance(renum[0].value, ast.Name) else None
        jvars = set()
        for n in walk_local(lp):
            if isinstance(n, ast.Compare) and isinstance(n.left, ast.Name) and isinstance(n.ops[0], ast.Eq) \
                    and isinstance(n.comparators[0], ast.Call) and call_name(n.comparators[0]) == "len":
                jvars.add(n.left.id)
        for nodes, end, evs, incs in res:
            kinds = [e.kind for e in evs if e.kind in ("KEEP", "DROP")]
            if len(kinds) != 1 or end in ("exc", "break", "return"):
                continue
            k = kinds[0]
            if k == "KEEP":
                if incs.get(keep_cnt, 0) < 1:
                    bad.append(f"KEEP path {_path_text(g, nodes)} adds {incs.get(keep_cnt, 0)} to {keep_cnt}: kept rows are not counted, "
                               f"`not {keep_cnt}` resets the database although rows were kept")
                if newpos is not None and incs.get(newpos, 0) != 1:
                    bad.append(f"KEEP path {_path_text(g, nodes)} advances {newpos} {incs.get(newpos, 0)} times")
                for j in jvars:
                    if incs.get(j, 0):
                        bad.append(f"KEEP path {_path_text(g, nodes)} advances the candidate counter {j}")
            else:
                if incs.get(keep_cnt, 0) != 0:
                    bad.append(f"DROP path {_path_text(g, nodes)} increments {keep_cnt}")
                if newpos is not None and incs.get(newpos, 0) != 0:
                    bad.append(f"DROP path {_path_text(g, nodes)} advances {newpos}")
                for j in jvars:
                    if incs.get(j, 0) not in (0, 1):
                        bad.append(f"DROP path {_path_text(g, nodes)} advances the candidate counter {j} "
                                   f"by {incs.get(j, 0)} (the early-exit test fires before every candidate was seen)")
        if renum:
            r = renum[0]
            cl = guard_clauses(guards(r, stop=lp))
            x, y = sorted([pos, newpos or "?"])
            if not any(len(c) == 1 and next(iter(c)) == (f"eq({x},{y})", False) for c in cl):
                bad.append(f"`{norm(r)}` is not guarded by `{pos} != {newpos}`")
            # the increment must come after the store on the same path
            gi = ctx.cfg(f, exceptional=False)
            rid = gi.ids_of(r)
            incn = [n for n in walk_local(lp) if isinstance(n, ast.AugAssign) and isinstance(n.target, ast.Name)
                    and n.target.id == newpos]
            for inc in incn:
                iid = gi.ids_of(inc)
                if rid and iid and rid[0] in gi.reachable(iid, avoid=lambda x: x.kind == "iter" and x.ast is lp):
                    bad.append(f"{newpos} is advanced before the renumbering entry is recorded")
        elif pos is not None and any(isinstance(n, ast.Compare) and isinstance(n.ops[0], (ast.In, ast.NotIn))
                                     for n in walk_local(lp)):
            bad.append("index-path loop records no old->new position mapping")
        yield Ob("C02.R2", ["C02", "C06", "C07", "C01"], f"TinyFlux._remove_helper | counters in loop over {norm(lp.iter)} "
                 f"#{rewrite_loops(ctx, f).index(lp) + 1}", not bad,
                 "; ".join(bad[:4]) if bad else f"{keep_cnt} counts exactly the kept rows; position/candidate "
                 f"counters advance on the right paths", ctx.prog.loc(lp))


def _update_counters(ctx):
    f = ctx.prog.func("TinyFlux._update_helper", "C03.R2")
    # update counter = the name returned at the end
    rets = [n for n in walk_local(f.node) if isinstance(n, ast.Return) and isinstance(n.value, ast.Name)]
    if not rets:
        raise AnalysisError("C03.R2", "_update_helper returns no counter variable")
    uc = rets[-1].value.id
    # the local holding the updater closure (whatever it is called)
    updn = "perform_update"
    for n_ in walk_local(f.node):
        if isinstance(n_, ast.Assign) and len(n_.targets) == 1 and isinstance(n_.targets[0], ast.Name) \
                and isinstance(n_.value, ast.Call) and call_name(n_.value) == "_generate_updater":
            updn = n_.targets[0].id
    for lp in rewrite_loops(ctx, f):
        subst = make_subst(f, scope=lp)
        pos, item = loop_vars(lp)
        g, res = path_report(ctx, f, lp, set())
        bad = []
        jvars = set()
        for n in walk_local(lp):
            if isinstance(n, ast.Compare) and isinstance(n.left, ast.Name) and isinstance(n.ops[0], ast.Eq) \
                    and isinstance(n.comparators[0], ast.Call) and call_name(n.comparators[0]) == "len":
                jvars.add(n.left.id)
        for nodes, end, evs, incs in res:
            kinds = [e.kind for e in evs if e.kind in ("KEEP", "REWRITE")]
            if len(kinds) != 1 or end in ("exc", "break", "return"):
                continue
            want = 1 if kinds[0] == "REWRITE" else 0
            if incs.get(uc, 0) != want:
                bad.append(f"{kinds[0]} path {_path_text(g, nodes)} increments {uc} {incs.get(uc, 0)} times")
            called = any(isinstance(c, ast.Call) and isinstance(c.func, ast.Name) and c.func.id == updn
                         for nid in nodes for c in g.nodes[nid].calls())
            if kinds[0] == "REWRITE" and not called:
                bad.append(f"REWRITE path {_path_text(g, nodes)} never calls the updater")
            for j in jvars:
                if incs.get(j, 0) and not called:
                    bad.append(f"path {_path_text(g, nodes)} advances the candidate counter {j} on a non-candidate row")
                if incs.get(j, 0) > 1:
                    bad.append(f"path {_path_text(g, nodes)} advances {j} by {incs.get(j, 0)} (the early-exit test fires before "
                               f"every candidate was seen)")
        # REWRITE must be conditional on the updater's verdict being true
        bad_noop = []
        for n in walk_local(lp):
            if isinstance(n, ast.Call) and is_temp_append(ctx, f, n):
                a0 = n.args[0] if n.args else None
                if isinstance(a0, ast.List) and a0.elts and isinstance(a0.elts[0], ast.Call) \
                        and call_name(a0.elts[0]) == "_serialize_point":
                    cl = guard_clauses(guards(n, stop=lp), subst)
                    if not any(len(c) == 1 and next(iter(c))[1] and f"{updn}(" in next(iter(c))[0] for c in cl):
                        bad_noop.append(f"re-serialised append at line {n.lineno} is not conditional on the updater "
                                        f"reporting a change: an update that changes nothing still rewrites storage")
        # the updater call itself: under filter and (update_all or query) / index membership
        for n in walk_local(lp):
            if isinstance(n, ast.Call) and isinstance(n.func, ast.Name) and n.func.id == updn:
                cl = guard_clauses(guards(n, stop=lp), subst)
                arg_ok = n.args and isinstance(n.args[0], ast.Name) and all(
                    isinstance(v, ast.Call) and call_name(v) == "_deserialize_storage_item" and v.args
                    and isinstance(v.args[0], ast.Name) and v.args[0].id == item
                    for v in assignments_to(f, n.args[0].id) if in_subtree(v, lp))
                if not arg_ok:
                    bad.append(f"updater at line {n.lineno} is not applied to the point deserialised from `{item}`")
                if pos is not None and any(isinstance(x, ast.Compare) and isinstance(x.ops[0], (ast.In, ast.NotIn))
                                           for x in walk_local(lp)):
                    if not any(len(c) == 1 and next(iter(c))[0].startswith(f"in({pos},") and next(iter(c))[1] for c in cl):
                        bad.append(f"updater at line {n.lineno} not conditional on index membership of `{pos}`")
                else:
                    fp = _filter_param(f)
                    if fp and not entails(cl, filter_clause(fp, item)):
                        bad.append(f"updater at line {n.lineno} not conditional on the measurement filter")
                    if not any(any("query(" in a and p_ for a, p_ in c) and all(
                            ("query(" in a or "update_all" in a) and p_ for a, p_ in c) for c in cl):
                        bad.append(f"updater at line {n.lineno} not conditional on `update_all or query(point)`")
        yield Ob("C03.R2", ["C03", "C15"], f"TinyFlux._update_helper | rewrite only on change in loop over "
                 f"{norm(lp.iter)} #{rewrite_loops(ctx, f).index(lp) + 1}", not bad_noop,
                 "; ".join(bad_noop) if bad_noop else "rows are re-serialised only when the updater reports a change",
                 ctx.prog.loc(lp))
        yield Ob("C03.R2", ["C03"], f"TinyFlux._update_helper | counters and updater guards in loop over "
                 f"{norm(lp.iter)} #{rewrite_loops(ctx, f).index(lp) + 1}", not bad,
                 "; ".join(bad[:4]) if bad else f"{uc} counts exactly the re-serialised rows; updater applied under "
                 f"the right guards", ctx.prog.loc(lp))


# ------------------------------------------------------------ commit protocol
def _swap_calls(ctx, f: Func) -> List[ast.Call]:
    return [n for n in walk_local(f.node) if isinstance(n, ast.Call) and call_name(n) == "_swap_temp_with_primary"]


@rule("C02.R3", ["C02", "C15", "C12"], min_instances=4, design="3.2")
def remove_commit_protocol(ctx):
    """No-op removals return before any primary mutation; commit returns the number actually removed."""
    f = ctx.prog.func("TinyFlux._remove_helper", "C02.R3")
    subst = make_subst(f)
    drop_sets = drop_set_vars(f)
    if not drop_sets:
        raise AnalysisError("C02.R3", "no removal set whose size is returned")
    ds = sorted(drop_sets)
    swaps = _swap_calls(ctx, f)
    resets = [n for n in walk_local(f.node) if isinstance(n, ast.Call) and call_name(n) == "_reset_database"]
    if not swaps:
        raise AnalysisError("C02.R3", "no swap call in _remove_helper")

    def nonempty(cl, names) -> bool:
        for c in cl:
            if len(c) == 1:
                a, p_ = next(iter(c))
                if p_ and any(a in (f"truthy({n})", f"truthy(len({n}))") for n in names):
                    return True
        return False

    local_drop = [d for d in ds if assignments_to(f, d) and not any(isinstance(v, ast.Call) and "search" in norm(v)
                                                                     for v in assignments_to(f, d))]
    for s in swaps:
        cl = guard_clauses(guards(s), subst)
        ok = nonempty(cl, local_drop)
        yield Ob("C02.R3", ["C02", "C15", "C12"], f"{f.qual} | swap only when something was removed | {norm(s)}", ok,
                 "swap is control-dependent on a non-empty removal set" if ok else
                 f"swap can run with an empty removal set (guards {sorted(map(sorted, cl))})", ctx.prog.loc(s))
    for r in resets:
        cl = guard_clauses(guards(r), subst)
        lits = [next(iter(c)) for c in cl if len(c) == 1]
        def _from_index(atom: str) -> bool:
            if "_items" in atom or ".items" in atom:
                return True
            import re as _re
            for nm_ in _re.findall(r"len\((\w+)\)", atom):
                vals_ = assignments_to(f, nm_)
                if vals_ and all(("_items" in norm(v_) or ".items" in norm(v_) or "search(" in norm(v_)
                                  or const_value(v_) is None) for v_ in vals_):
                    return True
            return False
        all_matched = any(a.startswith("eq(") and "len(" in a and "self._index" in a and p_ and _from_index(a)
                          for a, p_ in lits)
        none_kept = any(a.startswith("truthy(") and not p_ and "keep" in a for a, p_ in lits) or \
            any(not p_ and a.startswith("truthy(") for a, p_ in lits if a not in
                [f"truthy(len({d}))" for d in ds] + [f"truthy({d})" for d in ds] + ["truthy(index_rst._items)"])
        ok = all_matched or (none_kept and nonempty(cl, local_drop))
        yield Ob("C02.R3", ["C02", "C15"], f"{f.qual} | reset only when everything matched | {norm(stmt_of(r), 60)} "
                 f"#{resets.index(r) + 1}", ok,
                 "reset guarded by `all rows matched` or `something removed and nothing kept`" if ok else
                 f"reset of the whole database under guards {sorted(map(sorted, cl))}", ctx.prog.loc(r))
    # return values
    for n in walk_local(f.node):
        if not isinstance(n, ast.Return):
            continue
        cl = guard_clauses(guards(n), subst)
        v = n.value
        key = f"{f.qual} | return value | {norm(n)} under {sorted(map(sorted, cl))[:3]}"
        if isinstance(v, ast.Constant) and v.value == 0:
            lits = [next(iter(c)) for c in cl if len(c) == 1]
            ok = any((not p_) and (a.startswith("truthy(") and ("_items" in a or any(d in a for d in ds)))
                     for a, p_ in lits)
            yield Ob("C02.R3", ["C02", "C15"], f"{f.qual} | return 0 | guards {sorted(map(sorted, cl))[:3]}", ok,
                     "0 returned only when nothing matched" if ok else "0 returned although rows may have been removed",
                     ctx.prog.loc(n))
        elif isinstance(v, ast.Call) and call_name(v) == "len" and v.args:
            t = subst(v.args[0])
            ok = t in ds or "._items" in t
            yield Ob("C02.R3", ["C02"], f"{f.qual} | return count | {norm(n)}{occ(f, n)}", ok,
                     "returns the size of the removal set / exact index result" if ok else
                     f"returns len({t}), not the number of removed rows", ctx.prog.loc(n))
        else:
            yield Ob("C02.R3", ["C02"], f"{f.qual} | return count | {norm(n)}{occ(f, n)}", False,
                     "return value is not the size of the removal set", ctx.prog.loc(n))


@rule("C03.R4", ["C03", "C15", "C11", "C14", "C12"], min_instances=3, design="3.3")
def update_commit_protocol(ctx):
    """Validation precedes the first temp write; no-op updates return before the swap; the count is returned."""
    f = ctx.prog.func("TinyFlux._update_helper", "C03.R4")
    subst = make_subst(f)
    g = ctx.cfg(f, exceptional=False)
    rets = [n for n in walk_local(f.node) if isinstance(n, ast.Return) and isinstance(n.value, ast.Name)]
    if not rets:
        raise AnalysisError("C03.R4", "_update_helper returns no counter variable")
    uc = rets[-1].value.id
    swaps = _swap_calls(ctx, f)
    if not swaps:
        raise AnalysisError("C03.R4", "no swap call in _update_helper")
    for s in swaps:
        cl = guard_clauses(guards(s), subst)
        ok = any(len(c) == 1 and next(iter(c)) == (f"truthy({uc})", True) for c in cl)
        yield Ob("C03.R4", ["C03", "C15", "C12"], f"{f.qual} | swap only when something changed | {norm(s)}", ok,
                 f"swap is control-dependent on {uc} > 0" if ok else
                 f"swap can run although no row changed (guards {sorted(map(sorted, cl))})", ctx.prog.loc(s))
    # validation (the call that builds the updater) dominates every temp append
    gens = [n for n in g.stmt_nodes() for c in n.calls() if call_name(c) == "_generate_updater"]
    tmp = [n for n in g.stmt_nodes() for c in n.calls() if is_temp_append(ctx, f, c)]
    if not gens or not tmp:
        raise AnalysisError("C03.R4", "updater construction or temp appends not found")
    gid = {n.id for n in gens}
    bad = [n for n in tmp if not g.dominated(n.id, lambda x: x.id in gid)]
    rets_ = [n for n in g.stmt_nodes() if n.kind == "stmt" and isinstance(n.ast, ast.Return)]
    early = [n for n in rets_ if not g.dominated(n.id, lambda x: x.id in gid)]
    yield Ob("C03.R4", ["C03", "C14", "C11"], f"{f.qual} | argument validation precedes every return", not early,
             "no path returns before the update arguments were validated" if not early else
             f"`{norm(early[0].ast)}` at line {early[0].lineno} can be reached before the update arguments are validated: "
             f"invalid arguments are silently accepted when that shortcut applies", f.loc())
    yield Ob("C03.R4", ["C03", "C11"], f"{f.qual} | argument validation dominates temp writes", not bad,
             "all static-argument validation happens before the first row is staged" if not bad else
             f"temp write at line {bad[0].lineno} can precede argument validation", f.loc())
    for n in walk_local(f.node):
        if isinstance(n, ast.Return):
            cl = guard_clauses(guards(n), subst)
            v = n.value
            if isinstance(v, ast.Constant) and v.value == 0:
                lits = [next(iter(c)) for c in cl if len(c) == 1]
                def _is_candidates(atom: str) -> bool:
                    if "_items" in atom or ".items" in atom:
                        return True
                    import re as _re
                    m_ = _re.fullmatch(r"truthy\((\w+)\)", atom)
                    if m_:
                        vals_ = assignments_to(f, m_.group(1))
                        return bool(vals_) and all(("_items" in norm(v_) or ".items" in norm(v_) or "search(" in norm(v_)
                                                    or const_value(v_) is None) for v_ in vals_)
                    return False
                ok = any((not p_) and (a == f"truthy({uc})" or _is_candidates(a)) for a, p_ in lits)
                yield Ob("C03.R4", ["C03", "C15"], f"{f.qual} | return 0 | guards {sorted(map(sorted, cl))[:3]}", ok,
                         "0 returned only when nothing matched or changed" if ok else
                         "0 returned although rows may have changed", ctx.prog.loc(n))
            else:
                ok = isinstance(v, ast.Name) and v.id == uc
                yield Ob("C03.R4", ["C03"], f"{f.qual} | return count | {norm(n)}{occ(f, n)}", ok,
                         f"returns {uc}" if ok else "does not return the change counter", ctx.prog.loc(n))
