"""Scan-path guards, index-path conjunction with the measurement filter, and
result ordering (C01.R5, C01.R6, C07.R2, C10.R2)."""

from __future__ import annotations

import ast
from typing import Dict, List, Optional, Set, Tuple

from ..astq import (assignments_to, call_name, in_subtree, loop_vars, names_in, occ, stmt_of, storage_loops,
                    strip_enumerate)
from ..logic import consistent_with, entails, guard_clauses, guards
from ..model import AnalysisError, Func, ancestors, first_line, norm, walk_local, parent
from ..report import Ob, rule
from .rewrite import filter_clause, make_subst, _filter_param, is_temp_append, rewrite_loops

QUERY_CONSUMERS = {"contains", "count", "get", "search", "select", "_remove_helper", "_update_helper"}
GETTERS = {"get_field_keys", "get_field_values", "get_tag_keys", "get_tag_values", "get_timestamps"}


def is_index_loop(lp: ast.For) -> bool:
    pos, item = loop_vars(lp)
    if pos is None:
        return False
    return any(isinstance(n, ast.Compare) and isinstance(n.ops[0], (ast.In, ast.NotIn)) and isinstance(n.left, ast.Name)
               and n.left.id == pos for n in walk_local(lp))


def filtered_methods(ctx) -> List[Tuple[Func, str]]:
    out = []
    for f in ctx.prog.methods_of("TinyFlux"):
        fp = _filter_param(f)
        if fp is None:
            continue
        ann = f.param_annotation(fp)
        if ann is None or "Optional[str]" not in norm(ann):
            continue
        out.append((f, fp))
    return out


def accumulators(f: Func, lp: ast.For) -> List[ast.AST]:
    """Statements in the loop that publish a result: writes to names defined outside the loop."""
    outer: Set[str] = set()
    for n in walk_local(f.node):
        if isinstance(n, (ast.Assign, ast.AnnAssign)) and not in_subtree(n, lp):
            ts = n.targets if isinstance(n, ast.Assign) else [n.target]
            for t in ts:
                if isinstance(t, ast.Name):
                    outer.add(t.id)
    end = getattr(lp, "end_lineno", lp.lineno)
    read_after = {n.id for n in walk_local(f.node) if isinstance(n, ast.Name) and isinstance(n.ctx, ast.Load)
                  and n.lineno > end}
    outer &= read_after
    pos, item = loop_vars(lp)
    out: List[ast.AST] = []
    for n in walk_local(lp):
        if n is lp:
            continue
        if isinstance(n, (ast.Assign, ast.AugAssign)):
            ts = n.targets if isinstance(n, ast.Assign) else [n.target]
            for t in ts:
                base = t
                while isinstance(base, ast.Subscript):
                    base = base.value
                if isinstance(base, ast.Name) and base.id in outer:
                    out.append(n)
        elif isinstance(n, ast.Call) and isinstance(n.func, ast.Attribute) \
                and n.func.attr in ("append", "add", "extend", "update", "insert"):
            base = n.func.value
            while isinstance(base, (ast.Call, ast.Attribute, ast.Subscript)):
                base = base.func if isinstance(base, ast.Call) else base.value
            if isinstance(base, ast.Name) and base.id in outer:
                out.append(n)
        elif isinstance(n, (ast.Yield, ast.Return)) and n.value is not None:
            out.append(n)
    return out


def _innermost_loop(n: ast.AST):
    for a in ancestors(n):
        if isinstance(a, (ast.For, ast.While)):
            return a
    return None


@rule("C01.R5", ["C01", "C07", "C10"], min_instances=10, design="3.1")
def scan_guards(ctx):
    """In every scan loop the row is used only under `filter unset or row's measurement == filter`, and (query consumers) only when query(point of this row) is true."""
    fm = filtered_methods(ctx)
    if len(fm) < 12:
        raise AnalysisError("C01.R5", f"expected >=12 measurement-filtered TinyFlux methods, found {len(fm)}")
    n_loops = 0
    for f, fp in fm:
        props = ["C10"]
        if f.name in QUERY_CONSUMERS:
            props.append({"_remove_helper": "C02", "_update_helper": "C03"}.get(f.name, "C01"))
        elif f.name in GETTERS:
            props.append("C07")
        for lp in storage_loops(ctx, f):
            if is_index_loop(lp):
                continue
            pos, item = loop_vars(lp)
            if item is None:
                raise AnalysisError("C01.R5", f"{f.qual}: loop target not recognised at line {lp.lineno}")
            n_loops += 1
            subst = make_subst(f, scope=lp)
            fc = filter_clause(fp, item)
            rewriting = any(isinstance(n, ast.Call) and is_temp_append(ctx, f, n) for n in walk_local(lp))
            acc = accumulators(f, lp)
            if rewriting:
                # rewrite loops: their KEEP/DROP/REWRITE guards are checked by C02.R2/C03.R2
                acc = [a for a in acc if not (isinstance(a, ast.Call) and is_temp_append(ctx, f, a))
                       and not (isinstance(a, ast.AugAssign))]
            bad = []
            for a in acc:
                if rewriting:
                    continue
                cl = guard_clauses(guards(a, stop=lp), subst)
                if not entails(cl, fc):
                    bad.append(f"`{norm(a, 50)}` (line {a.lineno}) is not guarded by the measurement filter "
                               f"({fp} unset or row's measurement == {fp})")
                else:
                    # ... and the filter must not exclude more than it says: a row is still used when no filter is
                    # given, and when its measurement equals the filter
                    eq_atom = next(a_ for a_, p_ in fc if p_)
                    tr_atom = next(a_ for a_, p_ in fc if not p_)
                    if not consistent_with(cl, [(tr_atom, False), (eq_atom, False)]):
                        bad.append(f"`{norm(a, 50)}` (line {a.lineno}) is never reached when no measurement filter is given "
                                   f"(the row's measurement never equals an unset filter): every row drops out")
                    elif not consistent_with(cl, [(tr_atom, True), (eq_atom, True)]):
                        bad.append(f"`{norm(a, 50)}` (line {a.lineno}) is never reached for a row of the requested measurement")
                if f.name in QUERY_CONSUMERS and "query" in f.params():
                    q = f"truthy(query(self._storage._deserialize_storage_item({item})))"
                    if not any(len(c) == 1 and next(iter(c)) == (q, True) for c in cl):
                        bad.append(f"`{norm(a, 50)}` (line {a.lineno}) is not guarded by query(point of `{item}`) "
                                   f"being true")
            # leaving the scan early is only sound once a result was found: an exit statement must carry the same
            # guards as a result statement (filter, and the query for query consumers)
            if not rewriting:
                for x in walk_local(lp):
                    if isinstance(x, ast.Break) and _innermost_loop(x) is lp:
                        cl = guard_clauses(guards(x, stop=lp), subst)
                        okx = entails(cl, fc)
                        if okx and f.name in QUERY_CONSUMERS and "query" in f.params():
                            q = f"truthy(query(self._storage._deserialize_storage_item({item})))"
                            okx = any(len(c) == 1 and next(iter(c)) == (q, True) for c in cl)
                        elif okx:
                            okx = False  # a getter has no reason to stop before the last row
                        if not okx:
                            bad.append(f"`break` at line {x.lineno} ends the scan on a row that is not a result: "
                                       f"later rows are never looked at (measurement filter)")
            # results must not be filtered by the stored *values* (only by filter / query / requested keys)
            vals = set()
            for n in walk_local(lp):
                if isinstance(n, ast.For) and isinstance(n.target, ast.Tuple) and len(n.target.elts) == 2 \
                        and isinstance(n.iter, ast.Call) and call_name(n.iter) == "items" \
                        and isinstance(n.target.elts[1], ast.Name):
                    vals.add(n.target.elts[1].id)
                if isinstance(n, ast.Assign) and len(n.targets) == 1 and isinstance(n.targets[0], ast.Name):
                    t_ = norm(n.value)
                    if (".fields" in t_ or ".tags" in t_) and (".get(" in t_ or isinstance(n.value, ast.Subscript)):
                        vals.add(n.targets[0].id)
            if f.name in GETTERS or f.name in QUERY_CONSUMERS:
                import re as _re
                for a in acc:
                    if rewriting:
                        continue
                    for c in guard_clauses(guards(a, stop=lp), subst):
                        for atom, pol in c:
                            if "query(" in atom:
                                continue
                            hit = [v for v in vals if _re.search(rf"(?<![\w.]){_re.escape(v)}(?![\w])", atom)]
                            if not hit and (".fields" in atom or ".tags" in atom) and (
                                    ".get(" in atom or "[" in atom.split(".fields")[-1] or "[" in atom.split(".tags")[-1]):
                                hit = ["<a value read from the point's fields/tags>"]
                            if hit:
                                bad.append(f"`{norm(a, 50)}` (line {a.lineno}) is additionally conditioned on the "
                                           f"stored value `{hit[0]}` ({atom}): rows whose value fails the test "
                                           f"silently drop out of the result")
            # the deserialised point used must be that of the same row
            for n in walk_local(lp):
                if isinstance(n, ast.Call) and call_name(n) in ("_deserialize_storage_item", "_deserialize_timestamp",
                                                                "_deserialize_measurement"):
                    if not (n.args and isinstance(n.args[0], ast.Name) and n.args[0].id == item):
                        bad.append(f"`{norm(n, 60)}` does not deserialise the loop's row `{item}`")
            if not acc and not rewriting:
                bad.append("loop publishes no result")
            filter_problem = any("measurement filter" in b or "does not deserialise" in b for b in bad)
            eff_props = props if (not bad or filter_problem) else [p_ for p_ in props if p_ != "C10"]
            yield Ob("C01.R5", eff_props, f"{f.qual} | scan loop guards | for {norm(lp.target)} in {norm(lp.iter)}{occ(f, lp)}",
                     not bad, "; ".join(bad[:3]) if bad else
                     f"{len(acc)} result statement(s) guarded by the filter" +
                     (" and the query" if f.name in QUERY_CONSUMERS else ""), ctx.prog.loc(lp))
    if n_loops < 12:
        raise AnalysisError("C01.R5", f"expected >=12 scan loops, found {n_loops}")


@rule("C01.R5b", ["C01", "C02", "C03", "C10"], min_instances=7, design="3.1")
def index_conjunction(ctx):
    """On the index path a given measurement filter is conjoined with the user query: search(MeasurementQuery() == filter & query)."""
    for f, fp in filtered_methods(ctx):
        for n in walk_local(f.node):
            if not (isinstance(n, ast.Call) and isinstance(n.func, ast.Attribute) and n.func.attr == "search"
                    and ctx.res.type_of(n.func.value, f) == "Index"):
                continue
            prop = {"_remove_helper": "C02", "_update_helper": "C03"}.get(f.name, "C01")
            arg = n.args[0] if n.args else None
            from ..logic import cnf, formula, negate

            def units(node):
                return {next(iter(c)) for c in guard_clauses(guards(node)) if len(c) == 1}

            def expand(e, lits, depth=0):
                """[(unit literals, expression)] the argument can be, through locals and conditional expressions"""
                if isinstance(e, ast.IfExp):
                    fm = formula(e.test)
                    try:
                        t_ = {next(iter(c)) for c in cnf(fm) if len(c) == 1}
                        f_ = {next(iter(c)) for c in cnf(negate(fm)) if len(c) == 1}
                    except ValueError:
                        t_, f_ = set(), set()
                    return expand(e.body, lits | t_, depth) + expand(e.orelse, lits | f_, depth)
                if isinstance(e, ast.Name) and e.id != "query" and depth < 3:
                    out = []
                    for st_ in walk_local(f.node):
                        if isinstance(st_, ast.Assign) and len(st_.targets) == 1 and isinstance(st_.targets[0], ast.Name) \
                                and st_.targets[0].id == e.id:
                            out += expand(st_.value, lits | units(st_), depth + 1)
                    if out:
                        return out
                return [(lits, e)]
            cases = expand(arg, units(n)) if arg is not None else []
            bad = []

            def is_mq(e: ast.AST) -> bool:
                if isinstance(e, ast.Name):
                    vals = assignments_to(f, e.id)
                    return bool(vals) and all(is_mq(v) for v in vals)
                return isinstance(e, ast.Compare) and isinstance(e.ops[0], ast.Eq) \
                    and norm(e.left) == "MeasurementQuery()" and norm(e.comparators[0]) == fp
            given = False
            for lits, e in cases:
                g_ = (f"truthy({fp})", True) in lits or (f"is(None,{fp})", False) in lits
                a_ = (f"truthy({fp})", False) in lits or (f"is(None,{fp})", True) in lits
                if g_ and a_:
                    continue  # contradictory combination (filter given in the call's guard, absent in the assignment's)
                if g_:
                    given = True
                    if not (isinstance(e, ast.BinOp) and isinstance(e.op, ast.BitAnd)):
                        bad.append(f"with a filter the index is searched for `{norm(e)}`, not `<measurement query> & query`")
                    else:
                        sides = [e.left, e.right]
                        if not any(is_mq(s_) for s_ in sides):
                            bad.append(f"no operand of `{norm(e)}` is MeasurementQuery() == {fp}")
                        if not any(isinstance(s_, ast.Name) and s_.id == "query" for s_ in sides):
                            bad.append(f"the user query is not an operand of `{norm(e)}`")
                elif a_:
                    if not (isinstance(e, ast.Name) and e.id == "query"):
                        bad.append(f"without a filter the index is searched for `{norm(e)}`, not the user query")
                else:
                    bad.append(f"index search `{norm(n)}` is not conditioned on the presence of the filter `{fp}`")
            if not cases:
                bad.append("index search without an argument")
            yield Ob("C01.R5b", [prop, "C10"], f"{f.qual} | index search argument | {norm(n)}", not bad,
                     "; ".join(bad) if bad else ("filter conjoined with the query" if given else "plain query without filter"),
                     ctx.prog.loc(n))


def _sort_sites(f: Func) -> List[ast.Call]:
    return [n for n in walk_local(f.node) if isinstance(n, ast.Call) and (
        (isinstance(n.func, ast.Attribute) and n.func.attr in ("sort", "reverse"))
        or (isinstance(n.func, ast.Name) and n.func.id in ("sorted", "reversed")))]


@rule("C01.R6", ["C01", "C08", "C07"], min_instances=3, design="3.1")
def result_ordering(ctx):
    """`sorted` selects a stable sort keyed on the point's time; otherwise results keep storage order."""
    for q in ("TinyFlux.search", "TinyFlux.all", "Measurement.all"):
        f = ctx.prog.func(q, "C01.R6")
        if "sorted" not in f.params():
            raise AnalysisError("C01.R6", f"{q} has no `sorted` parameter")
        sites = _sort_sites(f)
        bad = []
        time_sorts = []
        for s in sites:
            cl = guard_clauses(guards(s))
            under_flag = any(len(c) == 1 and next(iter(c)) == ("truthy(sorted)", True) for c in cl)
            key = None
            rev = False
            for k in s.keywords:
                if k.arg == "key":
                    key = k.value
                if k.arg == "reverse":
                    rev = True
            if isinstance(s.func, ast.Name) and s.func.id == "sorted":
                # `sorted` the builtin is shadowed by the parameter; any call of it is a bug
                bad.append(f"`{norm(s, 50)}` calls the parameter `sorted`")
                continue
            if not under_flag:
                bad.append(f"`{norm(s, 50)}` reorders results outside the `if sorted:` branch")
                continue
            if rev or (isinstance(s.func, ast.Attribute) and s.func.attr == "reverse"):
                bad.append(f"`{norm(s, 50)}` reverses the order")
                continue
            kbody = None
            if isinstance(key, ast.Lambda) and len(key.args.args) == 1:
                kbody = (key.args.args[0].arg, key.body)
            elif isinstance(key, ast.Name):
                tg = ctx.res.resolve_name(key.id, f)
                if tg and hasattr(tg[0], "node") and not isinstance(tg[0].node, ast.Lambda) \
                        and len(tg[0].params()) == 1:
                    krets = [r for r in walk_local(tg[0].node) if isinstance(r, ast.Return)]
                    if len(krets) == 1 and krets[0].value is not None:
                        kbody = (tg[0].params()[0], krets[0].value)
            if kbody is not None:
                a, body = kbody
                last = body.elts[-1] if isinstance(body, ast.Tuple) and body.elts else body
                if norm(last) == f"{a}.time":
                    firsts = body.elts[:-1] if isinstance(body, ast.Tuple) else []
                    if all(norm(x) in (f"{a} is None", f"{a}.time is None") for x in firsts):
                        time_sorts.append(s)
                        continue
                bad.append(f"sort key `{norm(body)}` does not order by the point's time")
            else:
                bad.append(f"`{norm(s, 50)}` has no time key")
        if not time_sorts and not bad:
            bad.append("no time-keyed sort under `if sorted:`")
        yield Ob("C01.R6", ["C01", "C08", "C07"], f"{q} | sorted flag -> stable time sort", not bad,
                 "; ".join(bad) if bad else "list.sort keyed on time (stable), only under the flag", f.loc())
