"""Which points a whole-database / whole-measurement operation selects (C03.R6, C02.R5, C02.R6).

These rules close gaps that three independently seeded changes went through: each of them widened
the reach of a deviation that is already a listed finding (the index answers a key-less noop query
from the tag/field maps only; an empty measurement name is treated as "no filter") by removing the
one guard that kept an API away from it.
"""

from __future__ import annotations

import ast
from typing import Dict, List, Optional

from ..astq import assignments_to, bind_args, call_name, in_subtree, occ
from ..logic import guards
from ..model import AnalysisError, Func, ancestors, const_value, NOCONST, is_self_attr, norm, walk_local
from ..report import Ob, rule

PATH_REQUIRED_HINT = ("TagQuery", "FieldQuery")


def _truth(e: ast.AST, consts: Dict[str, object], f: Func, want: bool, depth: int = 0) -> bool:
    """Is `e` certainly truthy (want=True) / certainly falsy (want=False) when the parameters in
    `consts` have these constant values?  Local flags are followed through all their assignments."""
    if depth > 6:
        return False
    if isinstance(e, ast.Constant):
        return bool(e.value) is want
    if isinstance(e, ast.Name):
        if e.id in consts:
            return bool(consts[e.id]) is want
        vals = [v for v in assignments_to(f, e.id)]
        if not vals or e.id in f.params():
            return False
        if not want:
            # an assignment that only executes under `if <this flag>:` cannot turn a false flag true: the flag is
            # certainly false when every *other* assignment is (induction over the executions)
            def under_own_test(v) -> bool:
                child = v
                for a_ in ancestors(v):
                    if isinstance(a_, ast.If) and isinstance(a_.test, ast.Name) and a_.test.id == e.id \
                            and any(child is s_ or in_subtree(child, s_) for s_ in a_.body):
                        return True
                    child = a_
                return False
            vals = [v for v in vals if not under_own_test(v)]
            if not vals:
                return False
        return all(not isinstance(v, ast.AugAssign) and _truth(v, consts, f, want, depth + 1) for v in vals)
    if isinstance(e, ast.UnaryOp) and isinstance(e.op, ast.Not):
        return _truth(e.operand, consts, f, not want, depth + 1)
    if isinstance(e, ast.BoolOp):
        if isinstance(e.op, ast.And):
            return all(_truth(v, consts, f, True, depth + 1) for v in e.values) if want else \
                any(_truth(v, consts, f, False, depth + 1) for v in e.values)
        return any(_truth(v, consts, f, True, depth + 1) for v in e.values) if want else \
            all(_truth(v, consts, f, False, depth + 1) for v in e.values)
    return False


def _path_required_classes(ctx) -> List[str]:
    out = []
    for cname in ctx.prog.subclasses("BaseQuery", strict=True):
        init = ctx.prog.classes[cname].methods.get("__init__")
        if init is None:
            continue
        for n in walk_local(init.node):
            if isinstance(n, ast.Assign) and any(is_self_attr(t, "_path_required") for t in n.targets) \
                    and const_value(n.value) is True:
                out.append(cname)
    return out


def _is_keyless_noop(e: ast.AST, classes: List[str]) -> Optional[str]:
    """`TagQuery().noop()` / `FieldQuery().noop()`: a noop query of a class whose index leaf only
    enumerates points that carry at least one tag / field."""
    if isinstance(e, ast.Call) and isinstance(e.func, ast.Attribute) and e.func.attr == "noop" \
            and isinstance(e.func.value, ast.Call) and isinstance(e.func.value.func, ast.Name) \
            and e.func.value.func.id in classes and not e.func.value.args:
        return e.func.value.func.id
    return None


@rule("C03.R6", ["C03", "C01", "C10"], min_instances=1, design="3.3")
def select_all_bypasses_the_index(ctx):
    """An internal "select everything" query of a key-requiring class (TagQuery().noop()) never reaches Index.search: the index answers it from the tag/field maps only (listed finding C01.R3), so the callee must be on its scan path for the constants it is called with."""
    classes = _path_required_classes(ctx)
    if len(classes) < 2:
        raise AnalysisError("C03.R6", f"expected the tag and field query classes to require a path, found {classes}")
    n_sites = 0
    for f in ctx.prog.all_funcs():
        if f.module not in ("database", "measurement"):
            continue
        for c in walk_local(f.node):
            if not isinstance(c, ast.Call):
                continue
            hits = [a for a in list(c.args) + [k.value for k in c.keywords] if _is_keyless_noop(a, classes)]
            if not hits:
                continue
            targets = []
            callee = None
            if isinstance(c.func, ast.Attribute) and is_self_attr(c.func) and f.cls:
                callee = ctx.prog.lookup_method(f.cls, c.func.attr)
            if callee is None:
                for t in targets:
                    callee = t
                    break
            if callee is None:
                continue
            b, _ = bind_args(c, callee)
            consts = {}
            qparam = None
            for p_, a in b.items():
                if a is None:
                    continue
                if _is_keyless_noop(a, classes):
                    qparam = p_
                cv = const_value(a)
                if cv is not NOCONST:
                    consts[p_] = cv
            # follow one level of decorators/wrappers is not needed: the helper is called directly
            searches = [s for s in walk_local(callee.node) if isinstance(s, ast.Call) and call_name(s) == "search"
                        and isinstance(s.func, ast.Attribute) and "_index" in norm(s.func.value)
                        and any(isinstance(x, ast.Name) and x.id == qparam for a_ in s.args for x in ast.walk(a_))]
            n_sites += 1
            if not searches:
                yield Ob("C03.R6", ["C03", "C01", "C10"], f"{f.qual} -> {callee.qual} | keyless noop never searched in the index",
                         True, f"{callee.name} does not hand its query to the index", ctx.prog.loc(c))
            for s in searches:
                unreachable = False
                for g_, pol in guards(s):
                    if hasattr(g_, "stmt"):
                        continue
                    if _truth(g_, consts, callee, not pol):
                        unreachable = True
                yield Ob("C03.R6", ["C03", "C01", "C10"],
                         f"{f.qual} -> {callee.qual} | keyless noop never searched in the index | {norm(s, 60)}{occ(callee, s)}",
                         unreachable,
                         f"unreachable for {consts}" if unreachable else
                         f"`{norm(hits[0])}` reaches `{norm(s, 50)}` when called with {consts}: the index only returns points "
                         f"that carry at least one tag/field, so points without any are silently skipped",
                         ctx.prog.loc(s))
    if n_sites == 0:
        raise AnalysisError("C03.R6", "no internal keyless noop query found (update_all's selection changed shape)")


@rule("C02.R5", ["C02", "C10"], min_instances=1, design="3.2")
def drop_measurement_selects_by_equality(ctx):
    """drop_measurement(name) restricts the removal by the query `MeasurementQuery() == name`; the measurement *filter* argument alone does not (an empty name means "no filter", listed finding C10.R5)."""
    dm = ctx.prog.func("TinyFlux.drop_measurement", "C02.R5")
    name = dm.params()[1]
    calls = [c for c in walk_local(dm.node) if isinstance(c, ast.Call) and is_self_attr(c.func)
             and c.func.attr in ("_remove_helper", "remove")]
    if not calls:
        raise AnalysisError("C02.R5", "drop_measurement does not delegate to the removal helper")
    for c in calls:
        callee = ctx.prog.lookup_method("TinyFlux", c.func.attr)
        b, _ = bind_args(c, callee)
        q = b.get(callee.params()[1])
        if isinstance(q, ast.Name):
            vals = assignments_to(dm, q.id)
            q = vals[0] if len(vals) == 1 else q
        ok = isinstance(q, ast.Compare) and len(q.ops) == 1 and isinstance(q.ops[0], ast.Eq) and (
            (norm(q.left) == "MeasurementQuery()" and norm(q.comparators[0]) == name)
            or (norm(q.comparators[0]) == "MeasurementQuery()" and norm(q.left) == name))
        yield Ob("C02.R5", ["C02", "C10"], f"{dm.qual} | removal restricted by an equality query on the name", ok,
                 f"query is `{norm(q)}`" if ok else
                 f"query is `{norm(q) if q is not None else '?'}`: only the measurement filter restricts the removal, and the "
                 f"filter ignores an empty name -- drop_measurement('') removes every point", ctx.prog.loc(c))


@rule("C02.R6", ["C02", "C04", "C07", "C06", "C11", "C13"], min_instances=5, design="3.2")
def reset_clears_everything_unconditionally(ctx):
    """_reset_database (remove_all, and the "every row matches" shortcut of remove) resets storage, forgets measurements and resets-or-invalidates the index on every path."""
    rd = ctx.prog.func("TinyFlux._reset_database", "C02.R6")
    g = ctx.cfg(rd, exceptional=False)

    def has(pred):
        return lambda n: any(pred(c) for c in n.calls())
    wants = [
        ("storage reset", lambda c: call_name(c) == "reset" and "_storage" in norm(c.func)),
        ("measurement handles forgotten", lambda c: call_name(c) == "clear" and "_measurements" in norm(c.func)),
        ("index reset or invalidated", lambda c: call_name(c) in ("_reset", "invalidate", "build") and "_index" in norm(c.func)),
    ]
    # order: storage is emptied first -- if that fails, the index and the handle table still describe
    # the (unchanged) storage
    sres = [n for n in g.stmt_nodes() if has(wants[0][1])(n)]
    for label, pred in wants[1:]:
        later = [n for n in g.stmt_nodes() if has(pred)(n)]
        sids = {n.id for n in sres}
        ok = bool(sres) and bool(later) and not any(sids & g.reachable([n.id]) for n in later)
        yield Ob("C02.R6", ["C11", "C13", "C06"], f"{rd.qual} | storage reset precedes: {label}", ok,
                 "never followed by the storage reset" if ok else
                 f"{label} can happen before storage.reset(): if the reset then fails, the call raised, the rows are all "
                 f"still stored, and a valid empty index answers for them", rd.loc())
    for label, pred in wants:
        ok = g.postdominated(g.entry, has(pred), [g.exit])
        yield Ob("C02.R6", ["C02", "C04", "C07", "C06"], f"{rd.qual} | {label} on every path", ok,
                 "post-dominates the entry" if ok else
                 f"a path through {rd.name} skips it: remove_all() can return with the old rows still in storage / the old "
                 f"index still live", rd.loc())


MEMO = ("lru_cache", "cache", "cached_property", "memoize", "memoized")


@rule("C09.R6", ["C09", "C17", "C01", "C05", "C03", "C11", "C04"], min_instances=4, design="3.9")
def evaluation_and_decoding_are_stateless(ctx):
    """Evaluating a query writes no state (its verdict is a function of the point alone), nothing in the package memoises results, and every decode builds a fresh Point."""
    # (a) query evaluation writes nothing
    for cls in ("SimpleQuery", "CompoundQuery"):
        f = ctx.prog.func(f"{cls}.__call__", "C09.R6")
        writes = [n for n in walk_local(f.node) if isinstance(n, (ast.Assign, ast.AugAssign, ast.AnnAssign))
                  for t in (n.targets if isinstance(n, ast.Assign) else [n.target])
                  for x in ast.walk(t) if isinstance(x, ast.Attribute) and isinstance(x.ctx, ast.Store)]
        writes += [n for n in walk_local(f.node) if isinstance(n, (ast.Global, ast.Nonlocal))]
        muts = [n for n in walk_local(f.node) if isinstance(n, ast.Call) and isinstance(n.func, ast.Attribute)
                and is_self_attr(n.func.value) and n.func.attr in ("append", "add", "update", "setdefault", "pop", "clear", "__setitem__")]
        bad = writes + muts
        yield Ob("C09.R6", ["C09", "C17", "C01"], f"{f.qual} | evaluation writes no state", not bad,
                 "no attribute, global or container write" if not bad else
                 f"`{norm(bad[0], 60)}`: the verdict of a later evaluation depends on what this query evaluated before, so "
                 f"equal queries can disagree on the same point", f.loc())
    gen = ctx.prog.func("BaseQuery._generate_simple_query", "C09.R6")
    for g in ctx.prog.nested(gen):
        bad = [n for n in walk_local(g.node) if isinstance(n, (ast.Global, ast.Nonlocal))]
        bad += [n for n in walk_local(g.node) if isinstance(n, (ast.Assign, ast.AugAssign))
                for t in (n.targets if isinstance(n, ast.Assign) else [n.target])
                for x in ast.walk(t) if isinstance(x, ast.Attribute) and isinstance(x.ctx, ast.Store)]
        yield Ob("C09.R6", ["C09", "C17", "C01"], f"{g.qual} | evaluation writes no state", not bad,
                 "pure closure" if not bad else f"`{norm(bad[0], 60)}` keeps state between evaluations", g.loc())
    # (b) no memoisation anywhere in the package
    memo = []
    n_funcs = 0
    for f in ctx.prog.all_funcs():
        n_funcs += 1
        for d in getattr(f.node, "decorator_list", []):
            dn = d.func if isinstance(d, ast.Call) else d
            nm = dn.attr if isinstance(dn, ast.Attribute) else (dn.id if isinstance(dn, ast.Name) else "")
            if nm in MEMO:
                memo.append((f, d))
    yield Ob("C09.R6", ["C05", "C01", "C03", "C11", "C09", "C04"], "package | no memoised function", not memo,
             f"{n_funcs} functions, none decorated with a result cache" if not memo else
             f"{memo[0][0].qual} is decorated with `{norm(memo[0][1])}`: callers share one mutable result object per argument "
             f"(a decoded Point edited by update() is handed out again by the next read)",
             memo[0][0].loc() if memo else "tinyflux/:0")
    # (c) CSV decoding constructs a new Point per call
    from .storage_io import csv_cls
    cls = csv_cls(ctx)
    de = ctx.prog.func(f"{cls}._deserialize_storage_item", "C09.R6")
    rets = [r for r in walk_local(de.node) if isinstance(r, ast.Return) and r.value is not None]
    fresh = bool(rets)
    for r in rets:
        v = r.value
        if isinstance(v, ast.Name):
            vals = assignments_to(de, v.id)
            v = vals[0] if len(vals) == 1 else v
        ctor = [c for c in ast.walk(v) if isinstance(c, ast.Call) and isinstance(c.func, ast.Name) and c.func.id == "Point"
                and not c.args and not c.keywords]
        if not ctor:
            fresh = False
    yield Ob("C09.R6", ["C05", "C03", "C11", "C01", "C04"], f"{de.qual} | every decode builds a new Point", fresh,
             "returns Point()._deserialize_from_list(row)" if fresh else
             "the decoded object does not come from a Point() constructed in this call: reads may share one mutable object",
             de.loc())
