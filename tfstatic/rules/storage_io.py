"""CSV storage disciplines: handle configuration agreement, flush-before-copy,
append position, reopen mode, tokenizer agreement, atomic publication,
temporary-store pairing, insert effect containment
(C04, C07.R1, C12, C15.R3, C16)."""

from __future__ import annotations

import ast
from typing import Dict, List, Optional, Set, Tuple

from ..astq import assignments_to, call_name, kw, names_in, occ, stmt_of, in_subtree
from ..effects import TEMPFILE_CTORS, Roles, chain_str, names
from ..logic import guard_clauses, guards
from ..model import (NOCONST, AnalysisError, Func, ancestors, const_value, first_line, is_self_attr, norm, walk_local,
                     parent)
from ..report import Ob, rule


def csv_cls(ctx) -> str:
    for c, r in ctx.eff.roles.items():
        if r.primary_handles:
            return c
    raise AnalysisError("storage", "no storage class with a primary file handle found")


def mem_cls(ctx) -> str:
    for c, r in ctx.eff.roles.items():
        if r.primary_mem:
            return c
    raise AnalysisError("storage", "no storage class with a primary memory list found")


def ctor_param_of(ctx, cls: str, e: ast.AST, f: Func) -> Optional[str]:
    """Constructor parameter a keyword value resolves to (directly or via self._x = param)."""
    init = ctx.prog.classes[cls].methods.get("__init__")
    if init is None:
        return None
    if isinstance(e, ast.Name) and f is init and e.id in init.params():
        return e.id
    if is_self_attr(e):
        for n in walk_local(init.node):
            if isinstance(n, ast.Assign) and any(is_self_attr(t, e.attr) for t in n.targets) \
                    and isinstance(n.value, ast.Name) and n.value.id in init.params():
                return n.value.id
    return None


def handle_ctors(ctx, cls: str) -> List[Tuple[Func, ast.Call, str]]:
    roles: Roles = ctx.eff.roles[cls]
    out = []
    for f in ctx.prog.methods_of(cls):
        for n in walk_local(f.node):
            if isinstance(n, ast.Call):
                nm = call_name(n)
                if nm == "open" and isinstance(n.func, ast.Name) and n.args:
                    a0 = n.args[0]
                    if (isinstance(a0, ast.Name) and a0.id in roles.path_params) or (
                            is_self_attr(a0) and a0.attr in roles.primary_paths):
                        # only handles that are kept (assigned to self.X), not create_file's probe
                        st = stmt_of(n)
                        if isinstance(st, ast.Assign) and any(is_self_attr(t) for t in st.targets):
                            out.append((f, n, "PRIMARY"))
                elif nm in TEMPFILE_CTORS:
                    out.append((f, n, "TEMP"))
    return out


@rule("C04.R1", ["C04", "C05", "C01", "C02", "C03", "C06", "C07", "C12"], min_instances=2, design="3.4")
def handle_configuration_agreement(ctx):
    """Every text handle whose bytes end up in the primary file is opened with the storage's encoding and newline."""
    cls = csv_cls(ctx)
    for f, c, role in handle_ctors(ctx, cls):
        bad = []
        for opt in ("encoding", "newline"):
            v = kw(c, opt)
            if v is None:
                bad.append(f"{opt} not passed (platform default / universal newlines instead of the storage's {opt})")
                continue
            p_ = ctor_param_of(ctx, cls, v, f)
            if p_ != opt:
                bad.append(f"{opt}={norm(v)} does not resolve to the constructor's `{opt}` parameter")
        yield Ob("C04.R1", ["C04", "C05", "C01", "C02", "C03", "C06", "C07", "C12"], f"{f.qual} | {role} handle configuration | {call_name(c)}(...)", not bad,
                 "; ".join(bad) if bad else "encoding and newline are the constructor's", ctx.prog.loc(c))


@rule("C04.R2", ["C04", "C05", "C02", "C03"], min_instances=3, design="3.4")
def dialect_agreement(ctx):
    """Every csv.reader / csv.writer is built on a storage handle with the storage's dialect kwargs."""
    cls = csv_cls(ctx)
    roles = ctx.eff.roles[cls]
    for f in ctx.prog.methods_of(cls):
        for n in walk_local(f.node):
            if isinstance(n, ast.Call) and norm(n.func) in ("csv.reader", "csv.writer", "csv.DictReader", "csv.DictWriter"):
                env = ctx.eff._role_env(f, list(walk_local(f.node)))
                r = ctx.eff.expr_roles(n.args[0], roles, env) if n.args else set()
                bad = []
                if not (r & {"PRIMARY", "TEMP"}):
                    bad.append(f"built on `{norm(n.args[0]) if n.args else '?'}`, not a storage handle")
                star = [k for k in n.keywords if k.arg is None]
                if not (len(star) == 1 and is_self_attr(star[0].value) and len(n.keywords) == 1):
                    bad.append("does not pass exactly the storage's **kwargs dialect options")
                else:
                    kattr = star[0].value.attr
                    init = ctx.prog.classes[cls].methods["__init__"]
                    okk = any(isinstance(x, ast.Assign) and any(is_self_attr(t, kattr) for t in x.targets)
                              and isinstance(x.value, ast.Name) and init.node.args.kwarg is not None
                              and x.value.id == init.node.args.kwarg.arg for x in walk_local(init.node))
                    if not okk:
                        bad.append(f"self.{kattr} is not the constructor's **kwargs")
                yield Ob("C04.R2", ["C04", "C05"], f"{f.qual} | {norm(n.func)} dialect | {norm(n, 70)}", not bad,
                         "; ".join(bad) if bad else "storage handle + storage dialect", ctx.prog.loc(n))
            # rows reach a storage file only through a csv writer (quoting/escaping) and are read only
            # through a csv reader: raw text I/O on a storage handle bypasses the dialect
            if isinstance(n, ast.Call) and isinstance(n.func, ast.Attribute) \
                    and n.func.attr in ("write", "writelines", "read", "readline", "readlines"):
                env = ctx.eff._role_env(f, list(walk_local(f.node)))
                r = ctx.eff.expr_roles(n.func.value, roles, env)
                if r & {"PRIMARY", "TEMP"}:
                    yield Ob("C04.R2", ["C04", "C05", "C02", "C03"], f"{f.qual} | raw text I/O on a storage handle | {norm(n, 70)}{occ(f, n)}",
                             False, f"`{norm(n, 60)}` moves row text without the csv dialect: delimiters, quotes and line "
                             f"breaks inside values are not escaped / record boundaries are not csv's", ctx.prog.loc(n))
            if isinstance(n, ast.Call) and isinstance(n.func, ast.Name) and n.func.id == "print":
                fk = kw(n, "file")
                if fk is not None:
                    env = ctx.eff._role_env(f, list(walk_local(f.node)))
                    if ctx.eff.expr_roles(fk, roles, env) & {"PRIMARY", "TEMP"}:
                        yield Ob("C04.R2", ["C04", "C05", "C02", "C03"], f"{f.qual} | raw text I/O on a storage handle | {norm(n, 70)}{occ(f, n)}",
                                 False, "print() into a storage handle bypasses the csv dialect", ctx.prog.loc(n))


def _node_effects(ctx, g, f: Func, storage: Optional[str]) -> Dict[int, Set[str]]:
    """Primitive + transitive effect names per CFG node of f."""
    cls = ctx.res.self_class(f)
    roles = ctx.eff.roles.get(cls) if cls else None
    live = list(walk_local(f.node))
    env = ctx.eff._role_env(f, live)
    out: Dict[int, Set[str]] = {}
    for nd in g.stmt_nodes():
        es: Set[str] = set()
        for x in nd.walk():
            if isinstance(x, ast.Call):
                es |= set(ctx.eff.primitive(x, f, roles, env))
            if isinstance(x, (ast.Call, ast.For, ast.comprehension, ast.Attribute, ast.BinOp, ast.Compare)):
                for tg, c2, ch2 in ctx.eff.call_targets(x, f, (), storage):
                    if tg.cls == "Index" and f.cls != "Index":
                        es.add(f"INDEX.{tg.name}")
                    es |= names(ctx.eff.summary(tg, c2, ch2, storage))
            if isinstance(x, ast.comprehension) or isinstance(x, ast.For):
                rs = ctx.eff.expr_roles(x.iter, roles, env)
                for R in rs:
                    if R in ("PRIMARY", "TEMP"):
                        es.add(f"{R}.read")
        if nd.kind == "iter":
            rs = ctx.eff.expr_roles(nd.ast.iter, roles, env)
            for R in rs:
                if R in ("PRIMARY", "TEMP"):
                    es.add(f"{R}.read")
        out[nd.id] = es
    return out


@rule("C04.R3", ["C04", "C01", "C02", "C03", "C06"], min_instances=1, design="3.4")
def flush_before_publication(ctx):
    """The temporary handle is flushed or closed on every path before its file is copied/renamed over the primary."""
    cls = csv_cls(ctx)
    f = ctx.prog.func(f"{cls}._swap_temp_with_primary", "C04.R3")
    g = ctx.cfg(f, exceptional=False)
    ne = _node_effects(ctx, g, f, cls)
    pubs = [i for i, es in ne.items() if any(e.startswith("FS.copy(TEMP_PATH") or e.startswith("FS.replace(TEMP_PATH")
                                            for e in es)]
    if not pubs:
        handle_level = [i for i, es in ne.items() if any(e.startswith("FS.copy(TEMP->") for e in es)]
        if handle_level:
            yield Ob("C04.R3", ["C04", "C01", "C02", "C03", "C06"], f"{f.qual} | staged rows flushed before publication | "
                     f"handle-level copy", True, "the temporary handle itself is read (its buffer is flushed by the seek)",
                     f.loc(), nontrivial=False)
            return
        raise AnalysisError("C04.R3", "no publication of the temporary file found in _swap_temp_with_primary")
    # alternatively every TEMP.write in append is followed by an unconditional TEMP.flush
    ap = ctx.prog.func(f"{cls}.append", "C04.R3")
    ga = ctx.cfg(ap, exceptional=False)
    nea = _node_effects_const(ctx, ga, ap, cls, {"temporary": True})
    writes = [i for i, es in nea.items() if "TEMP.write" in es]
    always_flushed = bool(writes) and all(
        ga.postdominated(i, lambda x: "TEMP.flush" in nea.get(x.id, set()), [ga.exit]) for i in writes)
    for pnode in pubs:
        ok = always_flushed or g.dominated(pnode, lambda x: bool({"TEMP.flush", "TEMP.close"} & ne.get(x.id, set())))
        yield Ob("C04.R3", ["C04", "C01", "C02", "C03", "C06"], f"{f.qual} | staged rows flushed before publication | "
                 f"{norm(g.nodes[pnode].ast, 70)}", ok,
                 "temporary handle is flushed/closed before its file is published" if ok else
                 "rows staged in the temporary handle's buffer are not flushed before the file is copied "
                 "(append flushes only under flush_on_insert)", ctx.prog.loc(g.nodes[pnode].ast))


@rule("C11.R8", ["C11", "C13"], min_instances=1, design="3.11")
def fallible_preparation_precedes_close(ctx):
    """In the swap, every step on the temporary handle that can fail on its own (flushing the staged rows: ENOSPC/EFBIG/EIO) happens while the primary handle is still open: a failure there must leave the storage object usable with its old contents."""
    cls = csv_cls(ctx)
    f = ctx.prog.func(f"{cls}._swap_temp_with_primary", "C11.R8")
    g = ctx.cfg(f, exceptional=False)
    ne = _node_effects(ctx, g, f, cls)
    closes = [i for i, es in ne.items() if "PRIMARY.close" in es]
    flushes = [i for i, es in ne.items() if "TEMP.flush" in es]
    if not closes:
        yield Ob("C11.R8", ["C11", "C13"], f"{f.qual} | temp flush precedes closing the primary", True,
                 "the swap does not close the primary handle", f.loc(), nontrivial=False)
        return
    after = g.reachable(closes)
    late = [i for i in flushes if i in after]
    yield Ob("C11.R8", ["C11", "C13"], f"{f.qual} | temp flush precedes closing the primary", not late,
             "staged rows are flushed before the primary handle is closed" if not late else
             f"`{norm(g.nodes[late[0]].ast, 50)}` runs after the primary handle was closed: when it fails (disk full) the file still "
             f"holds the old contents but the storage has no open handle, so every later call fails", 
             ctx.prog.loc(g.nodes[late[0]].ast) if late else f.loc())


def _node_effects_const(ctx, g, f: Func, storage: str, consts: Dict[str, object]) -> Dict[int, Set[str]]:
    """Per-node primitive effects with roles specialised on constant parameters."""
    from ..effects import live_nodes
    cls = ctx.res.self_class(f)
    roles = ctx.eff.roles.get(cls) if cls else None
    live = live_nodes(f.body, consts)
    env = ctx.eff._role_env(f, live, consts)
    live_ids = {id(x) for x in live}
    out: Dict[int, Set[str]] = {}
    for nd in g.stmt_nodes():
        es: Set[str] = set()
        for x in nd.walk():
            if id(x) not in live_ids:
                continue
            if isinstance(x, ast.Call):
                es |= set(ctx.eff.primitive(x, f, roles, env))
        out[nd.id] = es
    return out


@rule("C04.R4", ["C04", "C16", "C12", "C07", "C11", "C01", "C06"], min_instances=2, design="3.4")
def appends_land_at_eof(ctx):
    """In CSVStorage.append, seek(0, SEEK_END) on the chosen handle dominates every write and the truncate."""
    cls = csv_cls(ctx)
    f = ctx.prog.func(f"{cls}.append", "C04.R4")
    g = ctx.cfg(f, exceptional=False)
    for temporary, H in ((False, "PRIMARY"), (True, "TEMP")):
        ne = _node_effects_const(ctx, g, f, cls, {"temporary": temporary})
        writes = [i for i, es in ne.items() if f"{H}.write" in es or f"{H}.truncate" in es]
        if not writes:
            raise AnalysisError("C04.R4", f"no {H} write in append(temporary={temporary})")
        bad = []
        for w in writes:
            if not g.dominated(w, lambda x: f"{H}.seek_end" in ne.get(x.id, set())):
                bad.append(f"`{norm(g.nodes[w].ast, 50)}` is not dominated by seek(0, SEEK_END)")
            # no other seek between the seek_end and the write
            seeks = [i for i, es in ne.items() if f"{H}.seek_end" in es]
            other = [i for i, es in ne.items() if f"{H}.seek0" in es or f"{H}.seek" in es or f"{H}.read" in es]
            for o in other:
                if any(o in g.reachable([s]) for s in seeks) and w in g.reachable([o]):
                    bad.append(f"`{norm(g.nodes[o].ast, 40)}` moves the position between the seek to EOF and the write")
        wrong = [i for i, es in ne.items() if any(e.endswith(".write") and not e.startswith(H) for e in es)]
        for w in wrong:
            bad.append(f"append(temporary={temporary}) writes `{norm(g.nodes[w].ast, 40)}` to the other handle")
        yield Ob("C04.R4", ["C04", "C16", "C12", "C07", "C11", "C01", "C06"] if not temporary else ["C04"],
                 f"{f.qual} | temporary={temporary} | writes at end of file", not bad,
                 "; ".join(bad[:3]) if bad else f"seek to EOF dominates {len(writes)} write/truncate node(s) on {H}",
                 f.loc())


def _eval_mode(e: ast.AST, m: str, mode_attr: str, f: Optional[Func] = None, depth: int = 0):
    """Evaluate a mode expression for self.<mode_attr> == m (tiny string evaluator)."""
    if isinstance(e, ast.Constant):
        return e.value
    if isinstance(e, ast.Name) and f is not None and depth < 4:
        vals = assignments_to(f, e.id)
        if len(vals) == 1:
            return _eval_mode(vals[0], m, mode_attr, f, depth + 1)
        return NOCONST
    if is_self_attr(e, mode_attr):
        return m
    if isinstance(e, ast.IfExp):
        t = _eval_mode(e.test, m, mode_attr, f, depth)
        if t is NOCONST:
            return NOCONST
        return _eval_mode(e.body if t else e.orelse, m, mode_attr, f, depth)
    if isinstance(e, ast.Compare) and len(e.ops) == 1:
        l = _eval_mode(e.left, m, mode_attr, f, depth)
        r = _eval_mode(e.comparators[0], m, mode_attr, f, depth)
        if l is NOCONST or r is NOCONST:
            return NOCONST
        op = e.ops[0]
        try:
            if isinstance(op, ast.Eq):
                return l == r
            if isinstance(op, ast.NotEq):
                return l != r
            if isinstance(op, ast.In):
                return l in r
            if isinstance(op, ast.NotIn):
                return l not in r
        except Exception:
            return NOCONST
    if isinstance(e, (ast.Tuple, ast.List, ast.Set)):
        vs = [_eval_mode(x, m, mode_attr, f, depth) for x in e.elts]
        return NOCONST if any(v is NOCONST for v in vs) else tuple(vs)
    if isinstance(e, ast.BoolOp):
        vs = [_eval_mode(x, m, mode_attr, f, depth) for x in e.values]
        if any(v is NOCONST for v in vs):
            return NOCONST
        return all(vs) if isinstance(e.op, ast.And) else any(vs)
    if isinstance(e, ast.UnaryOp) and isinstance(e.op, ast.Not):
        v = _eval_mode(e.operand, m, mode_attr, f, depth)
        return NOCONST if v is NOCONST else (not v)
    if isinstance(e, ast.Call) and isinstance(e.func, ast.Attribute):
        recv = _eval_mode(e.func.value, m, mode_attr, f, depth)
        args = [_eval_mode(a, m, mode_attr, f, depth) for a in e.args]
        if recv is NOCONST or any(a is NOCONST for a in args) or not isinstance(recv, str):
            return NOCONST
        if e.func.attr in ("startswith", "endswith", "replace", "strip", "lstrip", "rstrip") and not e.keywords:
            try:
                return getattr(recv, e.func.attr)(*args)
            except Exception:
                return NOCONST
    return NOCONST


def mode_table(ctx, cls: str, prop: str) -> Tuple[str, Set[str]]:
    """(mode attribute, literal modes admitted by can_<prop>)."""
    f = ctx.prog.classes[cls].methods.get(prop)
    if f is None:
        raise AnalysisError("modes", f"{cls}.{prop} not found")
    for n in walk_local(f.node):
        if isinstance(n, ast.Compare) and isinstance(n.ops[0], (ast.NotIn, ast.In)) and is_self_attr(n.left):
            v = const_value(n.comparators[0])
            if v is not NOCONST:
                raises = any(isinstance(x, ast.Raise) for x in walk_local(f.node))
                if not raises:
                    raise AnalysisError("modes", f"{cls}.{prop} never raises")
                return n.left.attr, set(v)
    # self._helper(("r+", "w", ...)) where the helper tests `self._mode not in <param>` and raises
    for n in walk_local(f.node):
        if isinstance(n, ast.Call) and isinstance(n.func, ast.Attribute) and is_self_attr(n.func) and n.args:
            h = ctx.prog.lookup_method(cls, n.func.attr)
            v = const_value(n.args[0])
            if h is None or v is NOCONST or len(h.params()) < 2:
                continue
            hp = h.params()[1]
            for c in walk_local(h.node):
                if isinstance(c, ast.Compare) and isinstance(c.ops[0], (ast.NotIn, ast.In)) and is_self_attr(c.left) \
                        and isinstance(c.comparators[0], ast.Name) and c.comparators[0].id == hp \
                        and any(isinstance(x, ast.Raise) for x in walk_local(h.node)):
                    return c.left.attr, set(v)
    raise AnalysisError("modes", f"{cls}.{prop}: literal mode table not found")


def _valid_text_mode(v: str) -> bool:
    """open() accepts exactly one of r/w/a/x, at most one '+', and 't' (text); no other characters, none twice."""
    if len(set(v)) != len(v) or set(v) - set("rwax+t"):
        return False
    return sum(ch in v for ch in "rwax") == 1


@rule("C04.R5", ["C04", "C12", "C13", "C01", "C02", "C03", "C06", "C16"], min_instances=1, design="3.4")
def reopen_does_not_truncate(ctx):
    """The primary file is never reopened in a truncating mode after new contents were published."""
    cls = csv_cls(ctx)
    f = ctx.prog.func(f"{cls}._swap_temp_with_primary", "C04.R5")
    mode_attr, wmodes = mode_table(ctx, cls, "can_write")
    n_open = 0
    sites = [(f, n) for n in walk_local(f.node)]
    # any other method (except the constructor) that opens the primary path is a reopen as well
    roles = ctx.eff.roles[cls]
    for g_ in ctx.prog.methods_of(cls):
        if g_ is f or g_.name == "__init__":
            continue
        env_ = ctx.eff._role_env(g_, list(walk_local(g_.node)))
        for n in walk_local(g_.node):
            if isinstance(n, ast.Call) and isinstance(n.func, ast.Name) and n.func.id == "open" and n.args \
                    and "PRIMARY_PATH" in ctx.eff.expr_roles(n.args[0], roles, env_):
                sites.append((g_, n))
    for f, n in sites:
        if isinstance(n, ast.Call) and isinstance(n.func, ast.Name) and n.func.id == "open":
            n_open += 1
            me = kw(n, "mode") or (n.args[1] if len(n.args) > 1 else None)
            bad = []
            # the handle that becomes the primary handle again is opened on the primary path
            st_ = stmt_of(n)
            if isinstance(st_, ast.Assign) and st_.value is n and n.args:
                env_f = ctx.eff._role_env(f, list(walk_local(f.node)))
                tr = set()
                for t_ in st_.targets:
                    tr |= set(ctx.eff.expr_roles(t_, roles, env_f))
                pr = set(ctx.eff.expr_roles(n.args[0], roles, env_f))
                if "PRIMARY" in tr and "PRIMARY_PATH" not in pr:
                    bad.append(f"the primary handle is reopened on `{norm(n.args[0], 40)}` ({sorted(pr) or 'not the primary path'}): later "
                               f"appends go to another file and are lost when it is removed")
            if me is None:
                bad.append("reopened read-only (default mode): the storage can no longer be written")
            else:
                for m in sorted(wmodes):
                    v = _eval_mode(me, m, mode_attr, f)
                    if v is NOCONST:
                        raise AnalysisError("C04.R5", f"cannot evaluate reopen mode `{norm(me)}` for access mode {m!r}")
                    if isinstance(v, str) and v.startswith("w"):
                        bad.append(f"access_mode={m!r}: reopen mode is {v!r}, which truncates the contents just "
                                   f"published")
                    elif isinstance(v, str) and ("+" not in v and not v.startswith("a")) and m != v:
                        bad.append(f"access_mode={m!r}: reopen mode {v!r} is not writable")
                    elif isinstance(v, str) and not _valid_text_mode(v):
                        bad.append(f"access_mode={m!r}: reopen mode {v!r} is not a mode open() accepts: the swap publishes the "
                                   f"new contents and then fails, leaving the storage without a handle")
            yield Ob("C04.R5", ["C04", "C12", "C13", "C01", "C02", "C03", "C06", "C16"], f"{f.qual} | reopen mode | {norm(n, 80)}", not bad,
                     "; ".join(bad) if bad else f"no write-capable access mode {sorted(wmodes)} reopens with truncation",
                     ctx.prog.loc(n))
    if not n_open:
        yield Ob("C04.R5", ["C04", "C12", "C13", "C01", "C02", "C03", "C06"], f"{f.qual} | reopen mode | none", True,
                 "the primary file is not reopened by the swap", f.loc(), nontrivial=False)


@rule("C04.R6", ["C04"], min_instances=2, design="3.4")
def close_reaches_handle_close(ctx):
    """TinyFlux.close / __exit__ reach close() of the primary handle (buffered appends are written when the database is closed)."""
    cls = csv_cls(ctx)
    for q in ("TinyFlux.close", "TinyFlux.__exit__"):
        f = ctx.prog.func(q, "C04.R6")
        es = ctx.eff.api_summary(f, cls)
        ok = "PRIMARY.close" in names(es)
        ch = [c for e, c in es if e == "PRIMARY.close"]
        yield Ob("C04.R6", ["C04"], f"{q} | reaches PRIMARY.close", ok,
                 f"via {chain_str(ch[0])}" if ok else "primary handle is never closed on this path", f.loc())


@rule("C07.R1", ["C07", "C04"], min_instances=2, design="3.7")
def one_tokenizer(ctx):
    """Every consumer of the primary handle's content goes through the same csv row tokenizer."""
    cls = csv_cls(ctx)
    roles = ctx.eff.roles[cls]
    for f in ctx.prog.methods_of(cls):
        live = list(walk_local(f.node))
        env = ctx.eff._role_env(f, live)
        for n in live:
            raw = None
            if isinstance(n, (ast.For, ast.comprehension)):
                if "PRIMARY" in ctx.eff.expr_roles(n.iter, roles, env):
                    raw = n.iter
            elif isinstance(n, ast.Call) and isinstance(n.func, ast.Attribute) \
                    and n.func.attr in ("read", "readline", "readlines") \
                    and "PRIMARY" in ctx.eff.expr_roles(n.func.value, roles, env):
                raw = n
            elif isinstance(n, ast.Call) and isinstance(n.func, ast.Name) and n.func.id in ("list", "sum", "len", "next",
                                                                                           "enumerate", "sorted") \
                    and n.args and "PRIMARY" in ctx.eff.expr_roles(n.args[0], roles, env):
                raw = n
            if raw is not None:
                yield Ob("C07.R1", ["C07"], f"{f.qual} | raw consumption of the primary handle | {norm(raw, 60)}",
                         False, "counts/reads physical lines of the file, not csv rows: a quoted value containing a "
                                "line break makes the two differ", ctx.prog.loc(raw if hasattr(raw, 'lineno') else n))
            if isinstance(n, ast.Call) and norm(n.func) == "csv.reader" and n.args \
                    and "PRIMARY" in ctx.eff.expr_roles(n.args[0], roles, env):
                yield Ob("C07.R1", ["C07", "C04"], f"{f.qual} | csv tokenizer on the primary handle", True,
                         "rows come from csv.reader", ctx.prog.loc(n))
        # iteration over self -> __iter__
        for n in live:
            it = None
            if isinstance(n, (ast.For, ast.comprehension)):
                it = n.iter
            if it is not None and (norm(it) in ("self", "iter(self)")):
                yield Ob("C07.R1", ["C07", "C04"], f"{f.qual} | iterates self (csv tokenizer)", True,
                         "rows come from __iter__", ctx.prog.loc(it))
    ln = ctx.prog.classes[cls].methods.get("__len__")
    if ln is None:
        raise AnalysisError("C07.R1", f"{cls}.__len__ not found")


# ---------------------------------------------------------------------- C12
def _is_sibling_of_primary(ctx, e: ast.AST, f, roles, env) -> bool:
    """`f"{self._path}.swap"` / `self._path + ".new"`: the primary path followed by a separator-free suffix."""
    if isinstance(e, ast.Name):
        vals = assignments_to(f, e.id)
        if len(vals) != 1:
            return False
        e = vals[0]
    head, tail = None, []
    if isinstance(e, ast.JoinedStr) and e.values:
        first = e.values[0]
        if isinstance(first, ast.FormattedValue):
            head, tail = first.value, e.values[1:]
    elif isinstance(e, ast.BinOp) and isinstance(e.op, ast.Add):
        head, tail = e.left, [e.right]
    if head is None or "PRIMARY_PATH" not in ctx.eff.expr_roles(head, roles, env):
        return False
    for t in tail:
        v = const_value(t)
        if not isinstance(v, str) or "/" in v or "\\" in v or not v:
            return False
    return bool(tail)


@rule("C15.R4", ["C15"], min_instances=1, design="3.15")
def no_third_file(ctx):
    """Every file the storage creates is the primary, the tracked temporary file, or a staging file that is unlinked on every failing exit of the function that creates it."""
    cls = csv_cls(ctx)
    n = 0
    for f in ctx.prog.methods_of(cls):
        cls_ = ctx.res.self_class(f)
        roles = ctx.eff.roles.get(cls_)
        env = ctx.eff._role_env(f, list(walk_local(f.node)))
        for c in walk_local(f.node):
            if not isinstance(c, ast.Call):
                continue
            for e in ctx.eff.primitive(c, f, roles, env):
                creates = None
                if e.startswith("FS.copy(") or e.startswith("FS.replace("):
                    dst = e[e.index("->") + 2:-1]
                    n += 1
                    if dst in ("PRIMARY_PATH", "PRIMARY", "TEMP_PATH", "TEMP"):
                        yield Ob("C15.R4", ["C15"], f"{f.qual} | file created | {norm(c, 70)}{occ(f, c)}", True,
                                 f"destination is the {dst.split('_')[0].lower()} file", ctx.prog.loc(c))
                        continue
                    if len(c.args) > 1 and _is_sibling_of_primary(ctx, c.args[1], f, roles, env) and dst in ("PRIMARY_PATH", "?"):
                        creates = c.args[1]
                    elif len(c.args) > 1:
                        creates = c.args[1]
                elif e.startswith("FS.open(") and e[len("FS.open("):-1].strip("'\"")[:1] in ("w", "a", "x"):
                    n += 1
                    creates = c.args[0] if c.args else None
                if creates is None:
                    continue
                # a third file: it must be removed on every exceptional exit of this function
                nm = norm(creates)
                released = False
                for t in ancestors(c):
                    if isinstance(t, ast.Try):
                        for blk in [t.finalbody] + [h.body for h in t.handlers if h.type is None or norm(h.type) in
                                                    ("BaseException", "Exception", "OSError")]:
                            for x in blk:
                                for y in ast.walk(x):
                                    if isinstance(y, ast.Call) and call_name(y) in ("remove", "unlink") and y.args \
                                            and norm(y.args[0]) == nm:
                                        released = True
                yield Ob("C15.R4", ["C15"], f"{f.qual} | file created | {norm(c, 70)}{occ(f, c)}", released,
                         f"staging file `{nm}` is unlinked by the enclosing handler/finally" if released else
                         f"`{norm(c, 60)}` creates `{nm}`, which neither the temporary-store cleanup nor this function removes "
                         f"when a later step fails: a stray file is left beside the database", ctx.prog.loc(c))
    if n == 0:
        raise AnalysisError("C15.R4", "no file-creating call found in the CSV storage (swap changed shape?)")


@rule("C12.R1", ["C12", "C13", "C11", "C04", "C02"], min_instances=1, design="3.12")
def atomic_publication(ctx):
    """New contents replace the primary file only by an atomic rename, never by copy-onto or open-for-truncation."""
    cls = csv_cls(ctx)
    n = 0
    for f in ctx.prog.methods_of(cls):
        g = ctx.cfg(f, exceptional=False)
        cls_ = ctx.res.self_class(f)
        roles = ctx.eff.roles.get(cls_)
        env = ctx.eff._role_env(f, list(walk_local(f.node)))
        for c in walk_local(f.node):
            if not isinstance(c, ast.Call):
                continue
            for e in ctx.eff.primitive(c, f, roles, env):
                if e.startswith("FS.copy(") and (e.endswith("->PRIMARY_PATH)") or e.endswith("->PRIMARY)")):
                    n += 1
                    yield Ob("C12.R1", ["C12", "C13"], f"{f.qual} | publication | copy onto the primary file", False,
                             f"`{norm(c, 60)}` copies onto the primary path: the destination is truncated first and filled "
                             "afterwards, so a crash or I/O error in between leaves neither the old nor the new "
                             "contents", ctx.prog.loc(c))
                elif e.startswith("FS.replace(") and e.endswith("->PRIMARY_PATH)"):
                    n += 1
                    # the temp file must live next to the primary (same file system)
                    okdir = False
                    for f2, c2, role in handle_ctors(ctx, cls):
                        if role == "TEMP" and kw(c2, "dir") is not None and "dirname" in norm(kw(c2, "dir")):
                            okdir = True
                    if c.args and _is_sibling_of_primary(ctx, c.args[0], f, roles, env):
                        okdir = True  # staged next to the primary: `<primary path><suffix>`
                    yield Ob("C12.R1", ["C12", "C13", "C11"], f"{f.qual} | publication | rename over the primary file", okdir,
                             "atomic rename from a temporary file in the primary's directory" if okdir else
                             "rename from a temporary file that is not created in the primary's directory "
                             "(cross-device rename is not atomic / fails)", ctx.prog.loc(c))
                elif e.startswith("PRIMARY.open(") and f.name != "__init__":
                    mode = e[len("PRIMARY.open("):-1]
                    if mode.strip("'\"").startswith("w"):
                        n += 1
                        yield Ob("C12.R1", ["C12", "C13", "C04", "C02"], f"{f.qual} | publication | open for truncation", False,
                                 f"`{norm(c, 60)}` opens the primary path for truncation", ctx.prog.loc(c))
    if n == 0:
        raise AnalysisError("C12.R1", "no publication construct found (swap does not replace the primary file?)")


@rule("C12.R2", ["C12", "C15", "C13", "C04"], min_instances=1, design="3.12")
def truncate_then_write_only_for_reset(ctx):
    """The truncate-and-write primitive is called only by reset, with an empty literal."""
    n = 0
    for f in ctx.prog.all_funcs():
        for c in walk_local(f.node):
            if isinstance(c, ast.Call) and isinstance(c.func, ast.Attribute) and c.func.attr == "_write":
                n += 1
                a0 = c.args[0] if c.args else None
                ok = f.name == "reset" and isinstance(a0, ast.List) and not a0.elts
                yield Ob("C12.R2", ["C12", "C15"], f"{f.qual} | call of _write | {norm(c)}", ok,
                         "reset() truncates to empty (a single truncate: old or new)" if ok else
                         "truncate-then-write with data is not crash-safe (and rewrites the whole file)",
                         ctx.prog.loc(c))
    if n == 0:
        raise AnalysisError("C12.R2", "no caller of _write found")
    cls = csv_cls(ctx)
    for f in ctx.prog.methods_of(cls):
        if f.name in ("_write",):
            continue
        env = ctx.eff._role_env(f, list(walk_local(f.node)))
        for c in walk_local(f.node):
            if isinstance(c, ast.Call) and isinstance(c.func, ast.Attribute) and c.func.attr == "truncate" \
                    and "PRIMARY" in ctx.eff.expr_roles(c.func.value, ctx.eff.roles[cls], env):
                ok = f.name == "append" and not c.args
                yield Ob("C12.R2", ["C12", "C13", "C04"], f"{f.qual} | truncate of the primary handle | {norm(c)}", ok,
                         "truncate at the end-of-file cursor after an append (cuts nothing)" if ok else
                         "truncates the primary file outside reset/append", ctx.prog.loc(c))


@rule("C12.R3", ["C12", "C13", "C04"], min_instances=1, design="3.12")
def durable_append_order(ctx):
    """Under flush_on_insert, flush() then os.fsync() follow the row write, in that order, before append returns."""
    cls = csv_cls(ctx)
    f = ctx.prog.func(f"{cls}.append", "C12.R3")
    g = ctx.cfg(f, exceptional=False)
    ne = _node_effects_const(ctx, g, f, cls, {"temporary": False})
    writes = [i for i, es in ne.items() if "PRIMARY.write" in es]
    fl = [i for i, es in ne.items() if "PRIMARY.flush" in es]
    fs = [i for i, es in ne.items() if "PRIMARY.fsync" in es]
    bad = []
    if not fl or not fs:
        bad.append("no flush()+os.fsync() of the primary handle in append")
    else:
        for i in fl + fs:
            cl = guard_clauses(guards(g.nodes[i].ast))
            if not any(len(c) == 1 and next(iter(c))[1] and "flush_on_insert" in next(iter(c))[0] for c in cl):
                if cl:
                    bad.append(f"`{norm(g.nodes[i].ast, 40)}` is under unexpected guards {sorted(map(sorted, cl))}")
        for s in fs:
            if not g.dominated(s, lambda x: x.id in fl):
                bad.append("os.fsync() is not preceded by flush(): Python's buffer is not on its way to disk")
        for w in writes:
            r = g.reachable([w])
            if not any(x in r for x in fl):
                bad.append("no flush reachable after the row write")
        for x in fl:
            if not all(g.dominated(x, lambda y: y.id in writes or y.kind == "iter") for _ in [0]):
                bad.append("flush precedes the row write")
    yield Ob("C12.R3", ["C12", "C13", "C04"], f"{f.qual} | write -> flush -> fsync", not bad,
             "; ".join(bad[:3]) if bad else "flush then fsync follow the write under flush_on_insert", f.loc())
    # default of flush_on_insert is True
    init = ctx.prog.classes[cls].methods["__init__"]
    d = init.defaults().get("flush_on_insert")
    ok = d is not None and const_value(d) is True
    yield Ob("C12.R3", ["C12"], f"{init.qual} | flush_on_insert defaults to True", ok,
             "durable by default" if ok else "default configuration does not flush on insert", init.loc())


# -------------------------------------------------------------------- C15.R3
@rule("C15.R3", ["C15", "C11", "C13", "C12", "C02", "C03", "C06"], min_instances=3, design="3.15")
def temp_store_pairing(ctx):
    """The temporary store is released (closed and unlinked) on every exit, normal or exceptional, of a temp_storage_op."""
    cls = csv_cls(ctx)
    roles = ctx.eff.roles[cls]
    # (a) created with delete=False => the storage must unlink it itself
    creators = [(f, c) for f, c, role in handle_ctors(ctx, cls) if role == "TEMP"]
    if not creators:
        raise AnalysisError("C15.R3", "no temporary file creation found")
    needs_unlink = any(const_value(kw(c, "delete")) is False for _, c in creators)
    cu = ctx.prog.func(f"{cls}._cleanup_temp_storage", "C15.R3")
    g = ctx.cfg(cu, exceptional=False)
    ne = _node_effects(ctx, g, cu, cls)
    closes = any("TEMP.close" in es for es in ne.values())
    unlinks = any(any(e.startswith("FS.unlink(TEMP_PATH") or e.startswith("FS.path_unlink(TEMP_PATH")
                      for e in es) for es in ne.values())
    consumed = False
    sw = ctx.prog.func(f"{cls}._swap_temp_with_primary", "C15.R3")
    for c in walk_local(sw.node):
        if isinstance(c, ast.Call):
            env = ctx.eff._role_env(sw, list(walk_local(sw.node)))
            if any(e.startswith("FS.replace(TEMP_PATH") for e in ctx.eff.primitive(c, sw, roles, env)):
                consumed = True
    bad = []
    if not closes:
        bad.append("temporary handle is never closed")
    if needs_unlink and not unlinks:
        bad.append("file created with delete=False is closed but never removed: one leaked temporary file per "
                   "update/remove" + (" (a rename consumes it only when the swap happens)" if consumed else ""))
    # the release statements must run exactly when there is a temporary file: under `handle is not None`
    # (and, for the unlink, `the file exists`), never under the opposite
    from ..logic import consistent_with as _cw, guard_clauses as _gc, guards as _gs
    env_cu = ctx.eff._role_env(cu, list(walk_local(cu.node)))
    for c in walk_local(cu.node):
        if not isinstance(c, ast.Call):
            continue
        effs = ctx.eff.primitive(c, cu, roles, env_cu)
        is_close = any(e == "TEMP.close" or e.startswith("TEMP.close") for e in effs)
        is_unlink = any(e.startswith("FS.unlink(TEMP_PATH") or e.startswith("FS.path_unlink(TEMP_PATH") for e in effs)
        if not (is_close or is_unlink):
            continue
        cl = _gc(_gs(c))
        atoms = {a for cc_ in cl for a, _ in cc_}
        facts = []
        for a in atoms:
            if a.startswith("is(") and "None" in a and "_temp" in a:
                facts.append((a, False))
            elif a.startswith("truthy(") and "_temp" in a and "exists" not in a:
                facts.append((a, True))
            elif "exists(" in a or "isfile(" in a:
                facts.append((a, True))
        if not _cw(cl, facts):
            bad.append(f"`{norm(c, 50)}` (line {c.lineno}) is not reached when a temporary file exists "
                       f"(guards {sorted(map(sorted, cl))[:2]}): the file is left behind after every update/remove")
    yield Ob("C15.R3", ["C15"], f"{cu.qual} | releases the temporary file", not bad,
             "; ".join(bad) if bad else "closes the handle and removes the file", cu.loc())
    # (a2) every acquisition starts from a fresh, empty temporary store
    from ..logic import guard_clauses, guards
    for cf, cc in creators:
        cl = guard_clauses(guards(cc))
        rets = [n for n in walk_local(cf.node) if isinstance(n, ast.Return)
                and n.lineno < cc.lineno]
        ok_fresh = not cl and not rets
        yield Ob("C15.R3", ["C15", "C12", "C11", "C13", "C02", "C03"], f"{cf.qual} | acquisition creates a fresh temporary file", ok_fresh,
                 "a new temporary file is created unconditionally" if ok_fresh else
                 f"creation of the temporary file is conditional ({sorted(map(sorted, cl))[:2]} / early return): rows "
                 f"staged by an earlier, aborted operation are published by the next one", ctx.prog.loc(cc))
    # (b) the decorator releases on every exit
    dec = ctx.prog.func("temp_storage_op", "C15.R3")
    ops = ctx.prog.nested(dec)
    if len(ops) != 1:
        raise AnalysisError("C15.R3", "temp_storage_op wrapper not found")
    op = ops[0]
    g = ctx.cfg(op, exceptional=True)
    inits = [n for n in g.stmt_nodes() for c in n.calls() if call_name(c) == "_init_temp_storage"]
    if not inits:
        raise AnalysisError("C15.R3", "temp_storage_op does not acquire the temporary store")
    is_cleanup = lambda x: any(call_name(c) == "_cleanup_temp_storage" for c in x.calls())
    released_always = True
    for i in inits:
        okn = g.postdominated(i.id, is_cleanup, [g.exit], first_labels=lambda l: l != "exc")
        oke = g.postdominated(i.id, is_cleanup, [g.rexit], first_labels=lambda l: l != "exc")
        released_always = released_always and okn and oke
        yield Ob("C15.R3", ["C15"], f"{op.qual} | release on normal exit", okn,
                 "cleanup post-dominates acquisition on normal exits" if okn else
                 "a normal exit skips _cleanup_temp_storage", op.loc())
        yield Ob("C15.R3", ["C15", "C11", "C13"], f"{op.qual} | release on exceptional exit", oke,
                 "cleanup runs when the wrapped operation raises (finally/handler)" if oke else
                 "when the wrapped operation raises, the temporary store is neither closed nor removed "
                 "(no try/finally)", op.loc())

    # (a3) memory twin: the temporary list is empty at every acquisition -- either the acquisition
    # rebinds it, or every release does (and release is guaranteed on every exit, and the constructor
    # starts it empty)
    mc = mem_cls(ctx)
    mi = ctx.prog.classes[mc].methods.get("_init_temp_storage")
    if mi is not None:
        tm = next(iter(ctx.eff.roles[mc].temp_mem), None)

        def resets(fn):
            if fn is None:
                return False
            fresh = [n for n in walk_local(fn.node) if isinstance(n, (ast.Assign, ast.AnnAssign))
                     and any(is_self_attr(t, tm) for t in (n.targets if isinstance(n, ast.Assign) else [n.target]))
                     and isinstance(n.value, ast.List) and not n.value.elts]
            return len(fresh) >= 1 and all(not guard_clauses(guards(x)) for x in fresh)
        by_init = resets(mi)
        by_release = resets(ctx.prog.classes[mc].methods.get("_cleanup_temp_storage")) \
            and resets(ctx.prog.classes[mc].methods.get("__init__")) and released_always
        ok_m = by_init or by_release
        yield Ob("C15.R3", ["C15", "C11", "C13", "C02", "C03", "C06"], f"{mi.qual} | acquisition starts from an empty temporary list", ok_m,
                 ("temporary list rebound to []" if by_init else
                  "every release rebinds the temporary list to [] and release is guaranteed on every exit") if ok_m else
                 "temporary memory is not reset at acquisition, and release (which would reset it) is not guaranteed on "
                 "every exit: rows staged by an aborted operation are published by the next one", mi.loc())

# ---------------------------------------------------------------------- C16
INSERT_ALLOWED = {
    "PRIMARY.seek_end", "PRIMARY.write", "PRIMARY.flush", "PRIMARY.fsync", "PRIMARY.fileno", "PRIMARY.truncate",
    "MEM.append",
}
INSERT_APIS = ("TinyFlux.insert", "TinyFlux.insert_multiple", "Measurement.insert", "Measurement.insert_multiple")


@rule("C16.R1", ["C16", "C15", "C12"], min_instances=8, design="3.16")
def insert_effect_containment(ctx):
    """The transitive I/O effects of insert are only seek-to-end, write, flush, fsync (and the cursor truncate)."""
    for q in INSERT_APIS:
        f = ctx.prog.func(q, "C16.R1")
        for st in (csv_cls(ctx), mem_cls(ctx)):
            es = ctx.eff.api_summary(f, st)
            io = {e: ch for e, ch in es if e.split(".")[0] in ("PRIMARY", "TEMP", "FS", "MEM", "TMEM")}
            extra = sorted(set(io) - INSERT_ALLOWED)
            msg = f"effects {sorted(io)}"
            if extra:
                msg = "; ".join(f"{e} via {chain_str(io[e])}" for e in extra[:3])
            mutating = [e for e in extra if not e.endswith((".read", ".seek0", ".seek", ".tell")) and not e.startswith("PRIMARY.other")]
            yield Ob("C16.R1", ["C16"] + (["C15", "C12"] if mutating else []), f"{q} | {st} | effect containment", not extra, msg, f.loc(),
                     {"effects": sorted(io)})


@rule("C16.R3", ["C16"], min_instances=2, design="3.16")
def insert_io_bounded_by_input(ctx):
    """Every loop around an I/O primitive in insert's call tree iterates over the caller's points (or the one-row literal); no loop over storage or index."""
    start = ctx.prog.func("TinyFlux._insert_helper", "C16.R3")
    cls = csv_cls(ctx)
    seen: Set[str] = set()
    todo: List[Tuple[Func, Dict[str, ast.AST]]] = [(start, {})]
    io_prefix = ("PRIMARY.", "TEMP.", "FS.", "MEM.", "TMEM.")
    while todo:
        f, argmap = todo.pop()
        if f.qual in seen:
            continue
        seen.add(f.qual)
        consts = {"temporary": False} if "temporary" in f.params() else {}
        from ..effects import live_nodes
        live = live_nodes(f.body, consts)
        live_ids = {id(x) for x in live}
        roles = ctx.eff.roles.get(ctx.res.self_class(f) or "")
        env = ctx.eff._role_env(f, live, consts)
        for n in live:
            if isinstance(n, ast.Call):
                # follow package callees that have I/O effects
                for tg, c2, ch2 in ctx.eff.call_targets(n, f, (), None):
                    sub = names(ctx.eff.summary(tg, c2, ch2, None))
                    if any(e.startswith(io_prefix) for e in sub):
                        todo.append((tg, {}))
                prim = [e for e in ctx.eff.primitive(n, f, roles, env) if e.startswith(io_prefix)]
                sub_io = False
                for tg, c2, ch2 in ctx.eff.call_targets(n, f, (), None):
                    if any(e.startswith(io_prefix) for e in names(ctx.eff.summary(tg, c2, ch2, None))):
                        sub_io = True
                if not prim and not sub_io:
                    continue
                for a in ancestors(n):
                    if isinstance(a, (ast.FunctionDef, ast.Lambda)):
                        break
                    if isinstance(a, ast.While):
                        yield Ob("C16.R3", ["C16"], f"{f.qual} | while-loop around I/O | {norm(a.test, 60)}", False,
                                 "unbounded loop encloses an I/O primitive on the insert path", ctx.prog.loc(a))
                    if isinstance(a, ast.For) and id(a) in live_ids:
                        it = a.iter
                        ok = isinstance(it, ast.Name) and it.id in f.params()
                        yield Ob("C16.R3", ["C16"], f"{f.qual} | loop around I/O | for {norm(a.target)} in {norm(it, 50)}",
                                 ok, "iterates over the caller-supplied rows" if ok else
                                 f"I/O inside a loop over `{norm(it, 50)}`, which is not the inserted input",
                                 ctx.prog.loc(a))
    # the rows handed to storage.append per point are a one-element literal
    for n in walk_local(start.node):
        if isinstance(n, ast.Call) and isinstance(n.func, ast.Attribute) and n.func.attr == "append" \
                and ctx.res.type_of(n.func.value, start) in set(ctx.prog.subclasses("Storage")):
            a0 = n.args[0] if n.args else None
            ok = isinstance(a0, ast.List) and len(a0.elts) == 1
            yield Ob("C16.R3", ["C16"], f"{start.qual} | rows per append | {norm(n, 60)}", ok,
                     "one serialised row per inserted point" if ok else
                     f"appends `{norm(a0) if a0 is not None else '?'}` per point", ctx.prog.loc(n))


@rule("C16.R4", ["C16", "C12", "C01"], min_instances=3, design="3.16")
def insert_forwards_input_unchanged(ctx):
    """insert/insert_multiple hand the caller's points to the insert loop unchanged and in the caller's order."""
    helper = ctx.prog.func("TinyFlux._insert_helper", "C16.R4")
    for q, first in (("TinyFlux.insert", "[point]"), ("TinyFlux.insert_multiple", "points")):
        f = ctx.prog.func(q, "C16.R4")
        bad = []
        calls = [n for n in walk_local(f.node) if isinstance(n, ast.Call) and call_name(n) == helper.name
                 and isinstance(n.func, ast.Attribute) and is_self_attr(n.func)]
        if len(calls) != 1:
            bad.append(f"{len(calls)} delegations to {helper.name}")
        else:
            c = calls[0]
            if not (isinstance(stmt_of(c), ast.Return) and stmt_of(c).value is c):
                bad.append("the helper's count is not returned unchanged")
            from ..astq import bind_args
            b, pr = bind_args(c, helper)
            bad += pr
            p0 = f.params()[1]
            want = {"points": f"[{p0}]" if first.startswith("[") else p0,
                    "measurement": "measurement", "compact_key_prefixes": "compact_key_prefixes"}
            for k, v in want.items():
                if norm(b.get(k)) != v:
                    bad.append(f"`{k}` receives `{norm(b.get(k)) if b.get(k) is not None else 'nothing'}`, expected `{v}`")
            rebound = [n for n in walk_local(f.node) if isinstance(n, (ast.Assign, ast.AugAssign, ast.AnnAssign))
                       and any(isinstance(x, ast.Name) and x.id == p0 and isinstance(x.ctx, ast.Store)
                               for x in ast.walk(n))]
            if rebound:
                bad.append(f"`{p0}` is rebound before it is handed on (`{norm(rebound[0], 60)}`): the points may be "
                           f"reordered, filtered or materialised")
        yield Ob("C16.R4", ["C12", "C01"], f"{q} | forwards its input unchanged", not bad,
                 "; ".join(bad) if bad else "single delegation with same-named arguments", f.loc())
    loops = [n for n in walk_local(helper.node) if isinstance(n, ast.For)]
    pt_loops = [lp for lp in loops if any(isinstance(x, ast.Call) and call_name(x) == "append" for x in walk_local(lp))]
    bad = []
    if len(pt_loops) != 1:
        bad.append(f"{len(pt_loops)} loops append to storage")
    else:
        it = pt_loops[0].iter
        if not (isinstance(it, ast.Name) and it.id == helper.params()[1]):
            bad.append(f"the insert loop iterates `{norm(it, 50)}`, not the caller's iterable as given")
        reassigned = [n for n in walk_local(helper.node) if isinstance(n, ast.Assign)
                      and any(isinstance(t, ast.Name) and t.id == helper.params()[1] for t in n.targets)]
        if reassigned:
            bad.append(f"`{helper.params()[1]}` is rebound before the loop: `{norm(reassigned[0], 50)}`")
    yield Ob("C16.R4", ["C16", "C12", "C01"], f"{helper.qual} | iterates the caller's points in order", not bad,
             "; ".join(bad) if bad else "for point in points, one append per point", helper.loc())


@rule("C04.R7", ["C04", "C05", "C12", "C16"], min_instances=3, design="3.4")
def csv_handle_hygiene(ctx):
    """The csv module's requirements on the storage configuration: newline defaults to '', the dialect kwargs are the caller's unchanged, and the buffered handles are never bypassed with fd-level calls."""
    cls = csv_cls(ctx)
    init = ctx.prog.classes[cls].methods["__init__"]
    d = init.defaults().get("newline")
    ok = d is not None and const_value(d) == ""
    yield Ob("C04.R7", ["C04", "C05"], f"{init.qual} | newline defaults to ''", ok,
             "files are opened with newline='' as the csv module requires" if ok else
             f"default newline is {norm(d) if d is not None else 'missing'}: with universal newlines a CR or CRLF inside a "
             f"quoted value is read back as LF", init.loc())
    # the dialect kwargs must reach csv unchanged
    kw_name = init.node.args.kwarg.arg if init.node.args.kwarg is not None else None
    muts = []
    if kw_name:
        for n in walk_local(init.node):
            if isinstance(n, ast.Call) and isinstance(n.func, ast.Attribute) and isinstance(n.func.value, ast.Name) \
                    and n.func.value.id == kw_name and n.func.attr in ("setdefault", "update", "pop", "popitem", "clear"):
                muts.append(n)
            if isinstance(n, (ast.Assign, ast.AugAssign, ast.Delete)):
                ts = n.targets if isinstance(n, (ast.Assign, ast.Delete)) else [n.target]
                for t in ts:
                    if isinstance(t, ast.Subscript) and isinstance(t.value, ast.Name) and t.value.id == kw_name:
                        muts.append(n)
    yield Ob("C04.R7", ["C04", "C05"], f"{init.qual} | csv dialect kwargs passed through unchanged", not muts,
             "the caller's dialect options are stored as given" if not muts else
             f"`{norm(muts[0], 60)}` changes the dialect the caller asked for (e.g. a different lineterminator changes "
             f"which characters the writer quotes)", init.loc())
    # fd-level calls on a buffered handle
    roles = ctx.eff.roles[cls]
    n_sites = 0
    for f in ctx.prog.methods_of(cls):
        env = ctx.eff._role_env(f, list(walk_local(f.node)))
        for c in walk_local(f.node):
            if not (isinstance(c, ast.Call) and isinstance(c.func, ast.Attribute)):
                continue
            fd_args = [a for a in list(c.args) + [k.value for k in c.keywords]
                       if any(r.endswith("_FD") for r in ctx.eff.expr_roles(a, roles, env))]
            if not fd_args:
                continue
            n_sites += 1
            fn = norm(c.func)
            ok = fn in ("os.fsync", "os.fdatasync")
            yield Ob("C04.R7", ["C04", "C12"] + (["C16"] if f.name == "append" else []),
                     f"{f.qual} | fd-level call on a buffered handle | {norm(c, 60)}{occ(f, c)}",
                     ok, "fsync of the flushed handle" if ok else
                     f"{fn} works on the file descriptor behind the text layer's buffer: buffered rows are written "
                     f"later at stale offsets / sizes are read before the buffer is flushed", ctx.prog.loc(c))
    if n_sites == 0:
        raise AnalysisError("C04.R7", "no fd-level call (fsync) found on a storage handle")
