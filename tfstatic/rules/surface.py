"""Rules for the less central API surface (select, close, reset, constructors, handle registry,
index insert helpers, storage codec pass-through), found missing by the fifth round of independent
changes, which was directed at code no earlier change had touched."""

from __future__ import annotations

import ast
from typing import Dict, List, Optional, Set

from ..astq import assignments_to, bind_args, call_name, kw, occ
from ..logic import guard_clauses, guards
from ..model import AnalysisError, Func, ancestors, const_value, NOCONST, is_self_attr, norm, walk_local
from ..report import Ob, rule


def _arms(e: ast.AST) -> List[ast.AST]:
    return _arms(e.body) + _arms(e.orelse) if isinstance(e, ast.IfExp) else [e]


# ---------------------------------------------------------------- select projection
@rule("C01.R8", ["C01", "C07", "C05", "C10"], min_instances=2, design="3.1")
def select_strips_exactly_the_prefix(ctx):
    """TinyFlux.select derives a tag/field key from a select key only by cutting the literal prefix it tested for (`key[5:]` after `tags.`, `key[7:]` after `fields.`); the key text itself may contain dots."""
    sel = ctx.prog.func("TinyFlux.select", "C01.R8")
    n = 0
    # select itself, plus any function of database.py that tests a key for the "tags."/"fields." prefixes
    funcs = [sel] + [g for g in ctx.prog.all_funcs() if g.module == "database" and g is not sel and any(
        isinstance(c, ast.Call) and isinstance(c.func, ast.Attribute) and c.func.attr == "startswith" and c.args
        and const_value(c.args[0]) in ("tags.", "fields.") for c in walk_local(g.node))]
    total_keyvars = 0
    for f in funcs:
        n_here, obs = _key_cuts(ctx, f)
        n += n_here
        yield from obs
    if n < 2:
        raise AnalysisError("C01.R8", f"select: expected key cuts for tags and fields, found {n}")


def _key_cuts(ctx, f: Func):
    n = 0
    obs = []
    # variables holding one select key: loop variables over the requested keys, or whatever startswith() is asked of
    keyvars = set()
    for lp in walk_local(f.node):
        if isinstance(lp, (ast.For, ast.comprehension)) and isinstance(lp.target, ast.Name) and "keys" in norm(lp.iter):
            keyvars.add(lp.target.id)
    for c in walk_local(f.node):
        if isinstance(c, ast.Call) and isinstance(c.func, ast.Attribute) and c.func.attr == "startswith" and c.args \
                and const_value(c.args[0]) in ("tags.", "fields.") and isinstance(c.func.value, ast.Name):
            keyvars.add(c.func.value.id)
    for x in walk_local(f.node):
        if isinstance(x, ast.Name) and x.id in keyvars and isinstance(x.ctx, ast.Load):
            p = getattr(x, "_parent", None)
            # allowed contexts: comparison with a literal, startswith(<literal>), len(key), key[N:], f-string in an error message
            if isinstance(p, ast.Compare):
                continue
            if isinstance(p, ast.Attribute) and p.attr == "startswith":
                continue
            if isinstance(p, ast.Call) and norm(p.func) == "len":
                continue
            if isinstance(p, (ast.FormattedValue, ast.JoinedStr)):
                continue
            if isinstance(p, ast.Call) and any(a is x for a in p.args) and isinstance(p.func, ast.Name) \
                    and any(g_.name == p.func.id and g_.module == "database" for g_ in ctx.prog.all_funcs()):
                continue  # handed on, whole, to a function of this module (checked there)
            if isinstance(p, ast.Subscript) and isinstance(p.slice, ast.Slice) and p.slice.upper is None and p.slice.step is None:
                n += 1
                cut = const_value(p.slice.lower) if p.slice.lower is not None else 0
                cl = guard_clauses(guards(p))
                lits = {}
                for c in cl:
                    for a, pol in c:
                        if a.startswith(f"truthy({x.id}.startswith("):
                            lit = a[len(f"truthy({x.id}.startswith("):-2]
                            lits[lit.strip("'\"")] = (pol, len(c) == 1)
                pos = [l for l, (pol, unit) in lits.items() if pol and unit]
                if pos:
                    want = len(pos[0])
                    which = pos[0]
                else:
                    # else-branch: every other documented form was excluded; the remaining prefix is the
                    # longest literal prefix the validation loop accepts that is not excluded here
                    accepted = sorted({const_value(c.args[0]) for g_ in ctx.prog.all_funcs() if g_.module == "database"
                                       for c in walk_local(g_.node) if isinstance(c, ast.Call)
                                       and isinstance(c.func, ast.Attribute) and c.func.attr == "startswith" and c.args
                                       and const_value(c.args[0]) in ("tags.", "fields.")})
                    rest = [a for a in accepted if a not in lits]
                    want = len(rest[0]) if len(rest) == 1 else None
                    which = rest[0] if len(rest) == 1 else "?"
                ok = want is not None and cut == want
                obs.append(Ob("C01.R8", ["C01", "C07", "C05", "C10"], f"{f.qual} | key cut | {norm(p)}{occ(f, p)}", ok,
                         f"cuts the {want} characters of {which!r}" if ok else
                         f"`{norm(p)}` cuts {cut} characters where the prefix {which!r} has {want}", ctx.prog.loc(p)))
                continue
            n += 1
            obs.append(Ob("C01.R8", ["C01", "C07", "C05", "C10"], f"{f.qual} | key cut | {norm(getattr(p, '_parent', p), 60)}{occ(f, x)}", False,
                     f"`{norm(getattr(p, '_parent', p), 60)}` derives the tag/field key from the select key by something other than "
                     f"cutting the tested prefix: keys that contain '.' (or the prefix text again) address another key",
                     ctx.prog.loc(x)))
    return n, obs


# ---------------------------------------------------------------- updater parameters
@rule("C03.R7", ["C03", "C14"], min_instances=6, design="3.3")
def updater_arguments_are_not_rebound(ctx):
    """`_generate_updater` validates and closes over the caller's arguments as given: none of its parameters is reassigned (a `list(unset_tags)` turns the string 'city' into four one-letter keys)."""
    gen = ctx.prog.func("TinyFlux._generate_updater", "C03.R7")
    params = [p for p in gen.params() if p not in ("self", "query")]
    stores: Dict[str, ast.AST] = {}
    for fn in [gen] + list(ctx.prog.nested(gen)):
        for x in walk_local(fn.node):
            if isinstance(x, ast.Name) and isinstance(x.ctx, (ast.Store, ast.Del)) and x.id in params and x.id not in fn.params()[
                    0:0]:
                if fn is gen or x.id not in fn.params():
                    stores.setdefault(x.id, x)
    for p in params:
        bad = stores.get(p)
        yield Ob("C03.R7", ["C03", "C14"], f"{gen.qual} | parameter {p} keeps the caller's value", bad is None,
                 "never reassigned" if bad is None else
                 f"`{norm(getattr(bad, '_parent', bad), 60)}` rebinds `{p}`: the closure applies something other than what was "
                 f"validated / what the caller passed", ctx.prog.loc(bad) if bad is not None else gen.loc())


# ---------------------------------------------------------------- time leaf pairs positions with timestamps
@rule("C01.R9", ["C01", "C02", "C03", "C08"], min_instances=1, design="3.1")
def time_leaf_scan_pairs_positions(ctx):
    """Every loop of the time leaf that tests stored timestamps walks zip(<position array>, <timestamps>) and collects the position component (an enumerate index is a rank, not a storage position)."""
    from .index_state import fields_of
    fl = fields_of(ctx)
    S, P = next(iter(fl.sorted)), next(iter(fl.pos))
    f = ctx.prog.func("Index._search_timestamps", "C01.R9")
    n = 0
    for lp in walk_local(f.node):
        if not isinstance(lp, ast.For):
            continue
        tests = [c for c in walk_local(lp) if isinstance(c, ast.Call) and isinstance(c.func, ast.Attribute) and c.func.attr == "_test"]
        adds = [c for c in walk_local(lp) if isinstance(c, ast.Call) and call_name(c) == "add" and c.args]
        if not tests or not adds:
            continue
        n += 1
        it = lp.iter
        bad = []
        comp = None
        if isinstance(it, ast.Call) and norm(it.func) == "zip" and isinstance(lp.target, ast.Tuple):
            attrs = [a.attr if is_self_attr(a) else None for a in it.args]
            if set(attrs) != {S, P} or len(attrs) != 2:
                bad.append(f"iterates zip({', '.join(norm(a) for a in it.args)}), expected the position array with the timestamps")
            else:
                comp = lp.target.elts[attrs.index(P)]
        else:
            bad.append(f"iterates `{norm(it, 50)}`: storage positions are only known through self.{P}")
        for a in adds:
            if comp is not None and norm(a.args[0]) != norm(comp):
                bad.append(f"`{norm(a)}` collects `{norm(a.args[0])}`, not the position component `{norm(comp)}`")
        yield Ob("C01.R9", ["C01", "C02", "C03", "C08"], f"{f.qual} | scan loop collects storage positions{occ(f, lp)}", not bad,
                 "; ".join(bad) if bad else f"zip(self.{P}, self.{S}), position component collected", ctx.prog.loc(lp))
    if n == 0:
        raise AnalysisError("C01.R9", "time leaf: general scan loop not found")


# ---------------------------------------------------------------- storage codec is a pass-through
@rule("C05.R6", ["C05", "C04", "C01"], min_instances=2, design="3.5")
def csv_storage_codec_passthrough(ctx):
    """CSVStorage hands the Point codec's row to the csv writer unchanged and decodes exactly the row the csv reader produced: no per-cell rewriting (normalisation, stripping, casing) on the way."""
    from .storage_io import csv_cls
    cls = csv_cls(ctx)
    sp = ctx.prog.func(f"{cls}._serialize_point", "C05.R6")
    rets = [r.value for r in walk_local(sp.node) if isinstance(r, ast.Return) and r.value is not None]
    ok = len(rets) == 1
    if ok:
        v = rets[0]
        if isinstance(v, ast.Name):
            vals = assignments_to(sp, v.id)
            v = vals[0] if len(vals) == 1 else v
            # no other statement may touch the row
            ok = not any(isinstance(x, ast.Name) and x.id == rets[0].id and isinstance(x.ctx, ast.Load)
                         and getattr(x, "_parent", None) is not None and not isinstance(x._parent, ast.Return)
                         for x in walk_local(sp.node))
        ok = ok and isinstance(v, ast.Call) and call_name(v) == "_serialize_to_list"
    yield Ob("C05.R6", ["C05", "C04", "C01"], f"{sp.qual} | row of the Point codec, verbatim", ok,
             "returns point._serialize_to_list(...)" if ok else
             f"returns `{norm(rets[0], 60) if rets else '?'}`: the row is rewritten between the Point codec and the file, so what "
             f"is read back is not what was written", sp.loc())
    ds = ctx.prog.func(f"{cls}._deserialize_storage_item", "C05.R6")
    row = ds.params()[1]
    calls = [c for c in walk_local(ds.node) if isinstance(c, ast.Call) and call_name(c) == "_deserialize_from_list"]
    ok = len(calls) == 1 and len(calls[0].args) == 1 and norm(calls[0].args[0]) == row and not any(
        isinstance(x, ast.Name) and x.id == row and isinstance(x.ctx, ast.Store) for x in walk_local(ds.node))
    yield Ob("C05.R6", ["C05", "C04", "C01"], f"{ds.qual} | decodes the reader's row, verbatim", ok,
             "Point()._deserialize_from_list(row)" if ok else "the row is rewritten before it reaches the Point decoder", ds.loc())


# ---------------------------------------------------------------- early exits in index getters
@rule("C07.R6", ["C07", "C06", "C10"], min_instances=1, design="3.7")
def index_getters_do_not_exit_early(ctx):
    """A `break` in a loop of an Index getter is only allowed right after the result of that iteration was recorded (the remaining iterations cannot change it)."""
    n = 0
    for f in ctx.prog.methods_of("Index"):
        if not f.name.startswith("get_"):
            continue
        n += 1
        bad = []
        for b in walk_local(f.node):
            if not isinstance(b, ast.Break):
                continue
            blk = None
            for a in ancestors(b):
                for fld in ("body", "orelse"):
                    if b in getattr(a, fld, []):
                        blk = getattr(a, fld)
                if blk is not None:
                    break
            earlier = blk[:blk.index(b)] if blk else []
            # the recording statement must be a direct sibling before the break (same condition)
            recorded = any(isinstance(s, ast.Expr) and isinstance(s.value, ast.Call)
                           and call_name(s.value) in ("add", "append", "update", "setdefault") for s in earlier) or any(
                isinstance(s, (ast.Assign, ast.AugAssign)) and isinstance((s.targets[0] if isinstance(s, ast.Assign) else s.target), ast.Subscript)
                for s in earlier)
            if not recorded:
                bad.append(b)
        yield Ob("C07.R6", ["C07", "C06", "C10"], f"{f.qual} | no early exit before the result is recorded", not bad,
                 "no unguarded break" if not bad else
                 f"`break` at line {bad[0].lineno} leaves the loop without having recorded a result in that iteration: "
                 f"values examined later are never seen", f.loc())
    if n == 0:
        raise AnalysisError("C07.R6", "no Index getter found")


# ---------------------------------------------------------------- a bare Point() has no time
@rule("C08.R4", ["C08", "C16"], min_instances=1, design="3.8")
def bare_point_has_no_time(ctx):
    """`Point()` without arguments leaves the time unset (None), so that the insertion time is assigned by insert, not the construction time."""
    init = ctx.prog.func("Point.__init__", "C08.R4")
    stores = [n for n in walk_local(init.node) if isinstance(n, ast.Assign) and any(is_self_attr(t, "_time") for t in n.targets)]
    if not stores:
        raise AnalysisError("C08.R4", "Point.__init__ does not assign _time")
    bad = []
    seen_none = False
    from ..logic import consistent_with
    for st in stores:
        for a in _arms(st.value):
            cl = guard_clauses(guards(a))
            if consistent_with(cl, [("truthy(kwargs)", False)]):
                if const_value(a) is None:
                    seen_none = True
                else:
                    bad.append(a)
    ok = seen_none and not bad
    yield Ob("C08.R4", ["C08", "C16"], f"{init.qual} | no keyword arguments -> time is None", ok,
             "the no-argument path stores None" if ok else
             f"without arguments the time becomes `{norm(bad[0], 50) if bad else '?'}`: a point built earlier and inserted later "
             f"keeps its construction time instead of receiving the insertion time", init.loc())


# ---------------------------------------------------------------- cheap timestamp projection is made aware
@rule("C08.R5", ["C08", "C07", "C01"], min_instances=1, design="3.8")
def timestamp_projection_is_made_aware(ctx):
    """Outside the storages, the value of `_deserialize_timestamp(row)` (naive UTC digits for CSV) is only used as the receiver of `.replace(tzinfo=timezone.utc)`."""
    n = 0
    for f in ctx.prog.all_funcs():
        if f.module not in ("database", "measurement"):
            continue
        for c in walk_local(f.node):
            if isinstance(c, ast.Call) and call_name(c) == "_deserialize_timestamp":
                n += 1
                uses = []
                p = getattr(c, "_parent", None)
                if isinstance(p, ast.Assign) and len(p.targets) == 1 and isinstance(p.targets[0], ast.Name):
                    nm = p.targets[0].id
                    uses = [x for x in walk_local(f.node) if isinstance(x, ast.Name) and x.id == nm and isinstance(x.ctx, ast.Load)]
                else:
                    uses = [c]
                bad = []
                for u in uses:
                    up = getattr(u, "_parent", None)
                    ok_use = isinstance(up, ast.Attribute) and up.attr == "replace" and isinstance(getattr(up, "_parent", None), ast.Call) \
                        and norm(kw(up._parent, "tzinfo")) == "timezone.utc"
                    if not ok_use:
                        bad.append(u)
                yield Ob("C08.R5", ["C08", "C07", "C01"], f"{f.qual} | timestamp projection made aware | {norm(c, 60)}{occ(f, c)}",
                         not bad and bool(uses),
                         "only used as x.replace(tzinfo=timezone.utc)" if not bad and uses else
                         f"`{norm(getattr(bad[0], '_parent', bad[0]), 60) if bad else norm(c)}` hands out the storage's naive "
                         f"timestamp: callers get a datetime without a zone (comparisons with aware datetimes fail)",
                         ctx.prog.loc(c))
    if n == 0:
        yield Ob("C08.R5", ["C08"], "database | timestamp projection", True, "the cheap timestamp projection is not used",
                 "tinyflux/database.py:0", nontrivial=False)


# ---------------------------------------------------------------- query objects have no truth value of their own
@rule("C09.R7", ["C09", "C17", "C01"], min_instances=3, design="3.9")
def queries_have_default_truthiness(ctx):
    """Query classes define neither `__bool__` nor `__len__`: the library tests `if query2:` / `if query and ...` for presence, so a falsy query object would be treated as absent."""
    for cls in ("BaseQuery", "SimpleQuery", "CompoundQuery"):
        c = ctx.prog.cls(cls, "C09.R7")
        bad = [m for m in ("__bool__", "__len__") if ctx.prog.lookup_method(cls, m) is not None]
        yield Ob("C09.R7", ["C09", "C17", "C01"], f"{cls} | no __bool__/__len__", not bad,
                 "instances are always truthy" if not bad else
                 f"{cls}.{bad[0]} makes some query objects falsy: `if self.query2:` then evaluates `&`/`|` as a unary operator "
                 f"(TypeError) or drops the operand", f"tinyflux/queries.py:{c.node.lineno}")


# ---------------------------------------------------------------- the handle registry is only a cache
@rule("C10.R8", ["C10", "C01", "C02"], min_instances=3, design="3.10")
def handle_registry_is_only_a_cache(ctx):
    """`TinyFlux._measurements` maps names to handle objects that were handed out; it says nothing about which measurements hold data, so only measurement(), drop_measurement, the reset and the constructor touch it."""
    allowed = {"measurement", "drop_measurement", "_reset_database", "__init__"}
    n = 0
    for f in ctx.prog.methods_of("TinyFlux"):
        uses = [x for x in walk_local(f.node) if is_self_attr(x, "_measurements")]
        if not uses:
            continue
        n += 1
        ok = f.name in allowed
        yield Ob("C10.R8", ["C10", "C01", "C02"], f"{f.qual} | use of the handle registry", ok,
                 "registry maintenance" if ok else
                 f"`{norm(getattr(uses[0], '_parent', uses[0]), 60)}` decides behaviour from the handle cache: a handle created "
                 f"before drop_measurement/remove_all (or never created) makes it disagree with the stored data", f.loc())
    if n < 3:
        raise AnalysisError("C10.R8", f"handle registry uses found in {n} methods, expected >= 3")


# ---------------------------------------------------------------- who may wipe the database
@rule("C02.R7", ["C02", "C10", "C15"], min_instances=2, design="3.2")
def reset_callers(ctx):
    """Only remove_all() and the all-rows-matched shortcut of _remove_helper call _reset_database."""
    n = 0
    for f in ctx.prog.all_funcs():
        for c in walk_local(f.node):
            if isinstance(c, ast.Call) and call_name(c) == "_reset_database":
                n += 1
                owner = f
                while owner.parent is not None:
                    owner = owner.parent
                ok = owner.name in ("remove_all", "_remove_helper")
                yield Ob("C02.R7", ["C02", "C10", "C15"], f"{f.qual} | wipes the database{occ(f, c)}", ok,
                         "remove_all / all rows matched" if ok else
                         f"{owner.name} empties the whole database: points it was not asked to remove are deleted", ctx.prog.loc(c))
    if n < 2:
        raise AnalysisError("C02.R7", "callers of _reset_database not found")


# ---------------------------------------------------------------- index stores what storage stores
@rule("C06.R12", ["C06", "C11", "C01", "C07"], min_instances=3, design="3.6")
def index_insert_helpers_store_values_verbatim(ctx):
    """Index._insert_tags/_insert_fields/_insert_measurements index the point's own values: no conversion or interning call is applied to them (it could raise after the row was appended, and a rebuilt index would hold the decoded value)."""
    for name in ("_insert_tags", "_insert_fields", "_insert_measurements"):
        f = ctx.prog.func(f"Index.{name}", "C06.R12")
        params = set(f.params()) - {"self"}
        loopvars = {x.id for lp in walk_local(f.node) if isinstance(lp, ast.For) for x in ast.walk(lp.target) if isinstance(x, ast.Name)}
        bad = []
        for c in walk_local(f.node):
            if not isinstance(c, ast.Call):
                continue
            fn = norm(c.func)
            if isinstance(c.func, ast.Attribute) and c.func.attr in ("items", "keys", "values", "append", "add", "setdefault", "get"):
                continue
            if fn in ("len", "set", "list", "isinstance", "enumerate", "zip"):
                continue
            if any(isinstance(x, ast.Name) and x.id in (params | loopvars) for a in c.args for x in ast.walk(a)):
                bad.append(c)
        yield Ob("C06.R12", ["C06", "C11", "C01", "C07"], f"{f.qual} | values indexed verbatim", not bad,
                 "no call applied to the indexed values" if not bad else
                 f"`{norm(bad[0], 50)}` transforms a value before indexing it: it can raise after storage.append already "
                 f"wrote the row, and the incremental index differs from a rebuilt one", f.loc())


# ---------------------------------------------------------------- reset / close
@rule("C13.R5", ["C13", "C02", "C04", "C15"], min_instances=2, design="3.13")
def reset_and_close_are_unconditional(ctx):
    """CSVStorage.reset truncates through the storage's own handle on every path; TinyFlux.close only closes the storage and sets flags (it never replaces the index or the handle table before the close can fail)."""
    from .storage_io import csv_cls
    cls = csv_cls(ctx)
    rs = ctx.prog.func(f"{cls}.reset", "C13.R5")
    g = ctx.cfg(rs, exceptional=False)
    ok = g.postdominated(g.entry, lambda x: any(call_name(c) in ("_write", "truncate") for c in x.calls()), [g.exit])
    yield Ob("C13.R5", ["C13", "C02", "C04", "C15"], f"{rs.qual} | truncates on every path", ok,
             "the truncating write post-dominates the entry" if ok else
             "a path returns without truncating through the storage handle: rows still buffered in that handle (a failed "
             "flush, flush_on_insert=False) survive the reset and are written by the next append", rs.loc())
    cl = ctx.prog.func("TinyFlux.close", "C13.R5")
    bad = [n for n in walk_local(cl.node) if isinstance(n, (ast.Assign, ast.AugAssign, ast.Delete))
           for t in (n.targets if isinstance(n, (ast.Assign, ast.Delete)) else [n.target])
           if is_self_attr(t) and t.attr in ("_index", "_measurements", "_storage", "_auto_index")]
    bad += [c for c in walk_local(cl.node) if isinstance(c, ast.Call) and isinstance(c.func, ast.Attribute)
            and norm(c.func.value) in ("self._index", "self._measurements") and c.func.attr in ("_reset", "clear", "invalidate", "build")]
    yield Ob("C13.R5", ["C13"], f"{cl.qual} | leaves index and handle table alone", not bad,
             "only closes the storage" if not bad else
             f"`{norm(bad[0], 50)}`: if storage.close() then fails, the live object answers from the replaced (empty, valid) "
             f"index", cl.loc())


# ---------------------------------------------------------------- constructor validates what it stores
@rule("C14.R5", ["C14"], min_instances=1, design="3.14")
def constructor_validates_the_kwargs_it_stores(ctx):
    """Point.__init__ hands `kwargs` itself to the validator (a filtered copy validates something other than what is stored)."""
    init = ctx.prog.func("Point.__init__", "C14.R5")
    calls = [c for c in walk_local(init.node) if isinstance(c, ast.Call) and call_name(c) == "_validate_kwargs"]
    if not calls:
        raise AnalysisError("C14.R5", "Point.__init__ does not call _validate_kwargs")
    for c in calls:
        ok = len(c.args) == 1 and norm(c.args[0]) == "kwargs" and not any(
            isinstance(x, ast.Name) and x.id == "kwargs" and isinstance(x.ctx, ast.Store) for x in walk_local(init.node))
        yield Ob("C14.R5", ["C14"], f"{init.qual} | validates the mapping it stores from", ok,
                 "_validate_kwargs(kwargs)" if ok else
                 f"validates `{norm(c.args[0], 50) if c.args else '?'}` but stores from kwargs: entries missing from the validated "
                 f"copy (e.g. explicit None) reach the slots unchecked", ctx.prog.loc(c))


# ---------------------------------------------------------------- handle factory touches no storage
@rule("C16.R5", ["C16", "C15"], min_instances=1, design="3.16")
def handle_factory_has_no_storage_effect(ctx):
    """TinyFlux.measurement(name) only creates/looks up a handle object: it has no storage effect (not even through the truth value of a handle, whose __len__ scans storage)."""
    from .storage_io import csv_cls, mem_cls
    m = ctx.prog.func("TinyFlux.measurement", "C16.R5")
    fx = set()
    for st in (csv_cls(ctx), mem_cls(ctx)):
        fx |= {e for e, ch in ctx.eff.api_summary(m, st)}
    bad = sorted(e for e in fx if e.startswith(("PRIMARY.", "TEMP.", "MEM.", "TMEM.", "FS.")))
    yield Ob("C16.R5", ["C16", "C15"], f"{m.qual} | no storage effect", not bad,
             "creates or returns a handle only" if not bad else
             f"has storage effects {bad[:4]}: obtaining a handle (db.measurement(n).insert(p)) reads stored rows", m.loc())


# ---------------------------------------------------------------- every return of __hash__ hashes the compared identity
@rule("C17.R4", ["C17"], min_instances=2, design="3.17")
def hash_is_only_the_identity_hash(ctx):
    """`__hash__` of SimpleQuery/CompoundQuery returns `hash(self._hash)` on every path (a fallback such as the object's id gives equal queries different hashes)."""
    for cls in ("SimpleQuery", "CompoundQuery"):
        hs = ctx.prog.func(f"{cls}.__hash__", "C17.R4")
        rets = [r for r in walk_local(hs.node) if isinstance(r, ast.Return)]
        bad = [r for r in rets if norm(r.value) != "hash(self._hash)"]
        yield Ob("C17.R4", ["C17"], f"{hs.qual} | every return is hash(self._hash)", bool(rets) and not bad,
                 "hash(self._hash)" if rets and not bad else
                 f"`{norm(bad[0], 60) if bad else '?'}`: two queries that compare equal can get different hashes", hs.loc())


# ---------------------------------------------------------------- layering: handles belong to the storage classes
STORAGE_PRIVATE = ("_handle", "_temp_handle", "_memory", "_temp_memory", "_path", "_mode", "_flush_on_insert")


@rule("C04.R9", ["C04", "C16", "C12", "C15", "C13"], min_instances=1, design="3.4")
def handles_are_private_to_the_storage(ctx):
    """Nothing outside storages.py reads a storage's file handle, staging handle, memory lists, path or mode: every byte goes through the storage's own methods (which position, flush and truncate consistently)."""
    storages = set(ctx.prog.subclasses("Storage"))
    bad = []
    n_funcs = 0
    for f in ctx.prog.all_funcs():
        if f.module == "storages":
            continue
        n_funcs += 1
        for x in walk_local(f.node):
            if isinstance(x, ast.Attribute) and x.attr in STORAGE_PRIVATE and (
                    "_storage" in norm(x.value) or norm(x.value).endswith("storage") or ctx.res.type_of(x.value, f) in storages):
                bad.append((f, x))
            if isinstance(x, ast.Call) and norm(x.func) == "getattr" and len(x.args) >= 2 and const_value(x.args[1]) in STORAGE_PRIVATE \
                    and ("_storage" in norm(x.args[0]) or ctx.res.type_of(x.args[0], f) in storages):
                bad.append((f, x))
    if not bad:
        yield Ob("C04.R9", ["C04", "C16", "C12", "C15", "C13"], "package | storage internals used only inside storages.py", True,
                 f"{n_funcs} functions outside storages.py, none touches a handle / memory list / path / mode", "tinyflux/:0")
    for f, x in bad:
        yield Ob("C04.R9", ["C04", "C16", "C12", "C15", "C13"], f"{f.qual} | touches storage internals | {norm(x, 60)}{occ(f, x)}", False,
                 f"`{norm(x, 50)}` reaches into the storage object: file position, truncation and flushing are then decided outside "
                 f"the storage's own append/reset/swap protocol", ctx.prog.loc(x))


@rule("C15.R6", ["C15", "C13", "C12"], min_instances=3, design="3.15")
def temp_store_is_not_acquired_twice(ctx):
    """A method wrapped by temp_storage_op never calls another method wrapped by it: the inner acquisition overwrites the outer staging file's handle and the inner release leaves the outer file behind."""
    wrapped = [m for m in ctx.prog.methods_of("TinyFlux") if "temp_storage_op" in m.decorators]
    if len(wrapped) < 3:
        raise AnalysisError("C15.R6", f"expected >=3 temp_storage_op methods, found {len(wrapped)}")
    names_ = {m.name for m in wrapped}
    for m in wrapped:
        seen, todo, hit = set(), [m], None
        while todo and hit is None:
            g = todo.pop()
            if g.qual in seen:
                continue
            seen.add(g.qual)
            for c in walk_local(g.node):
                if isinstance(c, ast.Call) and isinstance(c.func, ast.Attribute) and is_self_attr(c.func):
                    if c.func.attr in names_:
                        hit = (g, c)
                        break
                    t = ctx.prog.lookup_method("TinyFlux", c.func.attr)
                    if t is not None and t.name.startswith("_"):
                        todo.append(t)
        yield Ob("C15.R6", ["C15", "C13", "C12"], f"{m.qual} | no nested temp_storage_op", hit is None,
                 "calls no other temp_storage_op method" if hit is None else
                 f"`{norm(hit[1], 50)}` (in {hit[0].name}) enters temp_storage_op again: two staging files are created and only the "
                 f"inner one is removed", m.loc())


@rule("C16.R6", ["C16", "C15", "C11", "C13"], min_instances=10, design="3.16")
def api_decorators_are_the_validated_ones(ctx):
    """Every public TinyFlux method carries exactly the gate decorators of the validated tree (known_functions.txt): an extra wrapper around an API runs code on every call / on its error path that no other rule attributes to that API."""
    from ..inline import INVENTORY
    want = {}
    try:
        with open(INVENTORY, encoding="utf-8") as fh:
            for l in fh:
                if l.startswith("deco "):
                    k, v = l[5:].strip().split("=", 1)
                    want[k] = [d for d in v.split(",") if d]
    except OSError:
        pass
    if len(want) < 10:
        raise AnalysisError("C16.R6", "decorator inventory missing (tools/make_inventory.py)")
    for m in ctx.prog.methods_of("TinyFlux"):
        k = f"TinyFlux.{m.name}"
        if k not in want:
            continue
        got = [d for d in m.decorators]
        ok = got == want[k]
        props = ["C16", "C15", "C11", "C13"] if m.name.startswith("insert") else ["C15", "C11", "C13"]
        yield Ob("C16.R6", props, f"{m.qual} | decorators", ok,
                 f"{got}" if ok else f"decorated with {got}, the validated tree has {want[k]}", m.loc())
