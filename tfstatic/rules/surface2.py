"""Second batch of API-surface rules (sixth round of independent changes: "a maintainer's plausible
improvement" -- caches, convenience validation, robustness shortcuts, logging, global registries)."""

from __future__ import annotations

import ast
from typing import Dict, List, Optional, Set

from ..astq import assignments_to, bind_args, call_name, kw, occ
from ..logic import guard_clauses, guards
from ..model import AnalysisError, Func, ancestors, const_value, NOCONST, is_self_attr, norm, walk_local
from ..report import Ob, rule

MUTATORS = ("add", "append", "update", "setdefault", "pop", "popitem", "clear", "extend", "insert", "remove", "discard",
            "__setitem__", "appendleft")


def _is_mutable_value(e: ast.AST) -> bool:
    if isinstance(e, (ast.Dict, ast.List, ast.Set, ast.DictComp, ast.ListComp, ast.SetComp)):
        return True
    return isinstance(e, ast.Call) and norm(e.func) in ("dict", "list", "set", "defaultdict", "collections.defaultdict",
                                                        "OrderedDict", "collections.OrderedDict", "deque", "collections.deque",
                                                        "WeakValueDictionary", "weakref.WeakValueDictionary")


@rule("C09.R8", ["C09", "C17", "C01", "C05", "C14", "C15", "C02", "C03", "C10"], min_instances=1, design="3.9")
def no_shared_mutable_state(ctx):
    """No module-level or class-level mutable container is mutated by the package's functions (a memo table, a registry, a class-attribute cache): such state is shared by every query / index / database object of the process."""
    shared: Dict[str, ast.AST] = {}
    for mod, (rel, src, tree) in ctx.prog.modules.items():
        for st in tree.body:
            if isinstance(st, (ast.Assign, ast.AnnAssign)) and getattr(st, "value", None) is not None and _is_mutable_value(st.value):
                for t in (st.targets if isinstance(st, ast.Assign) else [st.target]):
                    if isinstance(t, ast.Name) and t.id != "__all__":
                        shared[t.id] = st
            if isinstance(st, ast.ClassDef):
                for m in st.body:
                    if isinstance(m, (ast.Assign, ast.AnnAssign)) and getattr(m, "value", None) is not None and _is_mutable_value(m.value):
                        for t in (m.targets if isinstance(m, ast.Assign) else [m.target]):
                            if isinstance(t, ast.Name):
                                shared[f"{st.name}.{t.id}"] = m
    n_funcs = 0
    bad = []
    for f in ctx.prog.all_funcs():
        n_funcs += 1
        for x in walk_local(f.node):
            base = None
            if isinstance(x, ast.Call) and isinstance(x.func, ast.Attribute) and x.func.attr in MUTATORS:
                base = x.func.value
            elif isinstance(x, (ast.Subscript,)) and isinstance(x.ctx, (ast.Store, ast.Del)):
                base = x.value
            if base is None:
                continue
            key = None
            if isinstance(base, ast.Name) and base.id in shared and not any(
                    isinstance(y, ast.Name) and y.id == base.id and isinstance(y.ctx, ast.Store) for y in walk_local(f.node)):
                key = base.id
            if isinstance(base, ast.Attribute) and isinstance(base.value, ast.Name) and base.value.id in ("self", "cls") and f.cls:
                for cn in ctx.prog.mro(f.cls):
                    k2 = f"{cn}.{base.attr}"
                    if k2 in shared:
                        # a class-level container counts as shared unless every instance rebinds it in __init__
                        init = ctx.prog.lookup_method(f.cls, "__init__")
                        rebinds = init is not None and any(
                            isinstance(a, (ast.Assign, ast.AnnAssign)) and any(is_self_attr(t, base.attr) for t in (
                                a.targets if isinstance(a, ast.Assign) else [a.target])) for a in walk_local(init.node))
                        if not rebinds:
                            key = k2
            if isinstance(base, ast.Attribute) and isinstance(base.value, ast.Name) and f"{base.value.id}.{base.attr}" in shared:
                key = f"{base.value.id}.{base.attr}"
            if key is not None:
                bad.append((f, x, key))
    # ... nor handed to an instance as one of its own containers (a shared default: mutating one object's
    # tags/fields/positions then changes every object that got the same default)
    def _value_positions(e):
        yield e
        if isinstance(e, ast.IfExp):
            yield from _value_positions(e.body)
            yield from _value_positions(e.orelse)
        elif isinstance(e, ast.BoolOp):
            for v_ in e.values:
                yield from _value_positions(v_)
        elif isinstance(e, ast.NamedExpr):
            yield from _value_positions(e.value)
        elif isinstance(e, ast.Call) and isinstance(e.func, ast.Attribute) and e.func.attr in ("get", "pop", "setdefault") \
                and len(e.args) == 2:
            yield from _value_positions(e.args[1])
        elif isinstance(e, ast.Call) and isinstance(e.func, ast.Name) and e.func.id == "getattr" and len(e.args) == 3:
            yield from _value_positions(e.args[2])
    for f in ctx.prog.all_funcs():
        if not f.cls:
            continue
        for st in walk_local(f.node):
            if not (isinstance(st, (ast.Assign, ast.AnnAssign)) and getattr(st, "value", None) is not None):
                continue
            tg = [t for t in (st.targets if isinstance(st, ast.Assign) else [st.target]) if is_self_attr(t)]
            if not tg:
                continue
            for v_ in _value_positions(st.value):
                key = None
                if isinstance(v_, ast.Name) and v_.id in shared:
                    key = v_.id
                elif isinstance(v_, ast.Attribute) and isinstance(v_.value, ast.Name):
                    owners = ctx.prog.mro(f.cls) if v_.value.id in ("self", "cls") else [v_.value.id]
                    if v_.value.id == "self" and v_.attr == tg[0].attr:
                        continue
                    for cn in owners:
                        if f"{cn}.{v_.attr}" in shared:
                            # an instance attribute of the same name set in __init__ shadows the class-level one
                            init = ctx.prog.lookup_method(f.cls, "__init__")
                            shadow = v_.value.id == "self" and init is not None and any(
                                isinstance(a, (ast.Assign, ast.AnnAssign)) and any(is_self_attr(t, v_.attr) for t in (
                                    a.targets if isinstance(a, ast.Assign) else [a.target])) for a in walk_local(init.node))
                            if not shadow:
                                key = f"{cn}.{v_.attr}"
                if key is not None:
                    bad.append((f, st, key + " (bound to an instance attribute)"))
    if not bad:
        yield Ob("C09.R8", ["C09", "C17", "C01", "C05", "C14", "C15", "C02", "C03", "C10"], "package | no shared mutable state", True,
                 f"{n_funcs} functions, {len(shared)} module/class-level containers, none is mutated", "tinyflux/:0")
    for f, x, key in bad:
        yield Ob("C09.R8", ["C09", "C17", "C01", "C05", "C14", "C15", "C02", "C03", "C10"], f"{f.qual} | mutates shared container {key}{occ(f, x)}",
                 False, f"`{norm(x, 60)}` writes the process-wide container `{key}`: what one query / index / database stored there "
                 f"is served to another", ctx.prog.loc(x))
    GLOBAL_MUTATORS = ("csv.register_dialect", "csv.unregister_dialect", "csv.field_size_limit", "locale.setlocale",
                       "atexit.register", "warnings.filterwarnings", "warnings.simplefilter", "os.environ.setdefault",
                       "os.putenv", "os.chdir", "os.umask", "sys.setrecursionlimit", "tempfile.tempdir")
    hits = [(f, c) for f in ctx.prog.all_funcs() for c in walk_local(f.node) if isinstance(c, ast.Call) and norm(c.func) in GLOBAL_MUTATORS]
    yield Ob("C09.R8", ["C05", "C04", "C15"], "package | no process-global registry is modified", not hits,
             "no csv/locale/atexit/os-level registration" if not hits else
             f"{hits[0][0].qual}: `{norm(hits[0][1], 60)}` changes process-global state that other database objects read",
             ctx.prog.loc(hits[0][1]) if hits else "tinyflux/:0")


@rule("C03.R8", ["C03", "C15", "C11"], min_instances=1, design="3.3")
def point_has_default_copy_semantics(ctx):
    """Point defines no custom copy protocol: the updater's `copy.deepcopy(point)` snapshot must not share the tag/field mappings with the point it is compared with."""
    pc = ctx.prog.cls("Point", "C03.R8")
    bad = [m for m in ("__deepcopy__", "__copy__", "__reduce__", "__reduce_ex__", "__getstate__", "__setstate__") if m in pc.methods]
    yield Ob("C03.R8", ["C03", "C15", "C11"], "Point | no custom copy protocol", not bad,
             "deepcopy copies time, measurement, tags and fields" if not bad else
             f"Point.{bad[0]} decides what a snapshot shares with the original: a merge into a shared mapping is invisible to "
             f"`point != old_point`", f"tinyflux/point.py:{pc.node.lineno}")


@rule("C04.R10", ["C04", "C05", "C11", "C16", "C12"], min_instances=2, design="3.4")
def storage_files_are_opened_plainly(ctx):
    """Storage files are opened with mode / encoding / newline (and the temp file's delete/dir/prefix/suffix) only -- no `errors=` handler that silently replaces characters, no unbuffered or binary layer -- and `create_file` never opens a path for truncation."""
    from .storage_io import csv_cls, handle_ctors
    cls = csv_cls(ctx)
    n = 0
    for f, c, role in handle_ctors(ctx, cls):
        n += 1
        allowed = {"mode", "encoding", "newline"} | ({"delete", "dir", "prefix", "suffix"} if role == "TEMP" else set())
        extra = sorted(k.arg for k in c.keywords if k.arg is not None and k.arg not in allowed)
        yield Ob("C04.R10", ["C04", "C05", "C11"], f"{f.qual} | open options of the {role.lower()} file{occ(f, c)}", not extra,
                 "mode/encoding/newline only" if not extra else
                 f"`{norm(c, 60)}` passes {extra}: with errors=replace/ignore a character the encoding cannot represent is "
                 f"written as something else instead of being refused", ctx.prog.loc(c))
    cf = ctx.prog.funcs.get("create_file")
    if cf is not None:
        opens = [c for c in walk_local(cf.node) if isinstance(c, ast.Call) and norm(c.func) == "open"]
        for c in opens:
            n += 1
            me = kw(c, "mode") or (c.args[1] if len(c.args) > 1 else None)
            vals = [me]
            if isinstance(me, ast.Name):
                vals = assignments_to(cf, me.id)
            if isinstance(me, ast.IfExp):
                vals = [me.body, me.orelse]
            modes = [const_value(v) for v in vals if v is not None]
            ok = bool(modes) and all(isinstance(m_, str) and m_[:1] in ("a", "x") for m_ in modes)
            yield Ob("C04.R10", ["C16", "C15", "C04", "C12"], f"{cf.qual} | never truncates an existing file{occ(cf, c)}", ok,
                     f"opens with {modes}" if ok else
                     f"`{norm(c, 50)}` can open the path with mode {modes}: re-opening an existing database empties it", ctx.prog.loc(c))
    # the binary / raw layer of a text handle is never used
    for f in ctx.prog.methods_of(cls):
        for x in walk_local(f.node):
            if isinstance(x, ast.Attribute) and x.attr in ("buffer", "raw", "detach") and (
                    "_handle" in norm(x.value) or norm(x.value) in ("handle",)):
                n += 1
                yield Ob("C04.R10", ["C16", "C04", "C12"], f"{f.qual} | text layer only | {norm(x, 50)}{occ(f, x)}", False,
                         f"`{norm(x, 50)}` goes below the text layer: the TextIOWrapper's pending write buffer and position are "
                         f"bypassed, so the next flush lands at the wrong offset", ctx.prog.loc(x))
    if n < 2:
        raise AnalysisError("C04.R10", "storage handle constructors not found")


@rule("C10.R9", ["C10", "C07", "C01"], min_instances=8, design="3.10")
def facade_does_not_consume_its_arguments(ctx):
    """A Measurement method hands its arguments to the database method untouched: it does not iterate them first (a one-shot iterator would arrive exhausted) and does not test or convert them."""
    n = 0
    for m in ctx.prog.methods_of("Measurement"):
        if m.name.startswith("__"):
            continue
        fwd = [c for c in walk_local(m.node) if isinstance(c, ast.Call) and isinstance(c.func, ast.Attribute)
               and norm(c.func.value) in ("self._db", "self.db")]
        if not fwd:
            continue
        params = [p for p in m.params() if p != "self"]
        passed = {x.id for c in fwd for a in list(c.args) + [k.value for k in c.keywords] for x in ast.walk(a)
                  if isinstance(x, ast.Name)}
        n += 1
        bad = []
        for x in walk_local(m.node):
            consumer = None
            if isinstance(x, (ast.For, ast.comprehension)):
                consumer = x.iter
            elif isinstance(x, ast.Call) and norm(x.func) in ("all", "any", "list", "tuple", "set", "sorted", "len", "next", "iter",
                                                               "sum", "min", "max", "enumerate", "zip", "map", "filter") and x.args:
                consumer = x.args[0]
            if consumer is not None:
                for y in ast.walk(consumer):
                    if isinstance(y, ast.Name) and y.id in params and y.id in passed:
                        bad.append((x, y.id))
        yield Ob("C10.R9", ["C10", "C07", "C01"], f"{m.qual} | arguments forwarded unconsumed", not bad,
                 "no parameter is iterated before it is forwarded" if not bad else
                 f"`{norm(bad[0][0], 60)}` iterates `{bad[0][1]}` before it is handed to the database method: a generator / map "
                 f"object arrives exhausted, and the handle answers differently from the database", m.loc())
    if n < 8:
        raise AnalysisError("C10.R9", f"expected >=8 forwarding Measurement methods, found {n}")


@rule("C11.R7", ["C11", "C02", "C10"], min_instances=1, design="3.11")
def registry_delete_is_guarded_by_a_fresh_test(ctx):
    """`del self._measurements[name]` is directly guarded by `name in self._measurements` (a membership remembered from before the removal is stale: the reset shortcut clears the registry)."""
    dm = ctx.prog.func("TinyFlux.drop_measurement", "C11.R7")
    dels = [d for d in walk_local(dm.node) if isinstance(d, ast.Delete) and any(
        isinstance(t, ast.Subscript) and is_self_attr(t.value, "_measurements") for t in d.targets)]
    pops = [c for c in walk_local(dm.node) if isinstance(c, ast.Call) and isinstance(c.func, ast.Attribute) and c.func.attr == "pop"
            and is_self_attr(c.func.value, "_measurements")]
    if not dels and not pops:
        yield Ob("C11.R7", ["C11"], f"{dm.qual} | registry entry removal", True, "no `del` of a registry entry (pop with default or none)",
                 dm.loc(), nontrivial=False)
    for d in dels:
        key = norm(d.targets[0].slice)
        cl = guard_clauses(guards(d))
        ok = any(len(c) == 1 and next(iter(c)) == (f"in({key},self._measurements)", True) for c in cl)
        yield Ob("C11.R7", ["C11", "C02", "C10"], f"{dm.qual} | registry delete guarded by a fresh membership test", ok,
                 "guarded by `name in self._measurements`" if ok else
                 f"`{norm(d)}` runs under {sorted(map(sorted, cl))}: if the removal took the reset shortcut the entry is already "
                 f"gone and the call raises KeyError after the rows were deleted", ctx.prog.loc(d))
    for c in pops:
        ok = len(c.args) >= 2
        yield Ob("C11.R7", ["C11", "C02", "C10"], f"{dm.qual} | registry pop has a default", ok,
                 "pop(name, default)" if ok else "pop(name) raises KeyError when the entry is already gone", ctx.prog.loc(c))


@rule("C13.R6", ["C13", "C07", "C01"], min_instances=2, design="3.13")
def reads_never_answer_empty_on_a_state_flag(ctx):
    """No read path returns early (an empty answer) because a handle is closed or the database was marked closed: after a failed swap/close that turns a reported error into silently wrong answers."""
    from .storage_io import csv_cls
    cls = csv_cls(ctx)
    targets = [ctx.prog.func(f"{cls}.__iter__", "C13.R6"), ctx.prog.func("TinyFlux.__iter__", "C13.R6")]
    for q in (f"{cls}.__len__", f"{cls}.read", "TinyFlux.__len__", "TinyFlux.all"):
        if ctx.prog.has_func(q):
            targets.append(ctx.prog.func(q))
    for f in targets:
        bad = []
        for r in walk_local(f.node):
            if isinstance(r, ast.Return):
                cl = guard_clauses(guards(r))
                atoms = {a for c in cl for a, _ in c}
                if any(".closed" in a or "_open" in a or "self._closed" in a for a in atoms):
                    bad.append(r)
        yield Ob("C13.R6", ["C13", "C07", "C01"], f"{f.qual} | no early answer on a closed/open flag", not bad,
                 "reads the storage (and fails if it cannot)" if not bad else
                 f"`{norm(bad[0], 40)}` answers without reading when a state flag says closed: stored rows are reported as absent "
                 f"instead of raising", f.loc())


@rule("C16.R7", ["C16", "C15"], min_instances=1, design="3.16")
def storage_objects_have_cheap_representations(ctx):
    """`__repr__` / `__str__` / `__format__` of the storage classes perform no storage I/O (a debug log line or an f-string in an error message would otherwise scan the file on every insert)."""
    from .storage_io import csv_cls, mem_cls
    n = 0
    for cls in (csv_cls(ctx), mem_cls(ctx), "Storage"):
        for nm in ("__repr__", "__str__", "__format__"):
            m = ctx.prog.classes[cls].methods.get(nm) if cls in ctx.prog.classes else None
            if m is None:
                continue
            n += 1
            fx = {e for e, ch in ctx.eff.api_summary(m, cls if cls != "Storage" else csv_cls(ctx))}
            bad = sorted(e for e in fx if e.startswith(("PRIMARY.", "TEMP.", "FS.")))
            yield Ob("C16.R7", ["C16", "C15"], f"{cls}.{nm} | no storage I/O", not bad,
                     "formats attributes only" if not bad else f"has effects {bad[:3]}: formatting the storage object reads the file",
                     m.loc())
    if n == 0:
        yield Ob("C16.R7", ["C16"], "storages | representations", True, "the storage classes define no __repr__/__str__ (object default)",
                 "tinyflux/storages.py:0", nontrivial=False)


@rule("C17.R5", ["C17", "C09"], min_instances=2, design="3.17")
def query_constructors_keep_their_arguments(ctx):
    """`SimpleQuery.__init__` / `CompoundQuery.__init__` never rebind a parameter: the identity (`hashval`) and the components are stored as given."""
    for cls in ("SimpleQuery", "CompoundQuery"):
        init = ctx.prog.func(f"{cls}.__init__", "C17.R5")
        params = set(init.params()) - {"self"}
        reb = [x for x in walk_local(init.node) if isinstance(x, ast.Name) and isinstance(x.ctx, (ast.Store, ast.Del)) and x.id in params]
        yield Ob("C17.R5", ["C17", "C09"], f"{init.qual} | parameters are not rebound", not reb,
                 "stored as given" if not reb else
                 f"`{norm(getattr(reb[0], '_parent', reb[0]), 60)}` rewrites `{reb[0].id}` before it is stored: the identity no longer "
                 f"describes the operands (e.g. a dropped noop operand makes `a | noop()` equal to `a | a`)", init.loc())


@rule("C14.R6", ["C14"], min_instances=2, design="3.14")
def validators_do_not_validate_by_conversion(ctx):
    """validate_tags / validate_fields decide by `isinstance`, never by trying a conversion (`float(v)` accepts numeric-looking strings and bytes)."""
    for name in ("validate_tags", "validate_fields"):
        f = ctx.prog.func(name, "C14.R6")
        m = f.params()[0]
        tries = [t for t in walk_local(f.node) if isinstance(t, ast.Try)]
        convs = [c for c in walk_local(f.node) if isinstance(c, ast.Call) and norm(c.func) in ("float", "int", "str", "complex", "Decimal", "Fraction")
                 and any(isinstance(p_, ast.Try) for p_ in ancestors(c))]
        bad = convs or tries
        yield Ob("C14.R6", ["C14"], f"{name} | type tests, not conversions", not bad,
                 "isinstance tests only" if not bad else
                 f"`{norm(bad[0], 50)}`: a value is accepted because it *converts*, so strings/bytes that look like numbers are stored",
                 f.loc())


@rule("C02.R8", ["C02", "C03", "C04", "C05", "C01", "C07"], min_instances=10, design="3.2")
def storage_is_iterated_verbatim(ctx):
    """Every loop of the database over its storage iterates `self._storage` itself (optionally enumerated): rows are not mapped, filtered or padded on their way into the loop -- what is staged for a rewrite is exactly what was read."""
    n = 0
    for f in ctx.prog.all_funcs():
        if f.module not in ("database", "measurement"):
            continue
        for lp in walk_local(f.node):
            its = []
            if isinstance(lp, ast.For):
                its = [lp.iter]
            elif isinstance(lp, (ast.ListComp, ast.SetComp, ast.DictComp, ast.GeneratorExp)):
                its = [g.iter for g in lp.generators]
            for it in its:
                if not any(isinstance(x, ast.Attribute) and x.attr in ("_storage", "storage") for x in ast.walk(it)):
                    continue
                if any(isinstance(x, ast.Call) and call_name(x) in ("read", "_deserialize_storage_item", "_deserialize_measurement",
                                                                     "_deserialize_timestamp") for x in ast.walk(it)):
                    continue
                n += 1
                t = norm(it)
                ok = t in ("self._storage", "enumerate(self._storage)", "self._db._storage", "enumerate(self._db._storage)",
                           "self.storage", "self._db.storage", "iter(self._storage)")
                yield Ob("C02.R8", ["C02", "C03", "C04", "C05", "C01", "C07"], f"{f.qual} | storage iterated verbatim | {norm(it, 60)}{occ(f, lp)}", ok,
                         "iterates the storage rows as stored" if ok else
                         f"iterates `{norm(it, 60)}`: rows are transformed or filtered before the loop (and a rewrite) sees them",
                         ctx.prog.loc(lp))
    if n < 10:
        raise AnalysisError("C02.R8", f"expected >=10 storage loops in database.py, found {n}")


@rule("C14.R7", ["C14", "C05", "C01"], min_instances=4, design="3.14")
def constructor_slots_come_from_their_own_keyword(ctx):
    """Every store into a Point slot inside `Point.__init__` takes the value of the keyword of the same name (or a default): validation is by keyword name, so a positional unpacking of `kwargs.values()` or a crossed keyword stores a value that was validated for another slot."""
    init = ctx.prog.func("Point.__init__", "C14.R7")
    slots = {"_time": "time", "_measurement": "measurement", "_tags": "tags", "_fields": "fields"}
    kwn = init.node.args.kwarg.arg if init.node.args.kwarg else "kwargs"
    n = 0

    def ok_value(v: ast.AST, key: str) -> bool:
        if isinstance(v, ast.Call) and isinstance(v.func, ast.Attribute) and v.func.attr in ("get", "pop") \
                and norm(v.func.value) == kwn and v.args:
            return const_value(v.args[0]) == key
        if isinstance(v, ast.Subscript) and norm(v.value) == kwn:
            return const_value(v.slice) == key
        if isinstance(v, ast.IfExp):
            return ok_value(v.body, key) and ok_value(v.orelse, key)
        # anything that does not read the keyword mapping is a default
        return not any(isinstance(x, ast.Name) and x.id == kwn for x in ast.walk(v))
    for st in walk_local(init.node):
        if not isinstance(st, (ast.Assign, ast.AnnAssign)) or getattr(st, "value", None) is None:
            continue
        for t in (st.targets if isinstance(st, ast.Assign) else [st.target]):
            pairs = []
            if is_self_attr(t) and t.attr in slots:
                pairs = [(t, st.value)]
            elif isinstance(t, (ast.Tuple, ast.List)) and any(is_self_attr(e) and e.attr in slots for e in t.elts):
                if isinstance(st.value, (ast.Tuple, ast.List)) and len(st.value.elts) == len(t.elts):
                    pairs = [(e, v) for e, v in zip(t.elts, st.value.elts) if is_self_attr(e) and e.attr in slots]
                else:
                    pairs = [(e, None) for e in t.elts if is_self_attr(e) and e.attr in slots]
            for e, v in pairs:
                n += 1
                good = v is not None and ok_value(v, slots[e.attr])
                yield Ob("C14.R7", ["C14", "C05", "C01"], f"{init.qual} | slot {e.attr} | {norm(st, 70)}{occ(init, st)}", good,
                         f"takes keyword '{slots[e.attr]}' or a default" if good else
                         (f"`{norm(st, 70)}` fills {e.attr} by position from `{norm(st.value, 40)}`: which value lands in which slot depends "
                          f"on the order the keywords were written, not on their names" if v is None else
                          f"`{norm(v, 50)}` is not the keyword '{slots[e.attr]}': the stored value was validated for another slot"),
                         ctx.prog.loc(st))
    if n < 4:
        raise AnalysisError("C14.R7", f"expected >=4 slot stores in Point.__init__, found {n}")


PATH_PROBES = ("os.path.exists", "os.path.isfile", "os.path.isdir", "os.path.lexists", "os.path.islink", "os.access")


@rule("C13.R7", ["C13", "C06", "C01", "C07"], min_instances=1, design="3.13")
def emptiness_is_not_decided_by_error_swallowing_probes(ctx):
    """Whether the storage already holds data (`_initially_empty`, which lets the database skip the first index build) is decided through the open handle, never through `os.path.exists`-style probes: those answer False on *any* stat error, so a failed I/O call would be reported as "no data" instead of reaching the caller."""
    n = 0
    for f in ctx.prog.all_funcs():
        if f.module != "storages":
            continue
        for st in walk_local(f.node):
            if not (isinstance(st, ast.Assign) and any(is_self_attr(t, "_initially_empty") for t in st.targets)):
                continue
            n += 1
            # def-use closure of everything the store depends on (value, guards, and their definitions)
            def _gexprs(node):
                out_ = []
                for c_, _pol in guards(node):
                    out_.append(c_ if isinstance(c_, ast.AST) else getattr(c_, "stmt", None))
                return [e_ for e_ in out_ if isinstance(e_, ast.AST)]
            exprs = [st.value] + _gexprs(st)
            seen_names = set()
            work = [x.id for e in exprs for x in ast.walk(e) if isinstance(x, ast.Name)]
            while work:
                nm = work.pop()
                if nm in seen_names:
                    continue
                seen_names.add(nm)
                for a in walk_local(f.node):
                    if isinstance(a, ast.Assign) and any(isinstance(t, ast.Name) and t.id == nm for t in a.targets):
                        more = [a.value] + _gexprs(a)
                        exprs.extend(more)
                        work.extend(x.id for e in more for x in ast.walk(e) if isinstance(x, ast.Name))
            probes = [c for e in exprs for c in ast.walk(e) if isinstance(c, ast.Call) and norm(c.func) in PATH_PROBES]
            yield Ob("C13.R7", ["C13", "C06", "C01", "C07"], f"{f.qual} | {norm(st, 50)}{occ(f, st)}", not probes,
                     "decided through the handle / constants" if not probes else
                     f"depends on `{norm(probes[0], 50)}`, which turns a failing stat into `absent`: the I/O error never reaches the caller and "
                     f"a non-empty file is taken for empty (valid index over nothing)", ctx.prog.loc(st))
    if n == 0:
        raise AnalysisError("C13.R7", "no store of _initially_empty found in storages.py")
