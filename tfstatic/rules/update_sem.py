"""Merge semantics of update (C03.R3, C03.R5), validation dominance (C14.R1,
C14.R3) and UTC normalisation before the tz-stripping serialiser (C08.R1)."""

from __future__ import annotations

import ast
from typing import Dict, List, Optional, Set, Tuple

from ..astq import assignments_to, bind_args, call_name, names_in, occ, stmt_of, in_subtree
from ..logic import entails, guard_clauses, guards
from ..model import AnalysisError, Func, ancestors, first_line, is_self_attr, norm, walk_local, parent
from ..report import Ob, rule

SLOTS = ("time", "measurement", "tags", "fields")
DICT_SLOTS = ("tags", "fields")


def updater(ctx) -> Tuple[Func, Func]:
    gen = ctx.prog.func("TinyFlux._generate_updater", "C03.R3")
    inner = [g for g in ctx.prog.nested(gen) if not isinstance(g.node, ast.Lambda)]
    ret = None
    for n in walk_local(gen.node):
        if isinstance(n, ast.Return) and isinstance(n.value, ast.Name):
            for g in inner:
                if g.name == n.value.id:
                    ret = g
    if ret is None:
        raise AnalysisError("C03.R3", "_generate_updater does not return a nested function")
    return gen, ret


def slot_writes(pu: Func, pt: str):
    """(slot, kind, node) for every write to point.<slot> in the updater."""
    out = []
    for n in walk_local(pu.node):
        if isinstance(n, (ast.Assign, ast.AugAssign, ast.AnnAssign, ast.Delete)):
            ts = n.targets if isinstance(n, (ast.Assign, ast.Delete)) else [n.target]
            for t in ts:
                base = t
                sub = False
                while isinstance(base, ast.Subscript):
                    base = base.value
                    sub = True
                if isinstance(base, ast.Attribute) and isinstance(base.value, ast.Name) and base.value.id == pt:
                    slot = base.attr.lstrip("_")
                    if slot in SLOTS:
                        raw = base.attr.startswith("_")
                        kind = ("subscript" if sub else "assign") + ("-raw" if raw else "")
                        if isinstance(n, ast.Delete):
                            kind = "del" if sub else "del-attr"
                        out.append((slot, kind, n))
        elif isinstance(n, ast.Call) and isinstance(n.func, ast.Attribute):
            recv = n.func.value
            if isinstance(recv, ast.Attribute) and isinstance(recv.value, ast.Name) and recv.value.id == pt:
                slot = recv.attr.lstrip("_")
                if slot in SLOTS and n.func.attr in ("update", "pop", "clear", "popitem", "setdefault", "__setitem__",
                                                    "__delitem__"):
                    out.append((slot, n.func.attr, n))
    return out


def _guard_lits(node: ast.AST) -> Set[Tuple[str, bool]]:
    return {next(iter(c)) for c in guard_clauses(guards(node)) if len(c) == 1}


@rule("C03.R3", ["C03", "C15", "C05"], min_instances=6, design="3.3")
def merge_semantics(ctx):
    """time/measurement are replaced through the setter; tags/fields are merged with dict.update and unset with pop; no merge after an unset; the change verdict compares against a deep copy taken first."""
    gen, pu = updater(ctx)
    pt = pu.params()[0]
    writes = slot_writes(pu, pt)
    g = ctx.cfg(pu, exceptional=False)
    by_slot: Dict[str, list] = {}
    for slot, kind, n in writes:
        by_slot.setdefault(slot, []).append((kind, n))
    for slot in SLOTS:
        ws = by_slot.get(slot, [])
        bad = []
        if slot in ("time", "measurement"):
            ws = [(k, n) for k, n in ws if not (k == "assign" and _utc_normalised(n.value, pu)
                                                 and norm(n.value).startswith(f"{pt}.{slot}."))]
            for kind, n in ws:
                if kind != "assign":
                    bad.append(f"`{norm(n, 60)}` is not an assignment through the property setter")
                    continue
                lits = _guard_lits(n)
                if (f"truthy({slot})", True) not in lits:
                    bad.append(f"`{norm(n, 60)}` is not conditional on the `{slot}` argument being given")
                v = n.value
                if (f"truthy(callable({slot}))", True) in lits:
                    if not (isinstance(v, ast.Call) and isinstance(v.func, ast.Name) and v.func.id == slot and v.args):
                        bad.append(f"callable branch stores `{norm(v, 40)}`, not {slot}(<old {slot}>)")
                    else:
                        a = v.args[0]
                        srcs = assignments_to(pu, a.id) if isinstance(a, ast.Name) else [a]
                        if not all(norm(s) == f"{pt}.{slot}" for s in srcs) or not srcs:
                            bad.append(f"callable receives `{norm(a)}`, not the point's current {slot}")
                elif (f"truthy(callable({slot}))", False) in lits:
                    if not (isinstance(v, ast.Name) and v.id == slot):
                        bad.append(f"static branch stores `{norm(v, 40)}`, not the `{slot}` argument")
                else:
                    bad.append(f"`{norm(n, 60)}` is not under a callable/static dispatch on `{slot}`")
            kinds = sorted(k for k, _ in ws)
            if kinds != ["assign", "assign"] and not bad:
                bad.append(f"expected one store per dispatch branch (callable/static), found {len(ws)}")
        else:
            merges = [(k, n) for k, n in ws if k == "update"]
            unsets = [(k, n) for k, n in ws if k in ("pop", "del")]
            other = [(k, n) for k, n in ws if k not in ("update", "pop", "del")]
            for k, n in other:
                bad.append(f"`{norm(n, 60)}` ({k}) replaces or clears the {slot} mapping; the documented semantics "
                           f"is a key-by-key merge")
            if len(merges) != 2:
                bad.append(f"expected 2 merges of {slot} (callable/static), found {len(merges)}")
            for k, n in merges:
                lits = _guard_lits(n)
                if (f"truthy({slot})", True) not in lits:
                    bad.append(f"merge `{norm(n, 50)}` is not conditional on `{slot}` being given")
                a = n.args[0] if n.args else None
                if (f"truthy(callable({slot}))", True) in lits:
                    src = a
                    if isinstance(a, ast.Name):
                        vs = assignments_to(pu, a.id)
                        src = vs[0] if len(vs) == 1 else a
                    if not (isinstance(src, ast.Call) and isinstance(src.func, ast.Name) and src.func.id == slot):
                        bad.append(f"callable branch merges `{norm(a)}`, not the result of {slot}(<old {slot}>)")
                    elif src.args:
                        o = src.args[0]
                        osrc = assignments_to(pu, o.id) if isinstance(o, ast.Name) else [o]
                        if not osrc or not all(f"{pt}.{slot}" in norm(s) for s in osrc):
                            bad.append(f"callable receives `{norm(o)}`, which is not derived from the point's {slot}")
                elif (f"truthy(callable({slot}))", False) in lits:
                    if not (isinstance(a, ast.Name) and a.id == slot):
                        bad.append(f"static branch merges `{norm(a)}`, not the `{slot}` argument")
                else:
                    bad.append(f"merge `{norm(n, 50)}` is not under a callable/static dispatch on `{slot}`")
            uparam = f"unset_{slot}"
            if not unsets:
                bad.append(f"no removal of {uparam} keys")
            for k, n in unsets:
                lits = _guard_lits(n)
                if (f"truthy({uparam})", True) not in lits:
                    bad.append(f"`{norm(n, 50)}` is not conditional on `{uparam}`")
                if k == "pop" and len(n.args) < 2:
                    bad.append(f"`{norm(n, 50)}` raises KeyError when the key is absent")
                if k == "pop" and n.args:
                    key = n.args[0]
                    if (f"truthy(isinstance({uparam}, str))", True) in lits:
                        if norm(key) != uparam:
                            bad.append(f"string branch pops `{norm(key)}`, not {uparam}")
                    else:
                        lp = None
                        for a_ in ancestors(n):
                            if isinstance(a_, ast.For):
                                lp = a_
                                break
                        if lp is None or norm(lp.iter) != uparam or norm(lp.target) != norm(key):
                            bad.append(f"iterable branch does not pop each element of {uparam}")
            # (c) no merge reachable after an unset of the same slot
            for _, un in unsets:
                uid = g.ids_of(stmt_of(un))
                reach = g.reachable(uid)
                for _, m in merges:
                    if any(i in reach for i in g.ids_of(stmt_of(m))):
                        bad.append(f"merge `{norm(m, 40)}` can run after `{norm(un, 40)}`: a key set and unset by "
                                   f"one call would survive")
        yield Ob("C03.R3", ["C03"], f"{pu.qual} | slot {slot}", not bad,
                 "; ".join(bad[:4]) if bad else
                 ("replaced through the validating setter, callable and static alike" if slot in ("time", "measurement")
                  else "merged with dict.update, unset with pop(key, None) after the merge"), pu.loc())
    # (e) change verdict
    rets = [n for n in walk_local(pu.node) if isinstance(n, ast.Return)]
    bad = []
    snap = None
    for r in rets:
        v = r.value
        neq = None
        if isinstance(v, ast.Compare) and len(v.ops) == 1 and isinstance(v.ops[0], ast.NotEq):
            neq = (v.left, v.comparators[0])
        elif isinstance(v, ast.UnaryOp) and isinstance(v.op, ast.Not) and isinstance(v.operand, ast.Compare) \
                and isinstance(v.operand.ops[0], ast.Eq):
            neq = (v.operand.left, v.operand.comparators[0])
        if neq is None:
            bad.append(f"`{norm(r)}` is not an inequality between the point and its snapshot")
            continue
        names = [norm(x) for x in neq]
        if pt not in names:
            bad.append(f"`{norm(r)}` does not compare the updated point")
            continue
        other = [x for x in neq if norm(x) != pt][0]
        if not isinstance(other, ast.Name):
            bad.append(f"`{norm(r)}` compares against `{norm(other)}`")
            continue
        vals = assignments_to(pu, other.id)
        if len(vals) != 1 or norm(vals[0]) not in (f"copy.deepcopy({pt})", f"deepcopy({pt})"):
            bad.append(f"snapshot `{other.id}` is `{norm(vals[0]) if vals else '?'}`, not copy.deepcopy({pt}) "
                       f"(an alias or shallow copy makes the verdict wrong)")
            continue
        snap = stmt_of(vals[0])
    if not rets:
        bad.append("updater returns nothing")
    if snap is not None:
        sid = set(g.ids_of(snap))
        for slot, kind, n in writes:
            for i in g.ids_of(stmt_of(n)):
                if not g.dominated(i, lambda x: x.id in sid):
                    bad.append(f"mutation `{norm(n, 40)}` is not dominated by the snapshot")
    yield Ob("C03.R3", ["C03", "C15"], f"{pu.qual} | change verdict", not bad,
             "; ".join(bad[:3]) if bad else "returns point != deepcopy taken before every mutation", pu.loc())
    # Point.__eq__ compares all four slots (the verdict and C01 rely on it)
    eq = ctx.prog.func("Point.__eq__", "C03.R3")
    cmp = set()
    for n in walk_local(eq.node):
        if isinstance(n, ast.Compare) and isinstance(n.ops[0], ast.Eq) and isinstance(n.left, ast.Attribute) \
                and isinstance(n.comparators[0], ast.Attribute) and n.left.attr == n.comparators[0].attr:
            cmp.add(n.left.attr.lstrip("_"))
    ok = cmp >= set(SLOTS)
    yield Ob("C03.R3", ["C03", "C05", "C15"], f"{eq.qual} | compares every slot", ok,
             f"compares {sorted(cmp)}" if ok else f"compares only {sorted(cmp)}", eq.loc())


@rule("C03.R5", ["C03", "C10"], min_instances=3, design="3.3")
def update_forwarding(ctx):
    """update/update_all/_update_helper pass every argument to the parameter of the same name."""
    uh = ctx.prog.func("TinyFlux._update_helper", "C03.R5")
    gen = ctx.prog.func("TinyFlux._generate_updater", "C03.R5")
    for q, target, fixed in (
        ("TinyFlux.update", uh, {"update_all": "False"}),
        ("TinyFlux.update_all", uh, {"update_all": "True", "_measurement": "None"}),
        ("TinyFlux._update_helper", gen, {}),
    ):
        f = ctx.prog.func(q, "C03.R5")
        calls = [n for n in walk_local(f.node) if isinstance(n, ast.Call) and isinstance(n.func, ast.Attribute)
                 and is_self_attr(n.func) and n.func.attr == target.name]
        if len(calls) != 1:
            raise AnalysisError("C03.R5", f"{q}: expected one call of {target.name}, found {len(calls)}")
        c = calls[0]
        bound, problems = bind_args(c, target)
        bad = list(problems)
        fparams = set(f.params()) - {"self"}
        for p_, a in bound.items():
            if isinstance(a, ast.Name) and a.id in fparams and a.id != p_:
                bad.append(f"argument `{a.id}` lands on parameter `{p_}`")
        for p_ in target.params()[1:]:
            if p_ in fparams and p_ not in fixed:
                a = bound.get(p_)
                if a is None:
                    bad.append(f"parameter `{p_}` is not forwarded")
                elif not (isinstance(a, ast.Name) and a.id == p_):
                    bad.append(f"parameter `{p_}` receives `{norm(a)}`")
        for p_, want in fixed.items():
            a = bound.get(p_)
            if p_ == "_measurement" and q == "TinyFlux.update":
                continue
            if a is None or norm(a) != want:
                bad.append(f"parameter `{p_}` receives `{norm(a) if a is not None else 'nothing'}`, expected {want}")
        if q == "TinyFlux.update_all":
            a = bound.get("query")
            if isinstance(a, ast.Name):
                vals_ = assignments_to(f, a.id)
                if len(vals_) == 1:
                    a = vals_[0]
            if a is None or not norm(a).endswith(".noop()"):
                bad.append(f"update_all passes `{norm(a) if a is not None else 'nothing'}` as query, expected a noop query")
        yield Ob("C03.R5", ["C03", "C10"], f"{q} | forwards to {target.name}", not bad,
                 "; ".join(bad) if bad else f"{len(bound)} arguments bound to same-named parameters", ctx.prog.loc(c))


# ------------------------------------------------------------------ C14.R1
def _validator_for(slot: str) -> str:
    return {"tags": "validate_tags", "fields": "validate_fields"}[slot]


def _validated_names(ctx, f: Func, slot: str) -> List[Tuple[str, ast.Call, Func]]:
    out = []
    g: Optional[Func] = f
    while g is not None:
        for n in walk_local(g.node):
            if isinstance(n, ast.Call) and isinstance(n.func, ast.Name) and n.func.id == _validator_for(slot) \
                    and n.args and isinstance(n.args[0], ast.Name):
                out.append((n.args[0].id, n, g))
        g = g.parent
    return out


@rule("C14.R1", ["C14", "C03", "C11"], min_instances=12, design="3.14")
def validation_dominates_stores(ctx):
    """Every store into a Point slot is validated: through the validating setter, by a dominating validate_* call on the stored name, or it comes from the deserialiser."""
    pc = ctx.prog.cls("Point", "C14.R1")
    # (1) constructor
    init = pc.methods["__init__"]
    g = ctx.cfg(init, exceptional=False)
    vals = [n for n in g.stmt_nodes() for c in n.calls() if call_name(c) == "_validate_kwargs"]
    vid = {n.id for n in vals}
    for n in walk_local(init.node):
        if isinstance(n, ast.Assign) and any(is_self_attr(t) and t.attr.lstrip("_") in SLOTS for t in n.targets):
            src = n.value
            user = any(isinstance(x, ast.Name) and x.id in ("kwargs", "args") for x in ast.walk(src))
            ok = True
            if user:
                ok = bool(vid) and all(g.dominated(i, lambda x: x.id in vid) for i in g.ids_of(n))
                if not ok and vid:
                    # `if kwargs: validate(kwargs)` before the store: the only paths that skip the
                    # validator carry an empty kwargs, from which every .get() yields its default
                    for vn in vals:
                        vif = parent(vn.ast)
                        if isinstance(vif, ast.If) and isinstance(vif.test, ast.Name) and vif.test.id == "kwargs" \
                                and vn.ast in vif.body and not vif.orelse \
                                and not any(isinstance(x, (ast.Return, ast.Continue, ast.Break)) for x in ast.walk(vif)) \
                                and parent(vif) is init.node \
                                and not any(isinstance(x, ast.Name) and x.id == "kwargs" and isinstance(x.ctx, ast.Store)
                                            for x in walk_local(init.node)) \
                                and all(isinstance(c, ast.Call) and call_name(c) == "get" for c in ast.walk(src)
                                        if isinstance(c, ast.Call) and any(isinstance(x, ast.Name) and x.id == "kwargs"
                                                                           for x in ast.walk(c.func))):
                            ok = all(g.dominated(i, lambda x: x.ast is vif and x.kind == "test") for i in g.ids_of(n))
            yield Ob("C14.R1", ["C14"], f"{init.qual} | store | {norm(n, 90)}", ok,
                     ("validated by _validate_kwargs first" if user else "constant default") if ok else
                     "user-supplied value stored without a dominating _validate_kwargs", ctx.prog.loc(n))
    # (2) setters
    for name, st in sorted(pc.setters.items()):
        g = ctx.cfg(st, exceptional=False)
        val = st.params()[1]
        for n in walk_local(st.node):
            if isinstance(n, ast.Assign) and any(is_self_attr(t) for t in n.targets):
                def is_check(x) -> bool:
                    if x.kind == "test" and val in names_in(x.ast.test) and any(
                            isinstance(s, ast.Raise) for s in x.ast.body):
                        return True
                    if x.kind == "stmt":
                        for c in x.calls():
                            if call_name(c) in ("validate_tags", "validate_fields") and c.args \
                                    and norm(c.args[0]) == val:
                                return call_name(c) == {"tags": "validate_tags", "fields": "validate_fields"}.get(name, "")
                    return False
                ok = norm(n.value) == val and all(g.dominated(i, is_check) for i in g.ids_of(n))
                if not ok and norm(n.value) == val:
                    # `if isinstance(value, T): self._x = value else: raise`
                    cl = guard_clauses(guards(n))
                    ok = any(len(c) == 1 and next(iter(c))[1] and next(iter(c))[0].startswith(f"truthy(isinstance({val},")
                             for c in cl)
                yield Ob("C14.R1", ["C14", "C11"], f"{st.qual} | store | {norm(n)}", ok,
                         "type test / validator dominates the store" if ok else
                         "setter stores the value without validating it first", ctx.prog.loc(n))
    # (3) any raw slot store outside Point, and every mutation in the updater
    for f in ctx.prog.all_funcs():
        if f.cls == "Point" or (f.parent is not None and f.parent.cls == "Point"):
            continue
        for n in walk_local(f.node):
            if isinstance(n, (ast.Assign, ast.AugAssign)):
                ts = n.targets if isinstance(n, ast.Assign) else [n.target]
                for t in ts:
                    base = t
                    while isinstance(base, ast.Subscript):
                        base = base.value
                    if isinstance(base, ast.Attribute) and base.attr in ("_time", "_measurement", "_tags", "_fields") \
                            and ctx.res.type_of(base.value, f) == "Point":
                        yield Ob("C14.R1", ["C14"], f"{f.qual} | raw slot store | {norm(n, 90)}", False,
                                 "writes a Point slot directly, bypassing the validating setter", ctx.prog.loc(n))
    gen, pu = updater(ctx)
    pt = pu.params()[0]
    for slot, kind, n in slot_writes(pu, pt):
        key = f"{pu.qual} | {slot} {kind} | {norm(n, 90)}"
        if kind == "assign":
            yield Ob("C14.R1", ["C14", "C03"], key, True, "assignment goes through the validating setter",
                     ctx.prog.loc(n))
        elif kind in ("update", "subscript", "setdefault"):
            a = n.args[0] if isinstance(n, ast.Call) and n.args else getattr(n, "value", None)
            ok = False
            why = f"`{norm(a) if a is not None else '?'}` is merged into {slot} without validation"
            if isinstance(a, ast.Name):
                use = guard_clauses(guards(n))
                for nm, vc, vf in _validated_names(ctx, pu, slot):
                    if nm != a.id:
                        continue
                    if vf is pu:
                        g = ctx.cfg(pu, exceptional=False)
                        vid = set(g.ids_of(stmt_of(vc)))
                        if all(g.dominated(i, lambda x: x.id in vid) for i in g.ids_of(stmt_of(n))):
                            ok = True
                    else:
                        vcl = guard_clauses(guards(vc, siblings=False))
                        rebound = any(isinstance(x, ast.Name) and x.id == nm and isinstance(x.ctx, ast.Store)
                                      for x in walk_local(pu.node))
                        if all(entails(use, c) for c in vcl) and not rebound:
                            ok = True
                if ok:
                    why = f"`{a.id}` validated by {_validator_for(slot)} under the same condition"
            yield Ob("C14.R1", ["C14", "C03", "C11"], key, ok, why, ctx.prog.loc(n))
        elif kind in ("pop", "del"):
            yield Ob("C14.R1", ["C14"], key, True, "removal cannot introduce an invalid value", ctx.prog.loc(n),
                     nontrivial=False)
        else:
            yield Ob("C14.R1", ["C14", "C03"], key, False, f"unvalidated {kind} of the {slot} slot", ctx.prog.loc(n))
    # (4) static argument validation in the generator for time / measurement
    for slot, typ in (("time", "datetime"), ("measurement", "str")):
        found = False
        for n in walk_local(gen.node):
            if isinstance(n, ast.If) and any(isinstance(s, ast.Raise) for s in n.body):
                # the test must hold whenever the argument is truthy, not callable and not of the type
                from ..logic import cnf, consistent_with, formula, negate
                try:
                    neg = cnf(negate(formula(n.test)))
                except ValueError:
                    continue
                facts = [(f"truthy({slot})", True), (f"truthy(callable({slot}))", False),
                         (f"truthy(isinstance({slot}, {typ}))", False)]
                mentions = {a for c in neg for a, _ in c}
                if f"truthy(isinstance({slot}, {typ}))" in mentions and not consistent_with(neg, facts):
                    found = True
        yield Ob("C14.R1", ["C14", "C11"], f"{gen.qual} | static {slot} argument validated up front", found,
                 f"non-{typ} static `{slot}` raises before any row is staged" if found else
                 f"no up-front type test for a static `{slot}` argument", gen.loc())

    # (5) the key lists of unset_tags / unset_fields are checked element by element before any row is touched
    from ..logic import cnf as _cnf, consistent_with as _cw, formula as _fm, negate as _neg
    for slot in ("unset_tags", "unset_fields"):
        if slot not in gen.params():
            continue
        found = False
        for n in walk_local(gen.node):
            if isinstance(n, ast.If) and any(isinstance(s_, ast.Raise) for s_ in n.body):
                try:
                    neg = _cnf(_neg(_fm(n.test)))
                except ValueError:
                    continue
                atoms_ = {a_ for c in neg for a_, _ in c}
                elem = [a_ for a_ in atoms_ if a_.startswith("truthy(all(") and slot in a_ and "isinstance(" in a_ and "str" in a_]
                if not elem:
                    continue
                facts = [(f"truthy({slot})", True), (f"truthy(isinstance({slot}, str))", False), (elem[0], False),
                         (f"truthy(isinstance({slot}, Iterable))", True)]
                if not _cw(neg, facts):
                    found = True
        yield Ob("C14.R1", ["C14", "C11"], f"{gen.qual} | {slot} keys validated up front", found,
                 f"a non-string key in `{slot}` raises before any row is staged" if found else
                 f"no up-front test that every element of `{slot}` is a string: an invalid key raises (if at all) after "
                 f"earlier keys were already removed from stored points", gen.loc())


@rule("C14.R3", ["C14", "C11"], min_instances=1, design="3.14")
def insert_gate(ctx):
    """Within each iteration of the insert loop the Point type test dominates the storage append and every mutation of the element."""
    f = ctx.prog.func("TinyFlux._insert_helper", "C14.R3")
    g = ctx.cfg(f, exceptional=False)
    from .rewrite import is_primary_append
    apps = [n for n in g.stmt_nodes() for c in n.calls() if is_primary_append(ctx, f, c)]
    if not apps:
        raise AnalysisError("C14.R3", "no primary append in _insert_helper")
    loops = [lp for lp in walk_local(f.node) if isinstance(lp, ast.For) and norm(lp.iter) == "points"]
    if not loops:
        raise AnalysisError("C14.R3", "loop over the inserted points not found")
    lp = loops[0]
    elem = norm(lp.target)

    def is_gate(x) -> bool:
        if x.kind != "test" or not in_subtree(x.ast, lp):
            return False
        t = norm(x.ast.test)
        return t in (f"not isinstance({elem}, Point)",) and any(isinstance(s, ast.Raise) for s in x.ast.body)
    heads = set(g.ids_of(lp))
    for a in apps:
        # gate must be passed after the loop head of the same iteration
        ok = in_subtree(a.ast, lp)
        if ok:
            r = g.reachable(list(heads), avoid=is_gate, first_labels=lambda l: l == "body")
            ok = a.id not in r
        yield Ob("C14.R3", ["C14", "C11"], f"{f.qual} | type gate dominates append | {norm(a.ast, 60)}", ok,
                 "isinstance(point, Point) is tested in the same iteration before the write" if ok else
                 "a non-Point element can reach the storage append", ctx.prog.loc(a.ast))
    # element attribute stores before the gate
    for n in walk_local(lp):
        if isinstance(n, ast.Assign) and any(isinstance(t, ast.Attribute) and norm(t.value) == elem for t in n.targets):
            ids = g.ids_of(n)
            r = g.reachable(list(heads), avoid=is_gate, first_labels=lambda l: l == "body")
            ok = not any(i in r for i in ids)
            yield Ob("C14.R3", ["C14", "C11"], f"{f.qual} | type gate dominates mutation | {norm(n, 60)}", ok,
                     "element is mutated only after the type gate" if ok else
                     "element is mutated before it is known to be a Point", ctx.prog.loc(n))


# ------------------------------------------------------------------ C08.R1
def _utc_normalised(e: ast.AST, f: Func, depth: int = 0) -> bool:
    if isinstance(e, ast.IfExp):
        return _utc_normalised(e.body, f, depth) and _utc_normalised(e.orelse, f, depth)
    t = norm(e)
    if t.endswith(".astimezone(timezone.utc)") or t.endswith(".astimezone(tz=timezone.utc)"):
        return True
    if t in ("datetime.now(timezone.utc)", "datetime.now(tz=timezone.utc)"):
        return True
    if isinstance(e, ast.Name) and depth < 3:
        vals = assignments_to(f, e.id)
        return bool(vals) and all(_utc_normalised(v, f, depth + 1) for v in vals)
    return False


@rule("C08.R1", ["C08", "C04", "C01", "C05"], min_instances=5, design="3.8")
def utc_before_strip(ctx):
    """Every datetime stored into a point's time slot by the database is normalised to UTC first; the serialiser strips tzinfo and the deserialiser re-attaches UTC."""
    n_sites = 0
    for f in ctx.prog.all_funcs():
        if f.module != "database":
            continue
        for n in walk_local(f.node):
            if isinstance(n, ast.Assign) and len(n.targets) == 1 and isinstance(n.targets[0], ast.Attribute) \
                    and n.targets[0].attr == "time" and ctx.res.type_of(n.targets[0].value, f) == "Point":
                n_sites += 1
                ok = _utc_normalised(n.value, f)
                how = "value is converted with astimezone(timezone.utc) (or is now(utc))"
                if not ok:
                    # a later store that normalises the slot on every path to a normal exit
                    g = ctx.cfg(f, exceptional=False)
                    obj = norm(n.targets[0].value)

                    def renorm(x, obj=obj, f=f) -> bool:
                        a = x.ast
                        return x.kind == "stmt" and isinstance(a, ast.Assign) and len(a.targets) == 1 \
                            and norm(a.targets[0]) == f"{obj}.time" and _utc_normalised(a.value, f) \
                            and norm(a.value).startswith(f"{obj}.time.")
                    ids = g.ids_of(n)
                    if ids and all(g.postdominated(i, renorm, [g.exit]) for i in ids):
                        ok = True
                        how = "every normal path re-stores the slot as <slot>.astimezone(timezone.utc) afterwards"
                yield Ob("C08.R1", ["C08", "C01", "C05"], f"{f.qual} | time store | {norm(n, 90)}", ok,
                         how if ok else
                         "stored without astimezone(timezone.utc): the serialiser strips the offset blindly, so a "
                         "non-UTC aware datetime comes back as a different instant", ctx.prog.loc(n))
    if n_sites < 2:
        raise AnalysisError("C08.R1", f"expected >=2 time stores in database.py, found {n_sites}")
    # every path from the head of the insert loop to the storage append normalises (or stamps) the time
    ih = ctx.prog.func("TinyFlux._insert_helper", "C08.R1")
    from .rewrite import is_primary_append
    g = ctx.cfg(ih, exceptional=False)
    loops = [lp for lp in walk_local(ih.node) if isinstance(lp, ast.For)
             and any(isinstance(c, ast.Call) and is_primary_append(ctx, ih, c) for c in walk_local(lp))]
    for lp in loops:
        elem = norm(lp.target)
        heads = g.ids_of(lp)
        apps = [nd for nd in g.stmt_nodes() for c in nd.calls() if is_primary_append(ctx, ih, c)]

        def normalises(x, elem=elem) -> bool:
            a = x.ast
            return x.kind == "stmt" and isinstance(a, ast.Assign) and len(a.targets) == 1 \
                and norm(a.targets[0]) == f"{elem}.time" and _utc_normalised(a.value, ih)
        r = g.reachable(heads, avoid=normalises, first_labels=lambda l: l == "body")
        for a in apps:
            ok = a.id not in r
            yield Ob("C08.R1", ["C08", "C04", "C01"], f"{ih.qual} | time normalised on every path to the append", ok,
                     "every path through the loop body stores a UTC-normalised (or freshly stamped) time before the row "
                     "is serialised" if ok else
                     "some path reaches the storage append without normalising the point's time (e.g. aware non-UTC "
                     "values are left as they are): the serialiser strips the offset blindly", ctx.prog.loc(a.ast))
    ser = ctx.prog.func("Point._serialize_to_list", "C08.R1")
    de = ctx.prog.func("Point._deserialize_from_list", "C08.R1")
    strip = [n for n in walk_local(ser.node) if isinstance(n, ast.Call) and call_name(n) == "replace"
             and any(k.arg == "tzinfo" for k in n.keywords)]
    attach = [n for n in walk_local(de.node) if isinstance(n, ast.Call) and call_name(n) == "replace"
              and any(k.arg == "tzinfo" and norm(k.value) == "timezone.utc" for k in n.keywords)]
    iso_w = any(isinstance(n, ast.Call) and call_name(n) == "isoformat" for n in walk_local(ser.node))
    iso_r = any(isinstance(n, ast.Call) and call_name(n) == "fromisoformat" for n in walk_local(de.node))
    ok = bool(strip) and bool(attach) and iso_w and iso_r and all(
        norm(k.value) == "None" for s in strip for k in s.keywords if k.arg == "tzinfo")
    yield Ob("C08.R1", ["C08", "C05"], "Point | tz strip / attach agreement", ok,
             "writer strips tzinfo and writes isoformat; reader parses isoformat and attaches UTC" if ok else
             "writer/reader disagree on how the zone is removed and re-attached", ser.loc())
    # default stamps
    for q in ("TinyFlux._insert_helper", "Point.__init__"):
        f = ctx.prog.func(q, "C08.R1")
        nows = [n for n in walk_local(f.node) if isinstance(n, ast.Call) and norm(n.func) in ("datetime.now",
                                                                                              "datetime.utcnow")]
        ok = bool(nows) and all(norm(n) in ("datetime.now(timezone.utc)", "datetime.now(tz=timezone.utc)") for n in nows)
        yield Ob("C08.R1", ["C08"], f"{q} | default timestamp is aware UTC", ok,
                 "datetime.now(timezone.utc)" if ok else f"default stamp is {[norm(n) for n in nows]}", f.loc())


# ------------------------------------------------------------------ C08.R3
NAIVE_UTC, NAIVE_LOCAL, AWARE_UTC, AWARE, USER = "naive-UTC", "naive-local", "aware-UTC", "aware", "user-supplied"


def _dt_kind(e: ast.AST, f: Func, ctx, depth: int = 0) -> Optional[Set[str]]:
    """Abstract `kind` of a datetime-valued expression, or None if unknown."""
    if depth > 4:
        return None
    t = norm(e)
    if isinstance(e, ast.Call):
        fn = norm(e.func)
        if fn in ("datetime.fromisoformat",):
            return {NAIVE_UTC}
        if fn.endswith("._deserialize_timestamp"):
            return {NAIVE_UTC, AWARE_UTC}
        if fn == "datetime.utcfromtimestamp" or fn == "datetime.utcnow":
            return {NAIVE_UTC}
        if fn == "datetime.fromtimestamp":
            tz = e.args[1] if len(e.args) > 1 else next((k.value for k in e.keywords if k.arg == "tz"), None)
            if tz is None:
                return {NAIVE_LOCAL}
            return {AWARE_UTC} if norm(tz) == "timezone.utc" else {AWARE}
        if fn == "datetime.now":
            tz = e.args[0] if e.args else next((k.value for k in e.keywords if k.arg == "tz"), None)
            if tz is None:
                return {NAIVE_LOCAL}
            return {AWARE_UTC} if norm(tz) == "timezone.utc" else {AWARE}
        if isinstance(e.func, ast.Attribute) and e.func.attr == "astimezone":
            tz = e.args[0] if e.args else next((k.value for k in e.keywords if k.arg == "tz"), None)
            if tz is not None and norm(tz) == "timezone.utc":
                return {AWARE_UTC}
            return {AWARE}
        if isinstance(e.func, ast.Attribute) and e.func.attr == "replace":
            tz = next((k.value for k in e.keywords if k.arg == "tzinfo"), None)
            base = _dt_kind(e.func.value, f, ctx, depth + 1)
            if tz is None:
                return base
            if norm(tz) == "timezone.utc":
                return {AWARE_UTC}
            if norm(tz) == "None":
                return {NAIVE_UTC} if base == {AWARE_UTC} else None
            return {AWARE}
        # user callables / unknown calls
        if isinstance(e.func, ast.Name) and e.func.id in _all_params(f):
            return {USER}
        return None
    if isinstance(e, ast.Attribute) and e.attr in ("time", "_time"):
        ty = ctx.res.type_of(e.value, f)
        if ty == "Point" or norm(e.value) == "self":
            return {AWARE_UTC, USER} if f.qual.endswith("_insert_helper") or "perform_update" in f.qual else {AWARE_UTC}
        return None
    if isinstance(e, ast.Attribute) and e.attr == "latest_time":
        return {AWARE_UTC}
    if isinstance(e, ast.Name):
        if e.id in _all_params(f):
            ann = None
            g = f
            while g is not None and ann is None:
                ann = g.param_annotation(e.id) if e.id in g.params() else None
                g = g.parent
            if ann is not None and "datetime" in norm(ann):
                return {USER}
            if e.id in ("rhs", "time", "old_time"):
                return {USER}
            if f.cls == "Point" and f.name == "time" and getattr(f, "kind", "") == "setter":
                return {USER}  # the value handed to the time setter
            return None
        vals = assignments_to(f, e.id)
        if not vals:
            return None
        out: Set[str] = set()
        for v in vals:
            k = _dt_kind(v, f, ctx, depth + 1)
            if k is None:
                return None
            out |= k
        return out
    return None


def _all_params(f: Func) -> Set[str]:
    out: Set[str] = set()
    g: Optional[Func] = f
    while g is not None:
        out |= set(g.params())
        g = g.parent
    return out


@rule("C08.R3", ["C08", "C07", "C01", "C06", "C09"], min_instances=8, design="3.8")
def datetime_kind_discipline(ctx):
    """Typestate on datetime values: naive-UTC text from storage is made aware only by replace(tzinfo=utc); naive-local / aware / user values are converted only by astimezone(utc); no zone is ever attached to a value by replace(); timestamp() is never taken of a naive-UTC value."""
    n = 0
    for f in ctx.prog.all_funcs():
        for c in walk_local(f.node):
            if not (isinstance(c, ast.Call) and isinstance(c.func, ast.Attribute)):
                continue
            a = c.func.attr
            if a not in ("astimezone", "replace", "timestamp"):
                continue
            if a == "replace" and not any(k.arg == "tzinfo" for k in c.keywords):
                continue
            kind = _dt_kind(c.func.value, f, ctx)
            if kind is None:
                if a in ("astimezone", "timestamp") or a == "replace":
                    # receivers we cannot classify are reported (not judged) so the count stays honest
                    continue
            n += 1
            bad = None
            if a == "replace":
                tz = next(k.value for k in c.keywords if k.arg == "tzinfo")
                tzt = norm(tz)
                if tzt == "timezone.utc":
                    wrong = kind - {NAIVE_UTC, AWARE_UTC}
                    if wrong:
                        bad = (f"a {sorted(wrong)} datetime is relabelled as UTC with replace(tzinfo=utc) instead of "
                               f"being converted with astimezone(utc)")
                elif tzt == "None":
                    wrong = kind - {AWARE_UTC}
                    if wrong:
                        bad = f"the offset of a {sorted(wrong)} datetime is dropped without converting to UTC first"
                else:
                    bad = (f"replace(tzinfo={tzt}) attaches a zone to the value instead of converting it "
                           f"(fixed-offset zones ignore the value's own date: DST)")
            elif a == "astimezone":
                if NAIVE_UTC in kind:
                    bad = ("astimezone() on a naive value that holds UTC wall-clock digits interprets them as process-"
                           "local time; the instant shifts by the local offset (use replace(tzinfo=timezone.utc))")
                tz = c.args[0] if c.args else next((k.value for k in c.keywords if k.arg == "tz"), None)
                if tz is None or norm(tz) != "timezone.utc":
                    if f.module in ("database", "index", "point", "storages"):
                        bad = bad or f"astimezone({norm(tz) if tz is not None else ''}) does not convert to UTC"
            elif a == "timestamp":
                if NAIVE_UTC in kind:
                    bad = "timestamp() of a naive value holding UTC digits is computed as if it were local time"
            site_props = ["C08"] + (["C07"] if f.name.startswith("get_") else []) + (
                ["C01"] if f.cls == "Index" and f.name.startswith("_search") else []) + (
                ["C09", "C01"] if f.module == "queries" else []) + (
                ["C06", "C01"] if f.cls == "Index" else [])
            yield Ob("C08.R3", site_props, f"{f.qual} | {a} on {'/'.join(sorted(kind))} | {norm(c, 80)}{occ(f, c)}",
                     bad is None, bad or f"{a} is valid for a {sorted(kind)} value", ctx.prog.loc(c))
    # datetime values enter the package only through the exact constructions; building one from
    # broken-down components (datetime(*gmtime(ts)[:6]), strptime, combine) drops the microseconds
    EXACT = ("now", "fromtimestamp", "fromisoformat", "utcnow", "utcfromtimestamp", "today")
    for f in ctx.prog.all_funcs():
        for c in walk_local(f.node):
            if not isinstance(c, ast.Call):
                continue
            fn_ = c.func
            direct = isinstance(fn_, ast.Name) and fn_.id == "datetime" and (c.args or c.keywords)
            via = isinstance(fn_, ast.Attribute) and isinstance(fn_.value, ast.Name) and fn_.value.id == "datetime" \
                and fn_.attr not in EXACT and fn_.attr in ("strptime", "combine", "fromordinal", "fromisocalendar")
            if direct or via:
                yield Ob("C08.R3", ["C08", "C06", "C01"], f"{f.qual} | datetime built from components | {norm(c, 80)}{occ(f, c)}",
                         False, f"`{norm(c, 60)}` rebuilds a datetime from broken-down fields: the sub-second part of the "
                         f"stored instant is lost, so comparisons against it are no longer comparisons of instants",
                         ctx.prog.loc(c))
