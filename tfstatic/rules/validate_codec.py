"""C14.R2 (validators accept exactly the allowed type sets, by abstract
evaluation over a finite type universe) and C05 (codec table agreement,
in-band sentinels, lossy narrowing)."""

from __future__ import annotations

import ast
from typing import Dict, List, Optional, Set, Tuple

from ..astq import assignments_to, call_name, names_in, occ, stmt_of, in_subtree
from ..model import AnalysisError, Func, ancestors, const_value, NOCONST, first_line, is_self_attr, norm, walk_local
from ..report import Ob, rule

BASE_TYPES = ["NoneType", "bool", "int", "float", "str", "bytes", "list", "dict", "tuple", "datetime"]
# every type with a truthy and (where one exists) a falsy representative: "int" = 5, "int!" = 0, "str!" = "" ...
UNIVERSE = [t for t in BASE_TYPES if t != "NoneType"] + ["NoneType"] + [
    t + "!" for t in BASE_TYPES if t not in ("NoneType", "datetime")]


def _base(t: str) -> str:
    return t.rstrip("!")


def expand(types) -> set:
    """{int, float} -> {int, int!, float, float!} (a documented type set admits all its values)."""
    out = set()
    for t in types:
        out.add(t)
        if t + "!" in UNIVERSE:
            out.add(t + "!")
    return out
SUPER = {
    "bool": {"bool", "int", "object"}, "int": {"int", "object"}, "float": {"float", "object"},
    "str": {"str", "object", "Sequence", "Iterable"}, "bytes": {"bytes", "object", "Sequence", "Iterable"},
    "list": {"list", "object", "Sequence", "Iterable"}, "dict": {"dict", "Mapping", "object", "Iterable"},
    "tuple": {"tuple", "object", "Sequence", "Iterable"}, "datetime": {"datetime", "date", "object"},
    "NoneType": {"NoneType", "object"},
}


class Unknown(Exception):
    pass


VALUE_TESTS: List[str] = []   # predicates on the *value* of an element (math.isfinite(v), v > 0, len(v) ...)


def teval(e: ast.AST, env: Dict[str, str]) -> bool:
    """Evaluate a type predicate for variables bound to abstract types."""
    if isinstance(e, ast.BoolOp):
        if isinstance(e.op, ast.And):
            return all(teval(v, env) for v in e.values)
        return any(teval(v, env) for v in e.values)
    if isinstance(e, ast.UnaryOp) and isinstance(e.op, ast.Not):
        return not teval(e.operand, env)
    if isinstance(e, ast.IfExp):
        return teval(e.body, env) if teval(e.test, env) else teval(e.orelse, env)
    if isinstance(e, ast.Constant) and isinstance(e.value, bool):
        return e.value
    if isinstance(e, ast.Call) and isinstance(e.func, ast.Name) and e.func.id == "isinstance" and len(e.args) == 2:
        v = norm(e.args[0])
        if v not in env:
            raise Unknown(norm(e))
        t = e.args[1]
        names = [norm(x) for x in (t.elts if isinstance(t, ast.Tuple) else [t])]
        names = [n.split(".")[-1] for n in names]
        return bool(SUPER[_base(env[v])] & set(names))
    if isinstance(e, ast.Call) and isinstance(e.func, ast.Name) and e.func.id == "callable" and len(e.args) == 1:
        if norm(e.args[0]) in env:
            return False
        raise Unknown(norm(e))
    if isinstance(e, ast.Compare) and len(e.ops) == 1 and isinstance(e.ops[0], (ast.Is, ast.IsNot)) \
            and const_value(e.comparators[0]) is None:
        v = norm(e.left)
        if v not in env:
            raise Unknown(norm(e))
        r = _base(env[v]) == "NoneType"
        return r if isinstance(e.ops[0], ast.Is) else not r
    if isinstance(e, ast.Compare) and len(e.ops) == 1 and isinstance(e.ops[0], (ast.In, ast.NotIn)) \
            and isinstance(e.left, ast.Constant):
        return isinstance(e.ops[0], ast.In)  # '"time" in kwargs' -- the slot is supplied
    if norm(e) in env:
        t_ = env[norm(e)]
        return t_ != "NoneType" and not t_.endswith("!")  # truthiness of the representative value
    # a call / comparison on the element's value (not its type): it can only reject some values of a
    # type, never admit a type; recorded and evaluated as "holds for the representative value"
    names_ = {x.id for x in ast.walk(e) if isinstance(x, ast.Name)}
    if names_ & set(env) and isinstance(e, (ast.Call, ast.Compare)):
        VALUE_TESTS.append(norm(e))
        fn_ = norm(e.func) if isinstance(e, ast.Call) else ""
        return fn_.endswith(("isfinite",)) or not fn_  # a well-behaved representative: finite, in range
    raise Unknown(norm(e))


def accepted_by_stmts(stmts: List[ast.stmt], var: str) -> Set[str]:
    """Types of `var` for which executing stmts does not raise."""
    out = set()
    for t in UNIVERSE:
        env = {var: t}

        def run(ss: List[ast.stmt]) -> str:
            for s in ss:
                if isinstance(s, ast.If):
                    r = run(s.body) if teval(s.test, env) else run(s.orelse)
                    if r != "next":
                        return r
                elif isinstance(s, ast.Raise):
                    return "raise"
                elif isinstance(s, (ast.Continue, ast.Return, ast.Break)):
                    return "done"
                elif isinstance(s, (ast.Expr, ast.Pass, ast.Assign)):
                    continue
                else:
                    raise Unknown(norm(s))
            return "next"
        if run(stmts) != "raise":
            out.add(t)
    return out


def element_checks(f: Func, mapping: str) -> Dict[str, Set[str]]:
    """{'keys': accepted types, 'values': accepted types} of a mapping validator."""
    res: Dict[str, Set[str]] = {}
    for n in walk_local(f.node):
        src = None
        accepted = None
        if isinstance(n, ast.If) and any(isinstance(s, ast.Raise) for s in n.body):
            t = n.test
            if isinstance(t, ast.UnaryOp) and isinstance(t.op, ast.Not) and isinstance(t.operand, ast.Call) \
                    and isinstance(t.operand.func, ast.Name) and t.operand.func.id == "all" and t.operand.args \
                    and isinstance(t.operand.args[0], (ast.GeneratorExp, ast.ListComp)):
                ge = t.operand.args[0]
                gen = ge.generators[0]
                if isinstance(gen.target, ast.Name) and not gen.ifs:
                    src = norm(gen.iter)
                    v = gen.target.id
                    accepted = {ty for ty in UNIVERSE if teval(ge.elt, {v: ty})}
            elif isinstance(t, ast.Call) and isinstance(t.func, ast.Name) and t.func.id == "any" and t.args \
                    and isinstance(t.args[0], (ast.GeneratorExp, ast.ListComp)):
                ge = t.args[0]
                gen = ge.generators[0]
                if isinstance(gen.target, ast.Name) and not gen.ifs:
                    src = norm(gen.iter)
                    v = gen.target.id
                    accepted = {ty for ty in UNIVERSE if not teval(ge.elt, {v: ty})}
        elif isinstance(n, ast.For) and isinstance(n.target, ast.Name) and any(
                isinstance(x, ast.Raise) for x in walk_local(n)):
            src = norm(n.iter)
            accepted = accepted_by_stmts(n.body, n.target.id)
        if src is None or accepted is None:
            continue
        if src in (f"{mapping}.keys()", mapping):
            kind = "keys"
        elif src == f"{mapping}.values()":
            kind = "values"
        else:
            continue
        res[kind] = accepted if kind not in res else (res[kind] & accepted)
    return res


EXPECT = {
    "validate_tags": {"keys": {"str"}, "values": {"NoneType", "str"}},
    "validate_fields": {"keys": {"str"}, "values": {"NoneType", "int", "float"}},
}


@rule("C14.R2", ["C14", "C05"], min_instances=8, design="3.14")
def validators_accept_exactly(ctx):
    """Abstract evaluation of every validator over a finite type universe (bool <: int): accepted sets equal the documented ones."""
    for name, exp in EXPECT.items():
        f = ctx.prog.func(name, "C14.R2")
        m = f.params()[0]
        del VALUE_TESTS[:]
        try:
            got = element_checks(f, m)
        except Unknown as ex:
            raise AnalysisError("C14.R2", f"{name}: predicate outside the evaluable fragment: {ex}")
        vt = sorted(set(VALUE_TESTS))
        yield Ob("C14.R2", ["C05"], f"{name} | accepts every value of the documented types", not vt,
                 "only type tests" if not vt else
                 f"`{vt[0]}` rejects some values of an accepted type (every finite or infinite float, zero, negative zero and "
                 f"subnormals are valid field values; every string is a valid tag value)", f.loc())
        # a validating loop looks at every element: no exit other than raising
        early = [x for lp in walk_local(f.node) if isinstance(lp, (ast.For, ast.While))
                 and any(isinstance(y, ast.Raise) for y in walk_local(lp))
                 for x in walk_local(lp) if isinstance(x, (ast.Break, ast.Return))]
        yield Ob("C14.R2", ["C14"], f"{name} | every element is validated", not early,
                 "validating loops end only by exhaustion or by raising" if not early else
                 f"`{type(early[0]).__name__.lower()}` at line {early[0].lineno} ends the validation at the first element that takes "
                 f"this path: later keys/values are stored unchecked", f.loc())
        # mapping test
        mt = False
        for n in walk_local(f.node):
            if isinstance(n, ast.If) and any(isinstance(s, ast.Raise) for s in n.body) \
                    and norm(n.test) == f"not isinstance({m}, Mapping)":
                mt = True
        yield Ob("C14.R2", ["C14"], f"{name} | argument must be a mapping", mt,
                 "non-mappings are rejected" if mt else "no `not isinstance(x, Mapping) -> raise` test", f.loc())
        for kind in ("keys", "values"):
            g = got.get(kind)
            ok = g == expand(exp[kind])
            yield Ob("C14.R2", ["C14"], f"{name} | accepted {kind[:-1]} types", ok,
                     f"accepts exactly {sorted(exp[kind])}" if ok else
                     (f"accepts {sorted(g)}, documented {sorted(exp[kind])}" if g is not None else
                      f"no check of the {kind} found"), f.loc(), {"accepted": sorted(g) if g else None})
    # scalar setters
    for slot, typ in (("time", "datetime"), ("measurement", "str")):
        st = ctx.prog.cls("Point").setters.get(slot)
        if st is None:
            raise AnalysisError("C14.R2", f"Point.{slot} setter not found")
        v = st.params()[1]
        try:
            acc = accepted_by_stmts(st.body, v)
        except Unknown as ex:
            raise AnalysisError("C14.R2", f"Point.{slot} setter: {ex}")
        ok = acc == expand({typ})
        yield Ob("C14.R2", ["C14"], f"{st.qual} | accepted types", ok,
                 f"accepts exactly {{{typ}}}" if ok else f"accepts {sorted(acc)}, documented {{{typ}}}", st.loc())
    # constructor keyword validation
    vk = ctx.prog.func("Point._validate_kwargs", "C14.R2")
    for slot, typ in (("time", "datetime"), ("measurement", "str")):
        acc = None
        for n in walk_local(vk.node):
            if isinstance(n, ast.If) and any(isinstance(s, ast.Raise) for s in n.body) \
                    and f"kwargs['{slot}']" in norm(n.test):
                try:
                    acc = {t for t in UNIVERSE if not teval(n.test, {f"kwargs['{slot}']": t})}
                except Unknown as ex:
                    raise AnalysisError("C14.R2", f"_validate_kwargs {slot}: {ex}")
        ok = acc == expand({typ})
        yield Ob("C14.R2", ["C14"], f"{vk.qual} | {slot} keyword accepted types", ok,
                 f"accepts exactly {{{typ}}}" if ok else f"accepts {sorted(acc) if acc is not None else None}, documented {{{typ}}}",
                 vk.loc())
    from ..logic import guard_clauses, guards
    for slot, val in (("tags", "validate_tags"), ("fields", "validate_fields")):
        calls = [n for n in walk_local(vk.node) if isinstance(n, ast.Call) and call_name(n) == val and n.args
                 and norm(n.args[0]) == f"kwargs['{slot}']"]
        ok = bool(calls)
        msg = f"{val}(kwargs['{slot}']) whenever the keyword is given"
        if not calls:
            msg = f"{slot} keyword is not validated by {val}"
        for c in calls:
            cl = guard_clauses(guards(c, siblings=False))
            want = {frozenset([(f"in('{slot}',kwargs)", True)])}
            if cl != want:
                ok = False
                extra = sorted(map(sorted, cl - want))
                msg = (f"{val} runs only under {sorted(map(sorted, cl))}: with the extra condition(s) {extra} a supplied "
                       f"`{slot}` keyword can skip validation")
        yield Ob("C14.R2", ["C14"], f"{vk.qual} | {slot} keyword goes through {val}", ok, msg, vk.loc())
    for n in walk_local(vk.node):
        if isinstance(n, ast.If) and any(isinstance(s_, ast.Raise) for s_ in n.body):
            cl = guard_clauses(guards(n, siblings=False))
            if cl:
                yield Ob("C14.R2", ["C14"], f"{vk.qual} | check `{norm(n.test, 50)}` is unconditional", False,
                         f"this check only runs under {sorted(map(sorted, cl))}", ctx.prog.loc(n))
    # updater's static scalar arguments
    gen = ctx.prog.func("TinyFlux._generate_updater", "C14.R2")
    for slot, typ in (("time", "datetime"), ("measurement", "str")):
        acc = None
        for n in walk_local(gen.node):
            if isinstance(n, ast.If) and any(isinstance(s, ast.Raise) for s in n.body) \
                    and f"isinstance({slot}," in norm(n.test):
                try:
                    acc = {t for t in UNIVERSE if t != "NoneType" and not teval(n.test, {slot: t})}
                except Unknown as ex:
                    raise AnalysisError("C14.R2", f"_generate_updater {slot}: {ex}")
        ok = acc == {typ}
        yield Ob("C14.R2", ["C14"], f"{gen.qual} | static {slot} accepted types", ok,
                 f"accepts exactly {{{typ}}}" if ok else f"accepts {sorted(acc) if acc is not None else None}, documented {{{typ}}}",
                 gen.loc())


# ------------------------------------------------------------------------ C05
def prefix_consts(ctx) -> Dict[str, str]:
    pc = ctx.prog.cls("Point", "C05")
    out = {}
    for k, v in pc.consts.items():
        if "prefix" in k and isinstance(v, ast.Constant) and isinstance(v.value, str):
            out[k] = v.value
    return out


def _chain(loop: ast.While, row: str, idx: str) -> List[Tuple[Optional[Tuple[int, str]], str]]:
    """[(condition (char index, char) | None for else, action)] of the if/elif chain at the top of a loop."""
    out: List[Tuple[Optional[Tuple[int, str]], str]] = []
    first = None
    for s in loop.body:
        if isinstance(s, ast.If):
            first = s
            break
    node = first
    while node is not None:
        t = node.test
        cond = None
        if isinstance(t, ast.Compare) and isinstance(t.ops[0], ast.Eq) and isinstance(t.comparators[0], ast.Constant) \
                and isinstance(t.left, ast.Subscript) and norm(t.left.value) == f"{row}[{idx}]" \
                and isinstance(t.left.slice, ast.Constant):
            cond = (t.left.slice.value, t.comparators[0].value)
        else:
            raise Unknown(norm(t))
        out.append((cond, _action(node.body)))
        if len(node.orelse) == 1 and isinstance(node.orelse[0], ast.If):
            node = node.orelse[0]
        else:
            if node.orelse:
                out.append((None, _action(node.orelse)))
            else:
                out.append((None, "fallthrough"))
            node = None
    return out


def _action(body: List[ast.stmt]) -> str:
    for s in body:
        if isinstance(s, ast.Break):
            return "break"
        if isinstance(s, ast.Assign) and isinstance(s.value, ast.Subscript) and isinstance(s.value.slice, ast.Slice):
            lo = s.value.slice.lower
            if isinstance(lo, ast.Call) and call_name(lo) == "len" and lo.args and is_self_attr(lo.args[0]):
                return "slice:" + lo.args[0].attr
            if isinstance(lo, ast.Constant):
                return f"slice#{lo.value}"
    return "other"


def _pair_generator(g: ast.AST):
    """(pair generator, flattened?) -- `((K, V) for k, v in M.items())` as written, or the same pairs
    already flattened by a second clause: `(c for k, v in M.items() for c in (K, V))`."""
    if isinstance(g, ast.GeneratorExp) and len(g.generators) == 2 and isinstance(g.elt, ast.Name) \
            and isinstance(g.generators[1].target, ast.Name) and g.generators[1].target.id == g.elt.id \
            and isinstance(g.generators[1].iter, (ast.Tuple, ast.List)) and len(g.generators[1].iter.elts) == 2 \
            and not g.generators[1].ifs:
        pair = ast.GeneratorExp(elt=ast.Tuple(elts=list(g.generators[1].iter.elts), ctx=ast.Load()),
                                generators=[g.generators[0]])
        return ast.copy_location(pair, g), True
    return g, False


@rule("C05.R1", ["C05", "C04", "C01", "C07"], min_instances=3, design="3.5")
def prefix_table_agreement(ctx):
    """Evaluating the reader's discriminator chain on the writer's four prefix constants classifies each to its own kind and strips exactly its own length; tags are written before fields."""
    pcs = prefix_consts(ctx)
    if len(pcs) != 4:
        raise AnalysisError("C05.R1", f"expected 4 prefix constants, found {sorted(pcs)}")
    de = ctx.prog.func("Point._deserialize_from_list", "C05.R1")
    row = de.params()[1]
    loops = [n for n in de.node.body if isinstance(n, ast.While)]
    if len(loops) != 2:
        raise AnalysisError("C05.R1", f"expected a tag loop and a field loop, found {len(loops)} while-loops")
    idxs = []
    for lp_ in loops:
        t = lp_.test
        idxs.append(t.left.id if isinstance(t, ast.Compare) and isinstance(t.left, ast.Name) else None)
    idx = idxs[0]
    try:
        tag_chain = _chain(loops[0], row, idxs[0])
        field_chain = _chain(loops[1], row, idxs[1])
    except Unknown as ex:
        # not an if/elif chain on prefix characters: the abstract interpreter of C05.R5 decides the
        # classification instead (it interprets whatever the decoder does)
        yield Ob("C05.R1", ["C05", "C04", "C01", "C07"], "Point | prefix discriminator chain", True,
                 f"decoder does not use a character-test chain ({ex}); classification is decided by C05.R5",
                 de.loc(), nontrivial=False)
        tag_chain = field_chain = None

    def classify(chain, prefix: str) -> str:
        for cond, act in chain:
            if cond is None:
                return act
            i, ch = cond
            if i >= len(prefix):
                return "ambiguous"  # depends on the user's key, not on the prefix
            if prefix[i] == ch:
                return act
        return "fallthrough"

    for name, val in sorted(pcs.items()):
        if tag_chain is None:
            break
        kind = "tag" if "tag" in name else "field"
        bad = []
        r1 = classify(tag_chain, val)
        if kind == "tag":
            if r1 != f"slice:{name}":
                bad.append(f"tag loop does `{r1}` for a key starting with {val!r}, expected strip len({name})")
        else:
            if r1 != "break":
                bad.append(f"tag loop does `{r1}` for a field key starting with {val!r}, expected to stop")
            r2 = classify(field_chain, val)
            if r2 != f"slice:{name}":
                bad.append(f"field loop does `{r2}` for a key starting with {val!r}, expected strip len({name})")
        yield Ob("C05.R1", ["C05", "C04", "C01", "C07"], f"Point | prefix {name}={val!r} round trip", not bad,
                 "; ".join(bad) if bad else f"classified as {kind} and stripped by its own length", de.loc())
    # writer: tags before fields, prefix + key, compact flag selects the compact pair
    ser = ctx.prog.func("Point._serialize_to_list", "C05.R1")
    bad = []
    rows = [n for n in walk_local(ser.node) if isinstance(n, (ast.Assign, ast.Return)) and isinstance(n.value, ast.Tuple)
            and any(isinstance(e, ast.Starred) for e in n.value.elts)]
    if len(rows) != 1:
        bad.append("row construction not recognised")
    else:
        elts = rows[0].value.elts
        stars = [norm(e.value) for e in elts if isinstance(e, ast.Starred)]
        if len(elts) != 4 or len(stars) != 2 or "tags" not in stars[0] or "fields" not in stars[1]:
            bad.append(f"row is `{norm(rows[0].value, 80)}`, expected (time, measurement, *tags, *fields)")
    for kind in ("tag", "field"):
        vals = assignments_to(ser, f"{kind}_key_prefix")
        ok = len(vals) == 1 and isinstance(vals[0], ast.IfExp) and norm(vals[0].test) == "compact_key_prefixes" \
            and norm(vals[0].body) == f"self._compact_{kind}_key_prefix" \
            and norm(vals[0].orelse) == f"self._default_{kind}_key_prefix"
        if not ok:
            bad.append(f"{kind} prefix selection is `{norm(vals[0], 80) if vals else '?'}`")
        gens = [_pair_generator(g_)[0] for g_ in assignments_to(ser, f"{kind}s")]
        if not (len(gens) == 1 and isinstance(gens[0], ast.GeneratorExp) and isinstance(gens[0].elt, ast.Tuple)
                and norm(gens[0].elt.elts[0]) in (f"f'{{{kind}_key_prefix}}{{k}}'", f"{kind}_key_prefix + k")
                and norm(gens[0].generators[0].iter) == f"self._{kind}s.items()"):
            bad.append(f"{kind} pairs are not (prefix + key, encoded value) over self._{kind}s.items()")
    yield Ob("C05.R1", ["C05", "C04", "C01", "C07"], f"{ser.qual} | row layout", not bad,
             "; ".join(bad) if bad else "(time, measurement, *tag pairs, *field pairs) with the selected prefix pair",
             ser.loc())
    # reader consumes pairs (key at i, value at i + 1, step 2) and starts after time, measurement
    bad = []
    for lp, ix in zip(loops, idxs):
        incs = [n for n in walk_local(lp) if isinstance(n, ast.AugAssign) and norm(n.target) == ix]
        if not incs or any(norm(n.value) != "2" for n in incs):
            bad.append("a loop does not advance by 2")
        if not any(f"{row}[{ix} + 1]" in norm(n) for n in walk_local(lp) if isinstance(n, ast.Assign)):
            bad.append("a loop does not read the value next to the key")
    starts = [norm(v) for v in assignments_to(de, idx)] if idx else []
    if "2" not in starts:
        bad.append(f"key/value pairs start at {starts}, expected index 2")
    if idxs[1] != idxs[0] and idxs[1] is not None:
        # the field loop's cursor must be a plain copy of the tag loop's final cursor
        cur, hops = idxs[1], 0
        while cur != idxs[0] and hops < 5:
            vals = [v for v in assignments_to(de, cur) if not isinstance(v, ast.AugAssign)]
            srcs = {v.id for v in vals if isinstance(v, ast.Name)}
            if len(vals) != 1 or len(srcs) != 1:
                break
            cur = srcs.pop()
            hops += 1
        if cur != idxs[0]:
            bad.append(f"the field loop starts at `{idxs[1]}`, which is not where the tag loop stopped")
    head = {norm(n.targets[0]): norm(n.value) for n in walk_local(de.node) if isinstance(n, ast.Assign)}
    if f"{row}[1]" not in head.values():
        bad.append("measurement is not read from column 1")
    yield Ob("C05.R1", ["C05", "C04", "C01", "C07"], f"{de.qual} | pair layout", not bad,
             "; ".join(bad) if bad else "pairs from column 2, key at i, value at i + 1, step 2", de.loc())


@rule("C05.R2", ["C05", "C04"], min_instances=2, design="3.5")
def in_band_sentinels(ctx):
    """An encoder `SENTINEL if v is None else g(v)` is injective only if SENTINEL is outside g's range (or rejected by the validator / escaped by the decoder)."""
    ser = ctx.prog.func("Point._serialize_to_list", "C05.R2")
    sent = [k for k, v in ctx.prog.cls("Point").consts.items() if k == "_none_str"]
    if not sent:
        raise AnalysisError("C05.R2", "sentinel constant not found")
    sval = const_value(ctx.prog.cls("Point").consts["_none_str"])
    vt = ctx.prog.func("validate_tags", "C05.R2")
    rejects = any(isinstance(n, ast.Compare) and "_none" in norm(n) for n in walk_local(vt.node))
    n_sites = 0
    for n in walk_local(ser.node):
        if isinstance(n, ast.IfExp) and norm(n.body) == "self._none_str":
            n_sites += 1
            other = n.orelse
            t = norm(other)
            slot = "field value" if "float(" in t or "int(" in t else ("tag value" if t.startswith("str(") else "other")
            in_range = t.startswith("str(") and "float(" not in t and "int(" not in t
            ok = not in_range or rejects
            yield Ob("C05.R2", ["C05", "C04"], f"{ser.qual} | {slot} encoder | in-band sentinel", ok,
                     f"sentinel {sval!r} is outside the range of `{t}`" if ok else
                     f"a string value equal to {sval!r} is written exactly like None and decodes to None",
                     ctx.prog.loc(n))
        if isinstance(n, ast.IfExp) and norm(n.orelse) == "self._none_str":
            n_sites += 1
            yield Ob("C05.R2", ["C05", "C04"], f"{ser.qual} | time encoder | in-band sentinel", True,
                     "isoformat text never equals the sentinel; a point in storage always has a time",
                     ctx.prog.loc(n), nontrivial=False)
        if isinstance(n, ast.BoolOp) and isinstance(n.op, ast.Or) and norm(n.values[-1]) == "self._none_str":
            n_sites += 1
            de = ctx.prog.func("Point._deserialize_from_list", "C05.R2")
            mapped_back = any(isinstance(x, ast.IfExp) and "_none_str" in norm(x.test) and "row[1]" in norm(x)
                              for x in walk_local(de.node))
            yield Ob("C05.R2", ["C05", "C04"], f"{ser.qual} | measurement encoder | in-band sentinel", mapped_back,
                     "decoder maps the sentinel back" if mapped_back else
                     f"the empty measurement \"\" is written as {sval!r} and read back as the string {sval!r}; a "
                     f"measurement named {sval!r} and \"\" collide", ctx.prog.loc(n))
    if n_sites < 2:
        raise AnalysisError("C05.R2", "sentinel encoders not found")


@rule("C05.R3", ["C05", "C04", "C11"], min_instances=2, design="3.5")
def lossy_narrowing(ctx):
    """An int|float slot must not be encoded through float(): integers above 2**53 collapse. The decoder's int/float/None discrimination matches the encoder's alphabet."""
    ser = ctx.prog.func("Point._serialize_to_list", "C05.R3")
    n_sites = 0
    for n in walk_local(ser.node):
        if isinstance(n, ast.Call) and norm(n.func) == "str" and n.args and isinstance(n.args[0], ast.Call) \
                and norm(n.args[0].func) == "float":
            n_sites += 1
            yield Ob("C05.R3", ["C05", "C04"], f"{ser.qual} | field value encoder | float narrowing", False,
                     "every field value is narrowed to float64 before printing: ints with magnitude above 2**53 "
                     "come back as a different number (and every int comes back as float)", ctx.prog.loc(n))
    de = ctx.prog.func("Point._deserialize_from_list", "C05.R3")
    # decoder: int if digits (optional leading '-'), else float(), else None
    bad = []
    ints = [n for n in walk_local(de.node) if isinstance(n, ast.Call) and norm(n.func) == "int" and n.args]
    floats = [n for n in walk_local(de.node) if isinstance(n, ast.Call) and norm(n.func) == "float" and n.args]
    if not ints:
        bad.append("no integer branch")
    for c in ints:
        v = norm(c.args[0])
        from ..logic import guard_clauses, guards
        cl = guard_clauses(guards(c))
        want = {(f"truthy({v}.isdigit())", True), (f"truthy({v}[1:].isdigit())", True)}
        if not any(c_ <= want | {(f"eq('-',{v}[0])", True)} and any("isdigit" in a for a, _ in c_) for c_ in cl):
            bad.append(f"int({v}) is not restricted to (optionally negative) digit strings")
    if not floats:
        bad.append("no float branch")
    for c in floats:
        tr = [a for a in ancestors(c) if isinstance(a, ast.Try)]
        if not tr or not any(any(isinstance(s_, ast.Assign) and const_value(s_.value) is None for s_ in h.body)
                             for h in tr[0].handlers):
            bad.append("a value float() cannot parse does not decode to None")
    yield Ob("C05.R3", ["C05", "C04", "C11"], f"{de.qual} | numeric decoding alphabet", not bad,
             "; ".join(bad) if bad else "digits -> int, float() -> float, anything else -> None", de.loc())
    if n_sites == 0:
        yield Ob("C05.R3", ["C05", "C04"], f"{ser.qual} | field value encoder", True,
                 "field values are not narrowed through float()", ser.loc())


@rule("C05.R4", ["C05", "C08", "C04"], min_instances=5, design="3.5")
def lossless_encoders(ctx):
    """Every slot is written with a lossless, argument-free text encoder and read with its inverse (isoformat/fromisoformat, str, str(float)/float)."""
    ser = ctx.prog.func("Point._serialize_to_list", "C05.R4")
    de = ctx.prog.func("Point._deserialize_from_list", "C05.R4")
    # time
    iso = [n for n in walk_local(ser.node) if isinstance(n, ast.Call) and call_name(n) in ("isoformat", "strftime", "ctime", "timestamp")
           or (isinstance(n, ast.Call) and norm(n.func) in ("str", "repr", "format") and n.args and "_time" in norm(n.args[0]))]
    bad = []
    if not iso:
        bad.append("no time encoder found")
    for c in iso:
        if call_name(c) != "isoformat":
            bad.append(f"time is written with `{norm(c, 50)}`, not isoformat()")
        elif c.args or c.keywords:
            bad.append(f"`{norm(c, 60)}` passes arguments to isoformat (a timespec/sep truncates microseconds or changes the "
                       f"format the reader expects)")
        elif norm(c.func.value) not in ("self._time.replace(tzinfo=None)",):
            bad.append(f"isoformat is applied to `{norm(c.func.value, 50)}`, expected the tz-stripped stored time")
    yield Ob("C05.R4", ["C05", "C08", "C04"], f"{ser.qual} | time encoder", not bad,
             "; ".join(bad) if bad else "self._time.replace(tzinfo=None).isoformat() (microseconds kept)", ser.loc())
    rd = [n for n in walk_local(de.node) if isinstance(n, ast.Call) and isinstance(n.func, ast.Attribute)
          and n.func.attr in ("fromisoformat", "strptime", "fromtimestamp", "utcfromtimestamp")]
    bad = []
    if len(rd) != 1 or norm(rd[0].func) != "datetime.fromisoformat":
        bad.append(f"time is read with {[norm(r.func) for r in rd]}, expected datetime.fromisoformat")
    elif [norm(a) for a in rd[0].args] != [f"{de.params()[1]}[0]"]:
        bad.append(f"time is read from `{[norm(a) for a in rd[0].args]}`, expected column 0")
    yield Ob("C05.R4", ["C05", "C08", "C04"], f"{de.qual} | time decoder", not bad,
             "; ".join(bad) if bad else "datetime.fromisoformat(row[0])", de.loc())
    # tag values / field values / keys: the generator expressions of the writer
    for kind in ("tag", "field"):
        gens = [_pair_generator(g_)[0] for g_ in assignments_to(ser, f"{kind}s")]
        bad = []
        if len(gens) != 1 or not isinstance(gens[0], ast.GeneratorExp) or not isinstance(gens[0].elt, ast.Tuple) \
                or len(gens[0].elt.elts) != 2:
            bad.append("pair generator not recognised")
        else:
            ge = gens[0]
            tgt = ge.generators[0].target
            kv = [norm(e) for e in tgt.elts] if isinstance(tgt, ast.Tuple) else []
            if len(kv) != 2:
                bad.append("generator target is not (key, value)")
            else:
                k, v = kv
                key_e, val_e = ge.elt.elts
                if norm(key_e) not in (f"f'{{{kind}_key_prefix}}{{{k}}}'", f"{kind}_key_prefix + {k}"):
                    bad.append(f"key is written as `{norm(key_e, 50)}`, expected prefix + key verbatim")
                ok_val = False
                if isinstance(val_e, ast.IfExp) and norm(val_e.test) == f"{v} is None" and norm(val_e.body) == "self._none_str":
                    enc = norm(val_e.orelse)
                    if kind == "tag" and enc == f"str({v})":
                        ok_val = True
                    if kind == "field" and enc in (f"str(float({v}))", f"repr(float({v}))", f"repr({v})", f"str({v})",
                                                   f"float({v}).__repr__()"):
                        ok_val = True
                    if not ok_val:
                        bad.append(f"{kind} value is written as `{enc}`: not one of the lossless encoders "
                                   f"(formatting, rounding or slicing loses information)")
                else:
                    bad.append(f"{kind} value encoder `{norm(val_e, 60)}` is not `SENTINEL if v is None else <encoder>(v)`")
                if ge.generators[0].ifs or len(ge.generators) != 1:
                    bad.append(f"some {kind} pairs are filtered out while writing")
        yield Ob("C05.R4", ["C05", "C04"], f"{ser.qual} | {kind} pair encoder", not bad,
                 "; ".join(bad[:2]) if bad else "prefix + key verbatim, lossless value text", ser.loc())
    # reader: tag value is the text itself (or None for the sentinel); field value is int()/float() of the text
    bad = []
    row = de.params()[1]
    tv = [n for n in walk_local(de.node) if isinstance(n, ast.IfExp) and "_none_str" in norm(n.test)
          and const_value(n.body) is None]
    ok_tv = False
    for n in tv:
        t = n.test
        if isinstance(t, ast.Compare) and isinstance(t.ops[0], ast.Eq):
            cell = [x for x in (t.left, t.comparators[0]) if norm(x) != "self._none_str"]
            if len(cell) == 1 and isinstance(cell[0], ast.Subscript) and norm(cell[0].value) == row:
                c = norm(cell[0])
                if norm(n.orelse) in (c, f"str({c})"):
                    ok_tv = True
    if not ok_tv:
        bad.append(f"tag value decoder is `{norm(tv[0], 80) if tv else '?'}`, expected "
                   f"`None if cell == SENTINEL else cell`")
    for c in walk_local(de.node):
        if isinstance(c, ast.Call) and norm(c.func) in ("int", "float", "round", "Decimal") and c.args:
            if norm(c.func) in ("round", "Decimal") or len(c.args) != 1 or c.keywords:
                bad.append(f"field value decoder `{norm(c, 50)}` is not int(text)/float(text)")
    yield Ob("C05.R4", ["C05", "C04"], f"{de.qual} | value decoders", not bad,
             "; ".join(bad[:2]) if bad else "tag text verbatim (sentinel -> None); int(text) / float(text)", de.loc())
