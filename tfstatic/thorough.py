"""Thorough tier: the checker is tested both ways on in-memory variants of the
current source (DESIGN.md section 5): seeded breakages must fire (and only the
affected properties may fire), behaviour-preserving rewrites must stay silent."""

from __future__ import annotations

import multiprocessing as mp
import os
from typing import Dict, List, Optional, Set, Tuple

from .context import Ctx
from .model import AnalysisError
from .report import rules_for, run_rule
from . import variants as vmod

_STATE: dict = {}


def _violations(prop: str, overlay: Dict[str, str]) -> Set[Tuple[str, str]]:
    """Violations of `prop` on an overlay; like the driver, a rule that cannot be carried out
    only matters if no other rule reports a violation."""
    ctx = Ctx(_STATE.get("root"), overlay)
    out: Set[Tuple[str, str]] = set()
    errs = []
    for r in rules_for(prop):
        try:
            for o in run_rule(r, ctx, prop):
                if not o.ok:
                    out.add((o.rule, o.key))
        except AnalysisError as e:
            errs.append(e)
    if errs and not (out - _STATE.get("base", set())):
        raise errs[0]
    return out


class CorpusVariant:
    """A committed diff (seeded mutant or refactoring) applied to the current source."""

    def __init__(self, name: str, kind: str, path: str, expect=(), allow=()):
        self.name = name
        self.kind = kind
        self.path = path
        self.expect = set(expect)
        self.allow = set(allow)

    def overlay(self, _norm):
        from . import patches
        try:
            with open(self.path, encoding="utf-8") as fh:
                return patches.apply(_STATE["raw"], fh.read())
        except (patches.PatchError, OSError) as e:
            raise vmod.NotApplicable(f"{self.name}: {e}")


def corpus() -> list:
    import glob
    import json
    from .report import VERIF
    out = []
    for d in sorted(glob.glob(os.path.join(VERIF, "seeded", "*", "meta.json"))):
        try:
            with open(d, encoding="utf-8") as fh:
                m = json.load(fh)
        except (OSError, ValueError):
            continue
        target = m.get("breaks_property")
        det = set(m.get("detected_by_checks", []))
        if not m.get("target_property_detected"):
            continue  # recorded as a miss: nothing to assert
        # the target property must fire; which neighbouring properties also report the breach is
        # recorded in meta.json (detected_by_checks) but not asserted here
        out.append(CorpusVariant("seeded/" + m["id"], "firing", os.path.join(os.path.dirname(d), "patch.diff"),
                                 expect={target}, allow={f"C{i:02d}" for i in range(1, 19)} - {target}))
    for d in sorted(glob.glob(os.path.join(VERIF, "refactors", "*.diff"))):
        out.append(CorpusVariant("refactors/" + os.path.basename(d)[:-5], "silent", d))
    from .global_variants import GLOBAL
    for name, fn in GLOBAL:
        out.append(GlobalVariant(name, fn))
    return out


class GlobalVariant:
    """A programmatic behaviour-preserving transformation of the whole package (must stay silent)."""

    kind = "silent"

    def __init__(self, name, fn):
        self.name = name
        self.fn = fn
        self.expect = set()
        self.allow = set()

    def overlay(self, _norm):
        try:
            return self.fn(_STATE["raw"])
        except Exception as e:
            raise vmod.NotApplicable(f"{self.name}: {type(e).__name__}: {e}")


def _work(i: int):
    v = _STATE["all"][i]
    prop = _STATE["prop"]
    try:
        ov = v.overlay(_STATE["norm"])
    except vmod.NotApplicable as e:
        return (i, "skipped", str(e), [])
    try:
        viol = _violations(prop, ov)
    except AnalysisError as e:
        return (i, "analysis-error", str(e), [])
    except Exception as e:  # pragma: no cover
        return (i, "analysis-error", f"internal: {type(e).__name__}: {e}", [])
    new = sorted(viol - _STATE["base"])
    return (i, "ran", "", new)


def run(prop: str, ctx: Ctx, seed: int, only: Optional[List[str]] = None, jobs: Optional[int] = None) -> dict:
    norm = vmod.normalise_sources(ctx.prog)
    raw = {rel: src for m, (rel, src, tree) in ctx.prog.modules.items()}
    allv = list(vmod.V) + corpus()
    _STATE.update(prop=prop, norm=norm, raw=raw, root=ctx.prog.root, all=allv)
    try:
        _STATE["base"] = _violations(prop, norm)
    except AnalysisError as e:
        return {"thorough_failures": [f"baseline on normalised source: {e}"]}
    idx = [i for i, v in enumerate(allv) if (only is None or v.name in only)]
    # order by seed (the battery is exhaustive; the seed only permutes it)
    if seed:
        import random
        random.Random(seed).shuffle(idx)
    jobs = jobs or min(16, os.cpu_count() or 4)
    if jobs > 1 and len(idx) > 1:
        with mp.get_context("fork").Pool(jobs) as pool:
            res = pool.map(_work, idx, chunksize=2)
    else:
        res = [_work(i) for i in idx]
    failures: List[str] = []
    fired, silent_ok, skipped, crosstalk_ok = 0, 0, 0, 0
    detail = []
    for i, status, msg, new in res:
        v = allv[i]
        if status == "skipped":
            skipped += 1
            detail.append({"variant": v.name, "kind": v.kind, "status": "skipped", "why": msg[:160]})
            continue
        if status == "analysis-error":
            if v.kind == "silent" or prop in v.expect:
                failures.append(f"{v.name} ({v.kind}): analysis error instead of a verdict: {msg[:200]}")
            detail.append({"variant": v.name, "kind": v.kind, "status": "analysis-error", "why": msg[:200]})
            continue
        if v.kind == "silent":
            if new:
                failures.append(f"{v.name} (silent rewrite) raised a false alarm for {prop}: {new[:2]}")
            else:
                silent_ok += 1
        else:
            if prop in v.expect:
                if new:
                    fired += 1
                else:
                    failures.append(f"{v.name} (seeded breakage of {sorted(v.expect)}) was NOT detected by {prop}")
            elif prop in v.allow:
                crosstalk_ok += 1
            else:
                # a property outside expect|allow may report the breach only through a rule that is a
                # declared necessary condition of one of the expected properties as well (dependency
                # tag); a rule that has nothing to do with the seeded breakage must stay quiet
                from .report import RULES
                stray = [x for x in new if not (set(RULES[x[0]].props) & v.expect)] if new else []
                if stray:
                    failures.append(f"{v.name} (breaks {sorted(v.expect)}) made {prop} fire although {prop} still holds: {stray[:2]}")
                else:
                    crosstalk_ok += 1
        detail.append({"variant": v.name, "kind": v.kind, "expect": sorted(v.expect), "new_violations": [list(x) for x in new[:3]]})
    mx = {}
    if os.environ.get("TF_SKIP_MYPY") != "1":
        try:
            from . import mypy_xcheck
            mx = mypy_xcheck.run(ctx)
            for d in mx.get("mypy_disagreements", []):
                failures.append(f"mypy disagrees with the engine's receiver type: {d}")
        except Exception as e:  # pragma: no cover
            mx = {"mypy_available": False, "mypy_note": f"{type(e).__name__}: {e}"}
    out = {
        "variants_total": len(idx),
        "variants_firing": fired,
        "variants_silent": silent_ok,
        "variants_not_affecting_this_property_and_quiet": crosstalk_ok,
        "variants_skipped": skipped,
        "thorough_failures": failures,
        "variant_samples": [d for d in detail if d.get("new_violations")][:12],
    }
    out.update(mx)
    return out
