"""Thorough tier: variant batteries (firing / silent / repaired twins)."""

from __future__ import annotations


def run(prop, ctx, seed):
    return {}
