"""Seeded variants of the current /repo source for testing the checker both ways
(DESIGN.md section 5).

Every variant is a list of text edits applied to the *unparse-normalised* source
of a module (so the edit strings do not depend on the repository's formatting),
held in memory as an overlay -- nothing is written to disk.  Each variant still
parses (checked) and, by reading, is not noticed by the repository's tests.

  firing : breaks a property; the named properties must report a NEW violation
           naming the construct, and no property outside expect|allow may fire
  silent : behaviour-preserving rewrite; NO property may report a new violation
"""

from __future__ import annotations

import ast
import re
from typing import Dict, List, Optional, Sequence, Set, Tuple

from .model import PKG


class NotApplicable(Exception):
    pass


Edit = Tuple[str, str, str, int]  # module, old, new, nth occurrence (1-based; 0 = must be unique)


class Variant:
    def __init__(self, name: str, kind: str, edits: Sequence[Edit], expect: Sequence[str] = (),
                 allow: Sequence[str] = (), note: str = ""):
        self.name = name
        self.kind = kind
        self.edits = list(edits)
        self.expect = set(expect)
        self.allow = set(allow)
        self.note = note

    def overlay(self, normalised: Dict[str, str]) -> Dict[str, str]:
        out = dict(normalised)
        for mod, old, new, nth in self.edits:
            rel = f"{PKG}/{mod}.py"
            src = out.get(rel)
            if src is None:
                raise NotApplicable(f"{self.name}: module {mod} missing")
            cnt = src.count(old)
            if nth == -1:
                if cnt == 0:
                    raise NotApplicable(f"{self.name}: `{old[:50]}` does not occur in {mod}")
                src = re.sub(rf"\b{re.escape(old)}\b", new, src)
                try:
                    ast.parse(src)
                except SyntaxError as e:
                    raise NotApplicable(f"{self.name}: edited {mod} does not parse: {e}")
                out[rel] = src
                continue
            if cnt == 0 or (nth == 0 and cnt != 1) or nth > cnt:
                raise NotApplicable(f"{self.name}: `{old[:50]}` occurs {cnt} times in {mod} (nth={nth})")
            k = 1 if nth == 0 else nth
            idx = -1
            for _ in range(k):
                idx = src.index(old, idx + 1)
            src = src[:idx] + new + src[idx + len(old):]
            try:
                ast.parse(src)
            except SyntaxError as e:
                raise NotApplicable(f"{self.name}: edited {mod} does not parse: {e}")
            out[rel] = src
        return out


def normalise_sources(prog) -> Dict[str, str]:
    out = {}
    for mod, (rel, src, tree) in prog.modules.items():
        out[rel] = ast.unparse(ast.parse(src)) + "\n"
    return out


def word_rename(mod: str, func_header: str, old: str, new: str) -> "callable":
    raise NotImplementedError


V: List[Variant] = []


def F(name, edits, expect, allow=(), note=""):
    V.append(Variant(name, "firing", edits, expect, allow, note))


def S(name, edits, note=""):
    V.append(Variant(name, "silent", edits, (), (), note))


IDX, DB, ST, QR, PT, MS, UT = "index", "database", "storages", "queries", "point", "measurement", "utils"

# ----------------------------------------------------------------- firing: reverse of the fix commits
F("reset_forgets_positions", [(IDX, "        self._storage_pos_sorted_by_ts = []\n", "", 2)], ["C06"], ["C01", "C07", "C02"])
F("remove_filters_by_rank", [(IDX,
   "        for ts, pos in zip(self._timestamps, self._storage_pos_sorted_by_ts):\n            if pos not in r_items:\n                new_timestamps.append(ts)\n                new_positions.append(pos)\n        self._timestamps = new_timestamps\n        self._storage_pos_sorted_by_ts = new_positions\n",
   "        for i, ts in enumerate(self._timestamps):\n            if i not in r_items:\n                new_timestamps.append(ts)\n        self._timestamps = new_timestamps\n", 0)],
  ["C06"], ["C01", "C02", "C07"])
F("update_skips_positions", [(IDX, "        self._update_timestamps(u_items)\n", "", 0)], ["C06"], ["C01", "C02", "C07"])
F("build_valid_early", [(IDX, "        self._reset()\n        self._valid = False\n", "        self._reset()\n", 1)], ["C06", "C13"])
F("insert_handler_does_not_invalidate", [(DB, "            if unindexed:\n                self._index.invalidate()\n            raise\n", "            raise\n", 0)],
  ["C06", "C11", "C13"])
F("remove_swap_failure_keeps_index", [(DB,
   "        try:\n            self._storage._swap_temp_with_primary()\n        except BaseException:\n            self._index.invalidate()\n            raise\n",
   "        self._storage._swap_temp_with_primary()\n", 0)], ["C13"], ["C06"])
F("update_invalidates_after_swap", [(DB,
   "        self._index.invalidate()\n        self._storage._swap_temp_with_primary()\n",
   "        self._storage._swap_temp_with_primary()\n        self._index.invalidate()\n", 0)], ["C13"], ["C06"])
F("temp_file_default_encoding", [(ST, "NamedTemporaryFile('w+t', encoding=self._encoding, newline=self._newline, delete=False)",
                                  "NamedTemporaryFile('w+t', newline='', delete=False)", 0)], ["C04"])
F("no_flush_before_copy", [(ST, "            self._temp_handle.flush()\n            self._handle.close()\n", "            self._handle.close()\n", 0)], ["C04"])
F("reopen_with_original_mode", [(ST, "mode='r+' if self._mode in ('w', 'w+') else self._mode", "mode=self._mode", 0)],
  ["C04", "C12", "C13"])
F("cleanup_does_not_unlink", [(ST, "            if os.path.exists(name):\n                os.remove(name)\n", "", 0)], ["C15"])
F("temp_op_without_finally", [(DB,
   "        try:\n            rst = method(self, *args, **kwargs)\n        finally:\n            self._storage._cleanup_temp_storage()\n        return rst\n",
   "        rst = method(self, *args, **kwargs)\n        self._storage._cleanup_temp_storage()\n        return rst\n", 0)],
  ["C15", "C11", "C13"])
F("len_counts_lines", [(ST, "return sum((1 for _ in csv.reader(self._handle, **self.kwargs)))", "return sum((1 for _ in self._handle))", 0)],
  ["C07", "C04"])
F("field_values_container_level", [(IDX,
   "            field_values = [i[1] for i in items if i[0] in measurement_items]\n            rst.extend(field_values)\n",
   "            if measurement_items.intersection(set([i[0] for i in items])):\n                rst.extend([i[1] for i in items])\n", 0)],
  ["C07", "C10"])
F("update_time_not_normalised", [(DB, "                assert point.time\n                point.time = point.time.astimezone(timezone.utc)\n", "", 0)], ["C08"])
F("callable_tags_unvalidated", [(DB, "                        validate_tags(new_tags)\n", "", 0)], ["C14", "C03", "C11"])
F("callable_fields_unvalidated", [(DB, "                        validate_fields(new_fields)\n", "", 0)], ["C14", "C03", "C11"])
F("regex_match_unguarded", [(QR, "            if not isinstance(value, str):\n                return False\n            return re.match(regex, value, flags) is not None\n",
                             "            return re.match(regex, value, flags) is not None\n", 0)], ["C09"])
F("regex_flags_not_hashed", [(QR, "hashval=(self._point_attr, 'search', self._path, regex, flags)", "hashval=(self._point_attr, 'search', self._path, regex)", 0)],
  ["C17"])
F("compound_and_head_differs", [(QR, "hashval = ('and', frozenset([self._hash, other._hash]))", "hashval = ('and_', frozenset([self._hash, other._hash]))", 1)],
  ["C17"])
F("fields_leaf_tests_raw_value", [(IDX,
   "                try:\n                    test_value = query._path_resolver({field_key: value})\n                except Exception:\n                    continue\n                if query._test(test_value):\n",
   "                try:\n                    query._path_resolver({field_key: 0.0})\n                except Exception:\n                    continue\n                if query._test(value):\n", 0)],
  ["C01"])
F("fields_leaf_resolves_dummy", [(IDX, "test_value = query._path_resolver({field_key: value})", "test_value = query._path_resolver({field_key: 0.0})", 0)],
  ["C01"])

# ----------------------------------------------------------------- firing: rule-directed mutations (DESIGN 5.1)
F("remove_index_loop_drops_keep", [(DB,
   "                if j == len(index_rst._items) or i not in index_rst._items:\n                    self._storage.append([item], temporary=True)\n                    if i != new_position:",
   "                if j == len(index_rst._items) or i not in index_rst._items:\n                    if i != new_position:", 0)],
  ["C02"], ["C11"])
F("remove_scan_loop_drops_keep", [(DB,
   "                else:\n                    self._storage.append([item], temporary=True)\n                    keep_count += 1\n",
   "                else:\n                    keep_count += 1\n", 0)], ["C02"])
F("remove_keeps_twice", [(DB,
   "                    if _measurement != measurement:\n                        self._storage.append([item], temporary=True)\n",
   "                    if _measurement != measurement:\n                        self._storage.append([item], temporary=True)\n                        self._storage.append([item], temporary=True)\n", 0)],
  ["C02"])
F("remove_renumber_unguarded", [(DB, "                    if i != new_position:\n                        updated_items[i] = new_position\n                    new_position += 1\n",
                                 "                    new_position += 1\n                    if i != new_position:\n                        updated_items[i] = new_position\n", 0)],
  ["C02"], ["C06"])
F("remove_returns_keep_count", [(DB, "        return len(removed_items)\n\n    def _reset_database", "        return keep_count\n\n    def _reset_database", 0)], ["C02"])
F("remove_swaps_on_noop", [(DB, "        if not len(removed_items):\n            return 0\n", "", 0)], ["C02", "C15"])
F("update_counts_unchanged", [(DB,
   "                else:\n                    self._storage.append([item], temporary=True)\n                j += 1\n",
   "                else:\n                    self._storage.append([item], temporary=True)\n                    update_count += 1\n                j += 1\n", 0)],
  ["C03"])
F("update_rewrites_unconditionally", [(DB,
   "                    u = perform_update(_point)\n                    if u:\n                        self._storage.append([self._storage._serialize_point(_point)], temporary=True)\n                        update_count += 1\n                        continue\n",
   "                    u = perform_update(_point)\n                    self._storage.append([self._storage._serialize_point(_point)], temporary=True)\n                    update_count += 1\n                    continue\n", 0)],
  ["C03"])
F("update_scan_ignores_query", [(DB, "                if update_all or query(_point):\n", "                if True:\n", 0)], ["C03"], ["C10"])
F("update_static_tags_replace", [(DB, "                    point.tags.update(tags)\n", "                    point.tags = tags\n", 0)], ["C03"], ["C14"])
F("update_snapshot_is_alias", [(DB, "            old_point = copy.deepcopy(point)\n", "            old_point = point\n", 0)], ["C03"])
F("update_unset_before_merge", [(DB,
   "            if unset_tags:\n                if isinstance(unset_tags, str):\n                    point.tags.pop(unset_tags, None)\n                else:\n                    for i in unset_tags:\n                        point.tags.pop(i, None)\n",
   "", 0), (DB, "            if tags:\n                if callable(tags):\n",
            "            if unset_tags:\n                if isinstance(unset_tags, str):\n                    point.tags.pop(unset_tags, None)\n                else:\n                    for i in unset_tags:\n                        point.tags.pop(i, None)\n            if tags:\n                if callable(tags):\n", 0)],
  ["C03"])
F("update_pop_without_default", [(DB, "point.fields.pop(unset_fields, None)", "point.fields.pop(unset_fields)", 0)], ["C03"])
F("update_all_passes_filter_swapped", [(DB, "unset_fields=unset_fields, unset_tags=unset_tags)\n\n    @read_op\n    @write_op\n    @temp_storage_op\n    def update_all",
                                        "unset_fields=unset_tags, unset_tags=unset_fields)\n\n    @read_op\n    @write_op\n    @temp_storage_op\n    def update_all", 0)],
  ["C03"], ["C10"])
F("count_filter_polarity_flipped", [(DB, "if measurement and (not self._storage._deserialize_measurement(item) == measurement):", "if measurement and self._storage._deserialize_measurement(item) == measurement:", 0)],
  ["C01", "C10"])
F("search_scan_ignores_query", [(DB, "                if query(_point):\n                    found_points.append(_point)\n", "                found_points.append(_point)\n", 0)],
  ["C01"], ["C10"])
F("get_field_keys_scan_unfiltered", [(DB,
   "            if measurement and self._storage._deserialize_measurement(item) != measurement:\n                continue\n            _point = self._storage._deserialize_storage_item(item)\n            for fk in _point.fields.keys():",
   "            _point = self._storage._deserialize_storage_item(item)\n            for fk in _point.fields.keys():", 0)],
  ["C07", "C10"])
F("contains_index_drops_filter", [(DB, "                index_rst = self._index.search(mq & query)\n            else:\n                index_rst = self._index.search(query)\n            return len(index_rst._items) > 0",
                                   "                index_rst = self._index.search(query)\n            else:\n                index_rst = self._index.search(query)\n            return len(index_rst._items) > 0", 0)],
  ["C01", "C10"])
F("search_sorts_reverse", [(DB, "found_points.sort(key=lambda x: (x.time is None, x.time))", "found_points.sort(key=lambda x: (x.time is None, x.time), reverse=True)", 0)],
  ["C01", "C08", "C07"])
F("measurement_update_args_swapped", [(MS, "return self._db.update(query, time, measurement, tags, fields, unset_fields, unset_tags, self._name)",
                                       "return self._db.update(query, measurement, time, tags, fields, unset_fields, unset_tags, self._name)", 0)],
  ["C10", "C03"])
F("measurement_count_drops_filter", [(MS, "return self._db.count(query, self._name)", "return self._db.count(query)", 0)], ["C10"])
F("measurement_remove_all_wrong_target", [(MS, "return self._db.drop_measurement(self._name)", "return self._db.remove_all()", 0)], ["C10", "C02"])
F("measurement_len_inverted", [(MS, "            if self._db._storage._deserialize_measurement(item) == self._name:\n                count += 1", "            if self._db._storage._deserialize_measurement(item) != self._name:\n                count += 1", 0)],
  ["C10", "C07"])
F("append_without_seek_end", [(ST, "        handle.seek(0, os.SEEK_END)\n        csv_writer", "        csv_writer", 0)], ["C04", "C16"])
F("remove_gate_inside_temp_op", [(DB, "    @read_op\n    @write_op\n    @temp_storage_op\n    def remove(", "    @read_op\n    @temp_storage_op\n    @write_op\n    def remove(", 0)],
  ["C15"], ["C11"])
F("insert_ungated", [(DB, "    @append_op\n    def insert(", "    def insert(", 0)], ["C15"], ["C11"])
F("insert_reads_storage", [(DB, "        t = datetime.now(timezone.utc)\n        count = 0\n", "        t = datetime.now(timezone.utc)\n        count = len(self._storage.read()) * 0\n", 0)],
  ["C16"], ["C15", "C12"])
F("fsync_error_swallowed", [(ST, "            handle.flush()\n            os.fsync(handle.fileno())\n            handle.truncate()\n        return\n\n    def close",
                             "            handle.flush()\n            try:\n                os.fsync(handle.fileno())\n            except OSError:\n                pass\n            handle.truncate()\n        return\n\n    def close", 0)],
  ["C13"], ["C12"])
F("fsync_before_flush", [(ST, "            handle.flush()\n            os.fsync(handle.fileno())\n            handle.truncate()\n        return\n\n    def close",
                          "            os.fsync(handle.fileno())\n            handle.flush()\n            handle.truncate()\n        return\n\n    def close", 0)],
  ["C12"], ["C13", "C04"])
F("reset_forgets_tags", [(IDX, "        self._tags = {}\n", "", 2)], ["C06"], ["C01", "C07"])
F("count_reads_index_when_invalid", [(DB, "        if self._index.valid:\n            if measurement:\n                mq = MeasurementQuery() == measurement\n                index_rst = self._index.search(mq & query)\n            else:\n                index_rst = self._index.search(query)\n            return len(index_rst._items)\n",
                                      "        if self._auto_index:\n            if measurement:\n                mq = MeasurementQuery() == measurement\n                index_rst = self._index.search(mq & query)\n            else:\n                index_rst = self._index.search(query)\n            return len(index_rst._items)\n", 0)],
  ["C06", "C01"], ["C07"])
F("read_gate_does_not_reindex", [(DB, "        if self._auto_index and (not self._index.valid):\n            self.reindex()\n        return method", "        return method", 0)], ["C06"])
F("insert_order_test_non_strict", [(DB, "point.time < self._index.latest_time", "point.time <= self._index.latest_time", 0)], ["C06"], ["C01", "C18"])
F("find_le_uses_bisect_left", [(UT, "    i = bisect.bisect_right(sorted_list, x)\n    if i:\n        return i - 1", "    i = bisect.bisect_left(sorted_list, x)\n    if i:\n        return i - 1", 0)],
  ["C18", "C01"])
F("find_lt_off_by_one", [(UT, "    i = bisect.bisect_left(sorted_list, x)\n    if i:\n        return i - 1", "    i = bisect.bisect_left(sorted_list, x)\n    if i:\n        return i", 0)],
  ["C18", "C01"])
F("find_eq_guard_dropped", [(UT, "if i != len(sorted_list) and sorted_list[i] == x:", "if i != len(sorted_list):", 0)], ["C18", "C01"])
F("time_lt_slice_excludes_boundary", [(IDX, "return set(self._storage_pos_sorted_by_ts[:match + 1])", "return set(self._storage_pos_sorted_by_ts[:match])", 1)],
  ["C01", "C08"])
F("time_ge_uses_find_gt", [(IDX, "match = find_ge(self._timestamps, rhs.timestamp())", "match = find_gt(self._timestamps, rhs.timestamp())", 0)], ["C01", "C08"])
F("index_and_is_union", [(IDX, "return IndexResult(self._items.intersection(other._items), self._index_count)", "return IndexResult(self._items.union(other._items), self._index_count)", 0)],
  ["C01"])
F("index_not_branch_visits_and", [(IDX, "            if query.operator == operator.or_:\n                rst1 = self._search_helper(query.query1)\n                rst2 = self._search_helper(query.query2)\n                return rst1 | rst2",
                                   "            if query.operator == operator.or_:\n                rst1 = self._search_helper(query.query1)\n                rst2 = self._search_helper(query.query1)\n                return rst1 | rst2", 0)],
  ["C01"], ["C09"])
F("tags_leaf_adds_when_false", [(IDX, "                if query._test(test_value):\n                    rst_items = rst_items.union(set(items))\n        return rst_items\n\n    def _search_timestamps",
                                 "                if not query._test(test_value):\n                    rst_items = rst_items.union(set(items))\n        return rst_items\n\n    def _search_timestamps", 0)],
  ["C01"])
F("lt_hash_drops_rhs", [(QR, "hashval=(self._point_attr, '<', self._path, rhs)", "hashval=(self._point_attr, '<', self._path)", 0)], ["C17"])
F("le_shares_head_with_lt", [(QR, "hashval=(self._point_attr, '<=', self._path, rhs)", "hashval=(self._point_attr, '<', self._path, rhs)", 0)], ["C17"])
F("invert_uses_bitwise_inv", [(QR, "return CompoundQuery(self, None, operator.not_, hashval)", "return CompoundQuery(self, None, operator.inv, hashval)", 1)], ["C09"], ["C17"])
F("and_swallows_other", [(QR, "return CompoundQuery(self, other, operator.and_, hashval)", "return CompoundQuery(self, self, operator.and_, hashval)", 1)], ["C09"], ["C17"])
F("le_uses_lt", [(QR, "operator=operator.le, test_against_rhs=True", "operator=operator.lt, test_against_rhs=True", 0)], ["C09"], ["C17"])
F("path_failure_is_true", [(QR, "        except Exception:\n            return False\n        return self._test(value)", "        except Exception:\n            return True\n        return self._test(value)", 0)],
  ["C09"], ["C01"])
F("compound_call_repeats_q1", [(QR, "return self.operator(self.query1(point), self.query2(point))", "return self.operator(self.query1(point), self.query1(point))", 0)], ["C09"])
F("map_keeps_hash", [(QR, "        query._hash = None\n        return query", "        query._hash = self._hash\n        return query", 0)], ["C17"])
F("eq_ignores_none_hash", [(QR, "if isinstance(other, SimpleQuery) and self._hash and other._hash:", "if isinstance(other, SimpleQuery):", 0)], ["C17"])
F("and_identity_is_tuple", [(QR, "hashval = ('and', frozenset([self._hash, other._hash]))", "hashval = ('and', (self._hash, other._hash))", 2)], ["C17"])
F("compact_tag_prefix_ambiguous", [(PT, "_compact_tag_key_prefix = 't_'", "_compact_tag_key_prefix = '_t'", 0)], ["C05"], ["C04"])
F("field_prefix_strip_wrong_len", [(PT, "f_key = row[i][len(self._default_field_key_prefix):]", "f_key = row[i][len(self._default_tag_key_prefix):]", 0)], ["C05"], ["C04"])
F("fields_written_before_tags", [(PT, "row = (t, m, *(i for p in tags for i in p), *(i for p in fields for i in p))", "row = (t, m, *(i for p in fields for i in p), *(i for p in tags for i in p))", 0)],
  ["C05"], ["C04"])
F("validate_fields_accepts_bool", [(PT, "if isinstance(i, bool) or not isinstance(i, (int, float)):", "if not isinstance(i, (int, float)):", 0)], ["C14"])
F("validate_tags_accepts_any_value", [(PT, "if not all((i is None or isinstance(i, str) for i in tags.values())):", "if not all((i is None or isinstance(i, (str, int)) for i in tags.values())):", 0)], ["C14"])
F("time_setter_unvalidated", [(PT, "        if not isinstance(value, datetime):\n            raise ValueError('Time must be datetime object.')\n        self._time = value", "        self._time = value", 0)],
  ["C14"])
F("insert_gate_after_append", [(DB, "                if not isinstance(point, Point):\n                    raise TypeError('Data must be a Point instance.')\n", "", 0),
                               (DB, "                count += 1\n        except BaseException:", "                if not isinstance(point, Point):\n                    raise TypeError('Data must be a Point instance.')\n                count += 1\n        except BaseException:", 0)],
  ["C14", "C11"], ["C08", "C06", "C13"])
F("insert_default_time_naive", [(DB, "        t = datetime.now(timezone.utc)\n        count = 0", "        t = datetime.now()\n        count = 0", 0)], ["C08"])
F("get_tag_keys_scan_unsorted", [(DB, "            for tk in _point.tags.keys():\n                rst.add(tk)\n        return sorted(rst)", "            for tk in _point.tags.keys():\n                rst.add(tk)\n        return list(rst)", 0)],
  ["C07"])
F("index_timestamps_sorted_by_time", [(IDX, "return [i[0] for i in sorted(zipped, key=lambda x: x[1])]", "return [i[0] for i in sorted(zipped, key=lambda x: x[0])]", 2)], ["C07"])
F("len_always_from_storage_index_mismatch", [(DB, "        if self._auto_index and self._index.valid:\n            return len(self._index)\n        return len(self._storage)",
                                              "        if self._auto_index and self._index.valid:\n            return len(self._index._timestamps) + 0 * len(self._index)\n        return len(self._storage)", 0)],
  ["C07"], ["C06"])
F("memory_update_helper_write_primary", [(DB, "                    self._storage.append([item], temporary=True)\n                    continue\n                _point = self._storage._deserialize_storage_item(item)\n                u = perform_update(_point)",
                                          "                    self._storage.append([item])\n                    continue\n                _point = self._storage._deserialize_storage_item(item)\n                u = perform_update(_point)", 0)],
  ["C11", "C03"], ["C12", "C06", "C13"])
F("reset_writes_data", [(ST, "        self._write([])\n        return\n\n    def _check_for_existing_data", "        self._write([['x']])\n        return\n\n    def _check_for_existing_data", 0)],
  ["C12"], ["C15", "C13", "C06", "C11", "C02"])
F("insert_loops_over_storage", [(ST, "        for item in items:\n            csv_writer.writerow(item)\n", "        for item in items:\n            for _ in self:\n                pass\n            csv_writer.writerow(item)\n", 0)],
  ["C16"], ["C15", "C12", "C04"])

F("insert_time_position_after_append", [(IDX, "        self._storage_pos_sorted_by_ts.append(len(self._timestamps))\n        self._timestamps.append(time.timestamp())\n",
   "        self._timestamps.append(time.timestamp())\n        self._storage_pos_sorted_by_ts.append(len(self._timestamps))\n", 0)], ["C06", "C01"])
F("insert_maps_use_loop_index", [(IDX, "            self._insert_tags(new_idx, point.tags)\n", "            self._insert_tags(idx, point.tags)\n", 0)], ["C06", "C01"])
F("build_fields_off_by_one", [(IDX, "            self._insert_fields(idx, point.fields)\n", "            self._insert_fields(idx + 1, point.fields)\n", 0)], ["C06", "C01"])

# ----------------------------------------------------------------- silent: behaviour-preserving rewrites (DESIGN 5.2)
S("roundtrip_unparse", [])
S("contains_guard_not_eq", [(DB, "if measurement and self._storage._deserialize_measurement(item) != measurement:\n                continue\n            if query(self._storage._deserialize_storage_item(item)):\n                contains = True",
                             "if measurement and (not self._storage._deserialize_measurement(item) == measurement):\n                continue\n            if query(self._storage._deserialize_storage_item(item)):\n                contains = True", 0)])
S("count_nested_if_instead_of_continue", [(DB,
   "            if measurement and (not self._storage._deserialize_measurement(item) == measurement):\n                continue\n            if query(self._storage._deserialize_storage_item(item)):\n                count += 1\n",
   "            if not measurement or self._storage._deserialize_measurement(item) == measurement:\n                if query(self._storage._deserialize_storage_item(item)):\n                    count += 1\n", 0)])
S("index_and_operator_form", [(IDX, "return IndexResult(self._items.intersection(other._items), self._index_count)", "return IndexResult(self._items & other._items, self._index_count)", 0)])
S("reset_reordered", [(IDX, "        self._tags = {}\n        self._fields = {}\n        self._measurements = {}\n        self._timestamps = []\n        self._storage_pos_sorted_by_ts = []\n        self._valid = True",
                       "        self._fields = {}\n        self._tags = {}\n        self._timestamps = []\n        self._measurements = {}\n        self._storage_pos_sorted_by_ts = []\n        self._valid = True", 0)])
S("validate_fields_two_isinstance", [(PT, "if isinstance(i, bool) or not isinstance(i, (int, float)):", "if isinstance(i, bool) or not (isinstance(i, int) or isinstance(i, float)):", 0)])
S("find_lt_explicit_gt", [(UT, "    i = bisect.bisect_left(sorted_list, x)\n    if i:\n        return i - 1", "    i = bisect.bisect_left(sorted_list, x)\n    if i > 0:\n        return i - 1", 0)])
S("find_ge_lt_len", [(UT, "    i = bisect.bisect_left(sorted_list, x)\n    if i != len(sorted_list):\n        return i\n    return None", "    i = bisect.bisect_left(sorted_list, x)\n    if i < len(sorted_list):\n        return i\n    return None", 0)])
S("find_gt_conditional_expression", [(UT, "    i = bisect.bisect_right(sorted_list, x)\n    if i != len(sorted_list):\n        return i\n    return None", "    i = bisect.bisect_right(sorted_list, x)\n    return i if i != len(sorted_list) else None", 0)])
S("measurement_count_keyword", [(MS, "return self._db.count(query, self._name)", "return self._db.count(query, measurement=self._name)", 0)])
S("measurement_update_keywords", [(MS, "return self._db.update(query, time, measurement, tags, fields, unset_fields, unset_tags, self._name)",
                                   "return self._db.update(query, time=time, measurement=measurement, tags=tags, fields=fields, unset_tags=unset_tags, unset_fields=unset_fields, _measurement=self._name)", 0)])
S("search_all_shortcut_operands_swapped", [(DB, "            if len(index_rst._items) == len(self._index):\n                use_index = False\n        found_points", "            if len(self._index) == len(index_rst._items):\n                use_index = False\n        found_points", 0)])
S("updater_fields_before_tags", [(DB, "            if tags:\n                if callable(tags):\n                    old_tags = copy.deepcopy(point.tags)\n                    try:\n                        new_tags = tags(old_tags)\n                        validate_tags(new_tags)\n                        point.tags.update(new_tags)\n                    except ValueError:\n                        raise ValueError('Tags must update to a valid TagSet.')\n                else:\n                    point.tags.update(tags)\n",
                                  "", 0),
                                 (DB, "            if unset_tags:\n                if isinstance(unset_tags, str):",
                                  "            if tags:\n                if callable(tags):\n                    old_tags = copy.deepcopy(point.tags)\n                    try:\n                        new_tags = tags(old_tags)\n                        validate_tags(new_tags)\n                        point.tags.update(new_tags)\n                    except ValueError:\n                        raise ValueError('Tags must update to a valid TagSet.')\n                else:\n                    point.tags.update(tags)\n            if unset_tags:\n                if isinstance(unset_tags, str):", 0)])
S("remove_scan_filter_single_condition", [(DB,
   "                if measurement:\n                    _measurement = self._storage._deserialize_measurement(item)\n                    if _measurement != measurement:\n                        self._storage.append([item], temporary=True)\n                        keep_count += 1\n                        continue\n",
   "                if measurement and self._storage._deserialize_measurement(item) != measurement:\n                    self._storage.append([item], temporary=True)\n                    keep_count += 1\n                    continue\n", 0)])
S("time_empty_set_literal", [(IDX, "return set([])", "return set()", 1)])
S("csv_append_writerows", [(ST, "        for item in items:\n            csv_writer.writerow(item)\n", "        csv_writer.writerows(items)\n", 0)])
S("get_loop_vars_renamed", [(DB, "            for i, item in enumerate(self._storage):\n                if i not in index_rst._items:\n                    continue\n                got_point = self._storage._deserialize_storage_item(item)\n                break",
                             "            for pos, row in enumerate(self._storage):\n                if pos not in index_rst._items:\n                    continue\n                got_point = self._storage._deserialize_storage_item(row)\n                break", 0)])
S("eq_none_flipped", [(IDX, "            if match is None:\n                return set([])\n            results", "            if None is match:\n                return set([])\n            results", 1)])
S("remove_helper_drop_set_renamed", [(DB, "removed_items", "gone_items", -1)])
S("update_helper_counter_renamed", [(DB, "update_count", "n_changed", -1)])
S("insert_flag_renamed", [(DB, "unindexed", "storage_ahead", -1)])
S("cleanup_unlink_via_os_unlink", [(ST, "                os.remove(name)\n", "                os.unlink(name)\n", 0)])
S("swap_close_instead_of_flush", [(ST, "            self._temp_handle.flush()\n            self._handle.close()\n", "            self._temp_handle.close()\n            self._handle.close()\n", 0)])
S("temp_op_try_except_reraise", [(DB,
   "        try:\n            rst = method(self, *args, **kwargs)\n        finally:\n            self._storage._cleanup_temp_storage()\n        return rst\n",
   "        try:\n            rst = method(self, *args, **kwargs)\n        except BaseException:\n            self._storage._cleanup_temp_storage()\n            raise\n        self._storage._cleanup_temp_storage()\n        return rst\n", 0)])
S("build_sets_valid_via_local", [(IDX, "        self._storage_pos_sorted_by_ts = [i[1] for i in timestamp_buffer]\n        self._valid = True\n", "        positions = [i[1] for i in timestamp_buffer]\n        self._storage_pos_sorted_by_ts = positions\n        self._valid = True\n", 0)])
S("len_iterates_self", [(ST, "        self._handle.seek(0)\n        return sum((1 for _ in csv.reader(self._handle, **self.kwargs)))", "        return sum((1 for _ in self))", 0)])
S("perform_update_not_equal_form", [(DB, "            return point != old_point\n", "            return not point == old_point\n", 0)])
S("reopen_mode_via_local", [(ST, "            self._handle = open(self._path, mode='r+' if self._mode in ('w', 'w+') else self._mode, encoding=self._encoding, newline=self._newline)",
                             "            reopen_mode = 'r+' if self._mode in ('w', 'w+') else self._mode\n            self._handle = open(self._path, mode=reopen_mode, encoding=self._encoding, newline=self._newline)", 0)])

S("private_helpers_renamed", [(m, a, b, -1) for a, b in (("_remove_helper", "_remove_points"), ("_update_helper", "_rewrite_points"),
                                                          ("_reset_database", "_wipe"), ("_generate_updater", "_make_updater"),
                                                          ("_insert_helper", "_put_points"), ("_search_timestamps", "_find_times"),
                                                          ("_search_fields", "_find_fields")) for m in (DB, IDX)
                              if not (m == IDX and a in ("_remove_helper", "_update_helper", "_reset_database", "_generate_updater", "_insert_helper"))
                              and not (m == DB and a.startswith("_search"))])
S("private_attributes_renamed", [(m, a, b, -1) for a, b in (("_temp_handle", "_staging"), ("_handle", "_fh"),
                                                             ("_temp_memory", "_staged"), ("_memory", "_rows"))
                                 for m in (ST,)])
S("more_private_methods_renamed", [(IDX, "_insert_time", "_index_time", -1), (IDX, "_remove_tags", "_prune_tags", -1),
                                   (IDX, "_update_fields", "_renumber_fields", -1),
                                   (ST, "_swap_temp_with_primary", "_publish_staged", -1), (DB, "_swap_temp_with_primary", "_publish_staged", -1),
                                   (ST, "_init_temp_storage", "_begin_staging", -1), (DB, "_init_temp_storage", "_begin_staging", -1),
                                   (ST, "_cleanup_temp_storage", "_end_staging", -1), (DB, "_cleanup_temp_storage", "_end_staging", -1),
                                   (PT, "_validate_kwargs", "_check_kwargs", -1),
                                   (PT, "_serialize_to_list", "_to_row", -1), (ST, "_serialize_to_list", "_to_row", -1),
                                   (PT, "_deserialize_from_list", "_from_row", -1), (ST, "_deserialize_from_list", "_from_row", -1)])
S("index_position_array_renamed", [(IDX, "_storage_pos_sorted_by_ts", "_positions_by_time", -1)])

# ---- round 3: selection guards, unowned staging file, two-site temporary-list leak
F("update_all_through_index", [(DB, "use_index = not update_all and self._index.valid", "use_index = self._index.valid", 0)],
  ["C03", "C01", "C10"])
F("drop_measurement_noop_query", [(DB, "self._remove_helper(MeasurementQuery() == name, name)",
                                  "self._remove_helper(MeasurementQuery().noop(), name)", 0)], ["C02", "C10"])
F("reset_skips_storage_when_index_empty", [(DB, "        self._storage.reset()\n        self._measurements.clear()\n",
                                            "        if not self._index.empty:\n            self._storage.reset()\n        self._measurements.clear()\n", 0)],
  ["C02", "C04", "C07", "C06"], ["C01"])
F("swap_via_unowned_staging_file", [(ST, "            shutil.copy(self._temp_handle.name, self._path)\n",
                                     "            staged = f'{self._path}.swap'\n            shutil.copy(self._temp_handle.name, staged)\n            os.replace(staged, self._path)\n", 0)],
  ["C15"])
S("swap_via_owned_staging_file", [(ST, "            shutil.copy(self._temp_handle.name, self._path)\n",
                                   "            staged = f'{self._path}.swap'\n            try:\n                shutil.copy(self._temp_handle.name, staged)\n                os.replace(staged, self._path)\n            except BaseException:\n                if os.path.exists(staged):\n                    os.remove(staged)\n                raise\n", 0)])
S("memory_temp_reset_by_release_only", [(ST, '        """Initialize temporary storage."""\n        self._temp_memory = []\n',
                                         '        """Initialize temporary storage."""\n        pass\n', 0)])
F("memory_temp_leak_two_sites", [(ST, '        """Initialize temporary storage."""\n        self._temp_memory = []\n',
                                  '        """Initialize temporary storage."""\n        pass\n', 0),
                                 (DB, "        try:\n            rst = method(self, *args, **kwargs)\n        finally:\n            self._storage._cleanup_temp_storage()\n        return rst\n",
                                  "        rst = method(self, *args, **kwargs)\n        self._storage._cleanup_temp_storage()\n        return rst\n", 0)],
  ["C15", "C11", "C13", "C02", "C03"])

# ---- round 4: aliasing, projections, exception-discarding control flow, gates, identity images
F("index_reset_aliases_arrays", [(IDX, "        self._timestamps = []\n        self._storage_pos_sorted_by_ts = []\n        self._valid = True\n        return\n",
                                  "        self._timestamps = self._storage_pos_sorted_by_ts = []\n        self._valid = True\n        return\n", 0)],
  ["C06", "C01", "C07", "C02"])
F("point_init_aliases_slots", [(PT, "            self._tags = {}\n            self._fields = {}\n", "            self._tags = self._fields = {}\n", 0)],
  ["C14", "C03", "C05"])
F("deserialize_measurement_strips", [(ST, "        return row[self._measurement_idx]\n", "        return row[self._measurement_idx].strip()\n", 0)],
  ["C10", "C01", "C07", "C02", "C03"])
F("exit_returns_in_finally", [(DB, "        if self._open:\n            self.close()\n        return\n",
                               "        try:\n            if self._open:\n                self.close()\n        finally:\n            self._open = False\n            return\n", 0)],
  ["C13", "C11", "C15"])
F("create_file_ungated", [(ST, "        if any((i in self._mode for i in ('+', 'w', 'a'))):\n            create_file(path, create_dirs=create_dirs)\n",
                           "        create_file(path, create_dirs=create_dirs)\n", 0)], ["C15"])
F("measurement_remove_all_fast_path", [(MS, "        return self._db.drop_measurement(self._name)\n",
                                        "        if not len(self):\n            return 0\n        return self._db.drop_measurement(self._name)\n", 0)],
  ["C10", "C15"])
F("test_identity_by_qualname", [(QR, "hashval=(self._point_attr, 'test', self._path, func, args))",
                                 "hashval=(self._point_attr, 'test', self._path, getattr(func, '__qualname__', func), args))", 0)], ["C17"])
F("find_gt_negative_shortcut", [(UT, "    i = bisect.bisect_right(sorted_list, x)\n    if i != len(sorted_list):\n        return i\n    return None\n",
                                 "    if x < 0:\n        return 0 if sorted_list else None\n    i = bisect.bisect_right(sorted_list, x)\n    if i != len(sorted_list):\n        return i\n    return None\n", 0)],
  ["C18", "C01"])
S("find_gt_tail_fast_path_correct", [(UT, "    i = bisect.bisect_right(sorted_list, x)\n    if i != len(sorted_list):\n        return i\n    return None\n",
                                      "    if not sorted_list or sorted_list[-1] <= x:\n        return None\n    i = bisect.bisect_right(sorted_list, x)\n    if i != len(sorted_list):\n        return i\n    return None\n", 0)])
S("find_ge_len_alias", [(UT, "    i = bisect.bisect_left(sorted_list, x)\n    if i != len(sorted_list):\n        return i\n    return None",
                         "    i = bisect.bisect_left(sorted_list, x)\n    n = len(sorted_list)\n    if i < n:\n        return i\n    return None", 0)])

# ---- round 5: the less central API surface
F("select_key_split", [(DB, "tag_key = key[5:]", "tag_key = key.split('.')[1]", 1)], ["C01", "C07", "C05", "C10"])
F("time_leaf_enumerate", [(IDX, "for idx, timestamp in zip(self._storage_pos_sorted_by_ts, self._timestamps):",
                           "for idx, timestamp in enumerate(self._timestamps):", 0)], ["C01", "C02", "C03", "C08"], ["C06", "C07"])
F("close_resets_index", [(DB, "        self._open = False\n        self._storage.close()\n        return\n",
                          "        self._open = False\n        self._index = Index()\n        self._storage.close()\n        return\n", 0)],
  ["C13"], ["C06", "C01", "C07"])
F("hash_fallback_to_identity", [(QR, "        return hash(self._hash)\n",
                                 "        try:\n            return hash(self._hash)\n        except TypeError:\n            return object.__hash__(self)\n", 1)],
  ["C17"])
F("csv_reset_skips_empty_file", [(ST, "        self._write([])\n        return\n",
                                  "        if os.path.getsize(self._path) == 0:\n            return\n        self._write([])\n        return\n", 1)],
  ["C13", "C02", "C04", "C15"], ["C12"])
F("update_all_via_public_update", [(DB, "return self._update_helper(True, TagQuery().noop(), time=time, measurement=measurement, tags=tags, fields=fields, _measurement=None, unset_fields=unset_fields, unset_tags=unset_tags)",
                                    "return self.update(TagQuery().noop(), time=time, measurement=measurement, tags=tags, fields=fields, unset_fields=unset_fields, unset_tags=unset_tags)", 0)],
  ["C15", "C13", "C12"], ["C03", "C01", "C10"])

# ---- round 6: caches, convenience validation, robustness shortcuts
F("facade_validates_tag_keys_first", [(MS, "        return self._db.get_tag_values(tag_keys, self._name)\n",
                                       "        if not all((isinstance(i, str) for i in tag_keys)):\n            raise ValueError('tag_keys must be strings')\n        return self._db.get_tag_values(tag_keys, self._name)\n", 0)],
  ["C10", "C07", "C01"])
F("closed_handle_iterates_empty", [(ST, "        self._handle.seek(0)\n        return csv.reader(self._handle, **self.kwargs)\n",
                                    "        if self._handle.closed:\n            return iter(())\n        self._handle.seek(0)\n        return csv.reader(self._handle, **self.kwargs)\n", 0)],
  ["C13", "C07", "C01"])
F("compound_init_rewrites_hashval", [(QR, "        self.operator = operator\n        self._hash = hashval\n",
                                      "        self.operator = operator\n        if query2 is not None and hashval:\n            hashval = (hashval[0], frozenset((h for h in hashval[1] if h)))\n        self._hash = hashval\n", 0)],
  ["C17", "C09"])
F("remove_loop_pads_rows", [(DB, "            for i, item in enumerate(self._storage):\n                if j == len(index_rst._items) or i not in index_rst._items:\n                    self._storage.append([item], temporary=True)",
                             "            for i, item in enumerate(map(list, self._storage)):\n                if j == len(index_rst._items) or i not in index_rst._items:\n                    self._storage.append([item], temporary=True)", 0)],
  ["C02", "C03", "C04", "C05", "C01", "C07"], ["C06", "C10", "C15", "C12"])

# ---- round 8: first-order mutants that survive the test suite (operator / constant / statement level)
F("update_candidate_counter_step_two", [(DB, "                    self._storage.append([item], temporary=True)\n                j += 1\n",
                                         "                    self._storage.append([item], temporary=True)\n                j += 2\n", 0)], ["C03"])
F("remove_new_position_step_two", [(DB, "                    new_position += 1\n", "                    new_position += 2\n", 0)],
  ["C02", "C06", "C01", "C07"])
F("remove_scan_keep_not_counted", [(DB, "                else:\n                    self._storage.append([item], temporary=True)\n                    keep_count += 1\n",
                                    "                else:\n                    self._storage.append([item], temporary=True)\n                    keep_count += 0\n", 0)],
  ["C02", "C06", "C01", "C07"])
F("getter_filter_without_unset_case", [(DB, "if measurement and self._storage._deserialize_measurement(item) != measurement:\n                continue\n",
                                        "if self._storage._deserialize_measurement(item) != measurement:\n                continue\n", 2)],
  ["C07", "C10"], ["C01"])
F("getter_filter_breaks_scan", [(DB, "if measurement and self._storage._deserialize_measurement(item) != measurement:\n                continue\n",
                                 "if measurement and self._storage._deserialize_measurement(item) != measurement:\n                break\n", 2)],
  ["C07", "C10"], ["C01"])
F("remove_tags_stops_at_empty_bucket", [(IDX, "                if not new_items:\n                    continue\n",
                                         "                if not new_items:\n                    break\n", 0)], ["C06", "C02", "C01", "C07", "C10"])
F("remove_tags_drops_first_value", [(IDX, "                if tag_key not in new_tags:\n                    new_tags[tag_key] = {value: new_items}\n                else:\n                    new_tags[tag_key][value] = new_items\n",
                                     "                if tag_key not in new_tags:\n                    pass\n                else:\n                    new_tags[tag_key][value] = new_items\n", 0)],
  ["C06", "C02", "C01", "C07", "C10"])
F("remove_tags_keeps_the_removed", [(IDX, "new_items = [i for i in old_items if i not in r_items]", "new_items = [i for i in old_items if i in r_items]", 0)],
  ["C06", "C02", "C01", "C07", "C10"])
F("remove_fields_filters_by_value", [(IDX, "new_items = [i for i in old_items if i[0] not in r_items]", "new_items = [i for i in old_items if i[1] not in r_items]", 0)],
  ["C06", "C02", "C01", "C07", "C10"])
F("field_values_filtered_by_value", [(IDX, "field_values = [i[1] for i in items if i[0] in measurement_items]",
                                      "field_values = [i[1] for i in items if i[1] in measurement_items]", 0)], ["C07", "C10", "C06", "C01"])
F("latest_time_reads_first_entry", [(IDX, "self._timestamps[-1]", "self._timestamps[-0]", 0)], ["C06", "C01", "C02", "C03"])
F("cleanup_only_without_temp", [(ST, "        if self._temp_handle is not None:\n            name = self._temp_handle.name",
                                 "        if self._temp_handle is None:\n            name = self._temp_handle.name", 0)], ["C15"])
F("cleanup_removes_only_missing_file", [(ST, "            if os.path.exists(name):\n                os.remove(name)\n",
                                         "            if not os.path.exists(name):\n                os.remove(name)\n", 0)], ["C15"])
F("reopen_mode_not_a_mode", [(ST, "mode='r+' if self._mode in ('w', 'w+') else self._mode", "mode='r+x' if self._mode in ('w', 'w+') else self._mode", 0)],
  ["C04", "C12", "C13", "C01", "C02", "C03", "C06", "C16"])
F("field_validation_stops_at_none", [(PT, "        if i is None:\n            continue\n", "        if i is None:\n            break\n", 0)], ["C14"])
F("regex_true_on_non_string", [(QR, "            if not isinstance(value, str):\n                return False\n",
                                "            if not isinstance(value, str):\n                return True\n", 1)], ["C09"])
F("get_measurements_scan_collects_nothing", [(DB, "            names.add(self._storage._deserialize_measurement(item))\n", "            pass\n", 0)], ["C07"])
F("remove_timestamps_tests_timestamp", [(IDX, "            if pos not in r_items:\n", "            if ts not in r_items:\n", 0)],
  ["C06", "C02", "C01", "C07", "C10"])
F("remove_timestamps_positions_get_timestamps", [(IDX, "new_positions.append(pos)", "new_positions.append(ts)", 0)],
  ["C06", "C02", "C01", "C07", "C10"])
F("remove_tags_filters_the_value_string", [(IDX, "new_items = [i for i in old_items if i not in r_items]", "new_items = [i for i in value if i not in r_items]", 0)],
  ["C06", "C02", "C01", "C07", "C10"])
F("get_timestamps_pairs_lose_position", [(IDX, "zipped = [(i, j) for i, j in zip(self._timestamps, self._storage_pos_sorted_by_ts)]",
                                          "zipped = [(i, i) for i, j in zip(self._timestamps, self._storage_pos_sorted_by_ts)]", 0)], ["C07"])
S("remove_candidate_counter_never_advances", [(DB, "                removed_items.add(i)\n                j += 1\n", "                removed_items.add(i)\n                j += 0\n", 0)],
  note="equivalent: the early-exit test never fires, `i not in items` decides alone")
S("remove_keep_counter_counts_double", [(DB, "                    new_position += 1\n                    keep_count += 1\n", "                    new_position += 1\n                    keep_count += 2\n", 0)],
  note="equivalent: only the truthiness of the keep counter is used")

# ----------------------------------------------------------------- property dependencies
# A breach of a discipline is reported under every property it is a necessary condition of
# (e.g. a stale-but-valid index breaks C06 and therefore also the index-served answers of C01/C07;
# a corrupted rewrite breaks C04 and therefore "other points untouched" of C02/C03).  The labels
# below add those dependent properties to the variants written before the dependency table.
IDXDEP = ["C01", "C07"]
RELABEL = {
    "build_valid_early": (None, ["C01", "C11"]),
    "insert_handler_does_not_invalidate": (None, IDXDEP),
    "remove_swap_failure_keeps_index": (None, ["C06", "C02"] + IDXDEP),
    "update_invalidates_after_swap": (None, ["C06", "C03"] + IDXDEP),
    "temp_file_default_encoding": (None, ["C01", "C02", "C03", "C05", "C06", "C07", "C12"]),
    "time_setter_unvalidated": (None, ["C11"]),
    "remove_swaps_on_noop": (None, ["C12"]),
    "compound_call_repeats_q1": (None, ["C17"]),
    "no_flush_before_copy": (None, ["C01", "C02", "C03", "C06"]),
    "reopen_with_original_mode": (None, ["C01", "C02", "C03", "C06"]),
    "remove_swap_failure_keeps_index_": (None, []),
    "memory_update_helper_write_primary": (None, ["C12", "C06", "C13", "C14", "C08", "C16"] + IDXDEP),
    "insert_reads_storage": (None, ["C15", "C12", "C06", "C01"]),
    "insert_ungated": (None, ["C11", "C06", "C01"]),
    "reset_writes_data": (None, ["C15", "C13", "C06", "C11", "C02"] + IDXDEP),
    "len_counts_lines": (["C07"], []),
    "insert_time_position_after_append": (None, ["C07"]),
    "insert_maps_use_loop_index": (None, ["C07"]),
    "build_fields_off_by_one": (None, ["C07"]),
    "append_without_seek_end": (["C04", "C16", "C12", "C07", "C11", "C01"], []),
    "update_rewrites_unconditionally": (None, ["C15"]),
    "update_time_not_normalised": (None, ["C01", "C05"]),
    "insert_default_time_naive": (None, ["C04", "C01", "C05"]),
    "compact_tag_prefix_ambiguous": (None, ["C01", "C07"]),
    "field_prefix_strip_wrong_len": (None, ["C01", "C07"]),
    "fields_written_before_tags": (None, ["C01", "C07"]),
}
for _v in V:
    if _v.name in RELABEL:
        _e, _a = RELABEL[_v.name]
        if _e is not None:
            _v.expect = set(_e)
        _v.allow = set(_v.allow) | set(_a)
