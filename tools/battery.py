"""Development helper: run the whole variant battery for all (or given) properties and print a matrix."""
import sys, time, os
os.environ.setdefault("TF_SKIP_MYPY", "1")
sys.path.insert(0, "/verif")
from tfstatic.driver import load_rules, PROPS
from tfstatic.context import Ctx
from tfstatic import thorough

load_rules()
props = sys.argv[1:] or PROPS
ctx = Ctx()
t0 = time.time()
tot = 0
for p in props:
    r = thorough.run(p, ctx, 0)
    print(p, {k: v for k, v in r.items() if k.startswith("variants_")}, f"{time.time()-t0:.0f}s")
    for f in r.get("thorough_failures", []):
        print("   FAIL", f)
        tot += 1
print("failures:", tot)
