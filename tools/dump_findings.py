"""Development helper: print the current unlisted violations as known-findings lines (for curation by hand)."""
import sys
sys.path.insert(0, "/verif")
from tfstatic.driver import load_rules, evaluate, classify, PROPS
from tfstatic.context import Ctx
from tfstatic.report import Known

load_rules()
ctx = Ctx()
known = Known()
for p in PROPS:
    obs = evaluate(p, ctx)
    viol, kn, stale = classify(p, obs, known)
    for o in viol:
        print(f"finding: property={p} rule={o.rule} key={o.key} :: {o.msg[:200]}")
