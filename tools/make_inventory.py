#!/venv/bin/python
"""Regenerate /verif/known_functions.txt: the inventory of functions, methods and private
module-level names of the validated /repo tree.  `tfstatic.inline` treats private helpers that are
NOT in this inventory as refactoring artefacts and inlines them where they are simple enough."""
import ast, os, sys
root = sys.argv[1] if len(sys.argv) > 1 else "/repo"
names = set()
for f in sorted(os.listdir(os.path.join(root, "tinyflux"))):
    if not f.endswith(".py"):
        continue
    tree = ast.parse(open(os.path.join(root, "tinyflux", f), encoding="utf-8").read())
    for st in tree.body:
        if isinstance(st, (ast.FunctionDef, ast.AsyncFunctionDef)):
            names.add(st.name)
        elif isinstance(st, ast.ClassDef):
            names.add(st.name)
            for m in st.body:
                if isinstance(m, (ast.FunctionDef, ast.AsyncFunctionDef)):
                    names.add(f"{st.name}.{m.name}")
                elif isinstance(m, ast.Assign):
                    for t in m.targets:
                        if isinstance(t, ast.Name):
                            names.add(f"{st.name}.{t.id}")
        elif isinstance(st, ast.Assign):
            for t in st.targets:
                if isinstance(t, ast.Name):
                    names.add(t.id)
for f in sorted(os.listdir(os.path.join(root, "tinyflux"))):
    if not f.endswith(".py"):
        continue
    tree = ast.parse(open(os.path.join(root, "tinyflux", f), encoding="utf-8").read())
    for fn in ast.walk(tree):
        if isinstance(fn, (ast.FunctionDef, ast.AsyncFunctionDef)):
            for st in ast.walk(fn):
                if isinstance(st, (ast.FunctionDef, ast.AsyncFunctionDef)) and st is not fn:
                    names.add(f"{fn.name}.<nested>.{st.name}")
attrs = []
for f in sorted(os.listdir(os.path.join(root, "tinyflux"))):
    if not f.endswith(".py"):
        continue
    tree = ast.parse(open(os.path.join(root, "tinyflux", f), encoding="utf-8").read())
    for st in tree.body:
        if isinstance(st, ast.ClassDef):
            for m in st.body:
                if isinstance(m, ast.FunctionDef) and m.name == "__init__":
                    params = {a.arg for a in m.args.posonlyargs + m.args.args + m.args.kwonlyargs} - {"self"}
                    for n in ast.walk(m):
                        if isinstance(n, (ast.Assign, ast.AnnAssign)):
                            ts = n.targets if isinstance(n, ast.Assign) else [n.target]
                            v = n.value
                            if len(ts) == 1 and isinstance(ts[0], ast.Attribute) and isinstance(ts[0].value, ast.Name) \
                                    and ts[0].value.id == "self" and isinstance(v, ast.Name) and v.id in params:
                                attrs.append(f"attr {st.name}.{v.id}={ts[0].attr}")
def _fingerprint(fn):
    a = fn.args
    npar = len(a.posonlyargs) + len(a.args) + len(a.kwonlyargs)
    attrs = sorted({n.attr for n in ast.walk(fn) if isinstance(n, ast.Attribute) and isinstance(n.value, ast.Name)
                    and n.value.id == "self" and not any(isinstance(p_, ast.Call) and p_.func is n for p_ in ast.walk(fn))})
    nst = sum(1 for n in ast.walk(fn) if isinstance(n, ast.stmt))
    return f"{npar}|{','.join(attrs)}|{nst // 4}"


sigs = []
for f in sorted(os.listdir(os.path.join(root, "tinyflux"))):
    if not f.endswith(".py"):
        continue
    tree = ast.parse(open(os.path.join(root, "tinyflux", f), encoding="utf-8").read())
    for st in tree.body:
        if isinstance(st, ast.ClassDef):
            for m in st.body:
                if isinstance(m, ast.FunctionDef) and m.name.startswith("_") and not m.name.startswith("__"):
                    sigs.append(f"sig {st.name}.{m.name}={_fingerprint(m)}")
decos = []
for f in sorted(os.listdir(os.path.join(root, "tinyflux"))):
    if f != "database.py":
        continue
    tree = ast.parse(open(os.path.join(root, "tinyflux", f), encoding="utf-8").read())
    for st in tree.body:
        if isinstance(st, ast.ClassDef) and st.name == "TinyFlux":
            for m in st.body:
                if isinstance(m, ast.FunctionDef) and not m.name.startswith("_"):
                    ds = [ast.unparse(d) for d in m.decorator_list]
                    decos.append(f"deco TinyFlux.{m.name}={','.join(ds)}")
here = os.path.dirname(os.path.dirname(os.path.abspath(__file__)))
with open(os.path.join(here, "known_functions.txt"), "w") as fh:
    fh.write("# inventory of the validated tree (tools/make_inventory.py); see tfstatic/inline.py\n")
    for n in sorted(names):
        fh.write(n + "\n")
    for a in sorted(set(attrs)):
        fh.write(a + "\n")
    for a in sorted(set(sigs)):
        fh.write(a + "\n")
    for a in sorted(set(decos)):
        fh.write(a + "\n")
print(len(names), "names")
