#!/venv/bin/python
"""Print a module of /repo as the rules see it (after canonical renaming and helper inlining)."""
import ast, sys
sys.path.insert(0, "/verif")
from tfstatic.model import Program
p = Program()
for l in p.inlined:
    print("#", l)
if len(sys.argv) > 1:
    print(ast.unparse(p.modules[sys.argv[1]][2]))
