"""Development helper: store confirmed mutants under /verif/seeded/<id>/ and (re)compute which checks detect them.

usage: record_seeded.py add <Cxx> <outdir-name> <round-tag> <confirm-log> <first-sight-log>
       record_seeded.py refresh [glob]     (re-run every kept patch [matching the glob] against all checks, update meta.json)
"""
import json, os, re, shutil, subprocess, sys, glob

def detect(patch):
    out = subprocess.run(["/verif/tools/try_mutant.sh", patch], capture_output=True, text=True).stdout
    return sorted(set(re.findall(r"(C\d+) FIRES", out))), sorted(set(re.findall(r"(C\d+) ANALYSIS-ERROR", out)))

def add(prop, outdir, tag, conf_log, first_log):
    conf = {}
    for l in open(conf_log):
        m = re.match(r"(C\d+) m(\d) clean_demo=(\d+) mutant_demo=(\d+) tests: (.*)", l)
        if m:
            conf[m.group(2)] = (int(m.group(3)), int(m.group(4)), m.group(5))
    first = {}
    if first_log and os.path.exists(first_log):
        for l in open(first_log):
            m = re.match(r".*?(C\d+)/%s/mutant_(\d)\.diff :: (.*)" % re.escape(outdir), l)
            if m and m.group(1) == prop:
                first[m.group(2)] = sorted(set(re.findall(r"(C\d+) FIRES", m.group(3))))
    src = f"/tmp/wt_{prop}/{outdir}"
    for k in ("1", "2", "3"):
        if k not in conf or conf[k][0] != 0 or conf[k][1] == 0 or "149 passed" not in conf[k][2]:
            print("NOT CONFIRMED", prop, k, conf.get(k)); continue
        dst = f"/verif/seeded/{prop}_{tag}m{k}"
        os.makedirs(dst, exist_ok=True)
        shutil.copy(f"{src}/mutant_{k}.diff", f"{dst}/patch.diff")
        demo = open(f"{src}/demo_{k}.py").read()
        for q in ('"', "'"):
            demo = demo.replace(f"{q}/tmp/wt_{prop}{q}", '__import__("os").environ.get("TINYFLUX_SRC", "/repo")')
        open(f"{dst}/demo.py", "w").write(demo)
        note = open(f"{src}/note_{k}.md").read().replace(f"/tmp/wt_{prop}", "<worktree>")
        open(f"{dst}/note.md", "w").write(note)
        lines = [l.strip() for l in note.splitlines() if l.strip() and not l.startswith("#")]
        c = conf[k]
        meta = {"id": f"{prop}_{tag}m{k}", "breaks_property": prop,
                "origin": "independent sub-agent given only the property text and a scratch worktree of /repo (nothing from /verif)",
                "needs_to_manifest": " ".join(lines)[:700],
                "confirmed": {"test_suite_with_patch": c[2], "demo_exit_without_patch": c[0], "demo_exit_with_patch": c[1],
                              "how": "scratch worktree under /tmp: git apply patch.diff; /venv/bin/python -m pytest -q -p no:cacheprovider; python demo.py; git checkout -- tinyflux; python demo.py"},
                "detected_at_first_sight_by": first.get(k),
                "run": "tools/try_mutant.sh seeded/<id>/patch.diff  (git -C /repo apply; ./check Cxx for all 18; git -C /repo checkout -- .)"}
        json.dump(meta, open(f"{dst}/meta.json", "w"), indent=1)

def _detect_overlay(args):
    """In-memory detection (no /repo patching): which properties report a new violation."""
    patch, = args
    sys.path.insert(0, "/verif")
    from tfstatic.driver import load_rules, PROPS
    from tfstatic.context import Ctx
    from tfstatic.model import AnalysisError
    from tfstatic.report import rules_for, run_rule
    from tfstatic import patches
    load_rules()
    base_ctx = Ctx()
    raw = {rel: src for m, (rel, src, tree) in base_ctx.prog.modules.items()}
    ov = patches.apply(raw, open(patch).read())
    ctx = Ctx(None, ov)
    fires, errs = [], []
    for p_ in PROPS:
        base, cur, err = set(), set(), False
        for r in rules_for(p_):
            try:
                base |= {(o.rule, o.key) for o in run_rule(r, base_ctx, p_) if not o.ok}
            except AnalysisError:
                pass
            try:
                cur |= {(o.rule, o.key) for o in run_rule(r, ctx, p_) if not o.ok}
            except AnalysisError:
                err = True
        if cur - base:
            fires.append(p_)
        elif err:
            errs.append(p_)
    return patch, fires, errs


def refresh(pattern="*"):
    import multiprocessing as mp
    metas = sorted(glob.glob(f"/verif/seeded/{pattern}/meta.json"))
    jobs = [(os.path.join(os.path.dirname(d), "patch.diff"),) for d in metas]
    with mp.get_context("fork").Pool(8, maxtasksperchild=4) as pool:
        res = pool.map_async(_detect_overlay, jobs, chunksize=1).get(timeout=3600)
    for d, (patch, fires, errs) in zip(metas, res):
        m = json.load(open(d))
        m["detected_by_checks"] = fires
        m["analysis_error_in"] = errs
        m["target_property_detected"] = m["breaks_property"] in fires
        json.dump(m, open(d, "w"), indent=1)
        print(m["id"], "target" if m["target_property_detected"] else "MISS", fires, errs)


if sys.argv[1] == "add":
    add(*sys.argv[2:7])
else:
    refresh(*sys.argv[2:3])
