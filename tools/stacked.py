"""Development helper: seeded changes on top of a stack of composed refactorings.

usage: stacked.py <stack.diff>      (a diff of /repo made by applying many refactors/*.diff)
For every seeded patch that still applies on top of the stack: does the target property still
report a violation that the stack alone does not report?
"""
import json, os, sys, glob
sys.path.insert(0, "/verif")
import multiprocessing as mp


def job(args):
    stack, patch, target = args
    from tfstatic.driver import load_rules
    from tfstatic.context import Ctx
    from tfstatic.model import AnalysisError
    from tfstatic.report import rules_for, run_rule
    from tfstatic import patches
    load_rules()
    c0 = Ctx()
    raw = {rel: src for m, (rel, src, tree) in c0.prog.modules.items()}
    try:
        base_ov = patches.apply(raw, open(stack).read())
        full = dict(raw); full.update(base_ov)
        ov = patches.apply(full, open(patch).read())
    except Exception as e:
        return patch, "n/a", str(e)[:60]
    merged = dict(base_ov); merged.update(ov)
    try:
        b = Ctx(None, base_ov)
        c = Ctx(None, merged)
    except Exception as e:
        return patch, "n/a", "model: " + str(e)[:60]
    base, cur, err = set(), set(), None
    for r in rules_for(target):
        try:
            base |= {(o.rule, o.key) for o in run_rule(r, b, target) if not o.ok}
        except AnalysisError:
            pass
        try:
            cur |= {(o.rule, o.key) for o in run_rule(r, c, target) if not o.ok}
        except AnalysisError as e:
            err = str(e)[:100]
    if cur - base:
        return patch, "fires", ""
    return patch, ("error" if err else "silent"), err or ""


if __name__ == "__main__":
    stack = sys.argv[1]
    jobs = []
    for d in sorted(glob.glob("/verif/seeded/*/meta.json")):
        m = json.load(open(d))
        if m.get("target_property_detected"):
            jobs.append((stack, os.path.join(os.path.dirname(d), "patch.diff"), m["breaks_property"]))
    with mp.get_context("fork").Pool(12, maxtasksperchild=4) as pool:
        res = pool.map(job, jobs, chunksize=1)
    tally = {}
    for patch, verdict, why in res:
        tally[verdict] = tally.get(verdict, 0) + 1
        if verdict in ("silent", "error"):
            print(verdict, patch.split("/")[-2], why)
    print(tally)
