#!/bin/sh
# Development helper: run every kept/candidate mutant diff against all checks; one line per mutant.
for d in "$@"; do
  r=$(/verif/tools/try_mutant.sh "$d" 2>&1 | grep -E "FIRES|ANALYSIS-ERROR$" | tr '\n' ' ')
  echo "$d :: $r"
done
