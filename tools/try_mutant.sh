#!/bin/sh
# Development helper: apply a diff to /repo, run every quick check (no evidence written), undo the diff.
# usage: tools/try_mutant.sh <patch.diff> [prop ...]
D="$1"; shift
PROPS="$*"
[ -n "$PROPS" ] || PROPS="C01 C02 C03 C04 C05 C06 C07 C08 C09 C10 C11 C12 C13 C14 C15 C16 C17 C18"
cd /repo || exit 2
git diff --quiet || { echo "/repo is dirty"; exit 2; }
trap 'git -C /repo checkout -- . ' EXIT INT TERM
git apply "$D" || { echo "patch does not apply"; exit 2; }
cd /verif
for p in $PROPS; do
  ( out=$(./check $p --no-evidence 2>&1); rc=$?
    if [ $rc -eq 1 ]; then echo "$p FIRES"; echo "$out" | grep -E "^  C[0-9]+\.R" | cut -c1-260 | head -4
    elif [ $rc -eq 2 ]; then echo "$p ANALYSIS-ERROR"; echo "$out" | grep -E "ANALYSIS-ERROR|Error|error" | head -3 | cut -c1-260
    fi ) &
done
wait
